module verif/engine

go 1.23

require (
	github.com/zeebo/blake3 v0.2.4
	golang.org/x/crypto v0.28.0
	golang.org/x/tools v0.29.0
)

require (
	github.com/klauspost/cpuid/v2 v2.2.8 // indirect
	golang.org/x/mod v0.22.0 // indirect
	golang.org/x/sync v0.10.0 // indirect
	golang.org/x/sys v0.29.0 // indirect
)
