// vcheck: solver-based checking of mitum properties by symbolic execution of the real code.
package main

import (
	"encoding/json"
	"flag"
	"fmt"
	"os"
	"os/exec"
	"path/filepath"
	"runtime"
	"sort"
	"strconv"
	"strings"
	"sync/atomic"
	"time"

	"golang.org/x/tools/go/packages"
	"golang.org/x/tools/go/ssa"
	"golang.org/x/tools/go/ssa/ssautil"

	"verif/engine/symgo"
)

const modPath = "github.com/spikeekips/mitum"

// repoDir is /repo; VERIF_REPO overrides it (background sweeps over a snapshot of /repo, seeded copies).
var repoDir = func() string {
	if d := os.Getenv("VERIF_REPO"); d != "" {
		return d
	}
	return "/repo"
}()

// verifDir is /verif; VERIF_DIR overrides it for development copies.
var verifDir = func() string {
	if d := os.Getenv("VERIF_DIR"); d != "" {
		return d
	}
	return "/verif"
}()

type entryCfg struct {
	Func        string         `json:"func"`
	Preemptions *int           `json:"preemptions,omitempty"`
	SchedWidth  int            `json:"sched_width,omitempty"` // max alternatives at a free context switch (0 = all)
	HashFork    bool           `json:"hash_fork,omitempty"`   // see symgo.Options.HashFork
	DelayBound  *int           `json:"delay_bound,omitempty"` // delay-bounded scheduling: deviations from oldest-first at free switches
	MapOrderAll bool           `json:"map_order_all,omitempty"`
	SelectFirst bool           `json:"select_first,omitempty"` // see symgo.Options.SelectFirst
	TimeoutMs   int            `json:"timeout_ms,omitempty"`
	MaxPaths    int            `json:"max_paths,omitempty"`
	Bounds      map[string]int `json:"bounds,omitempty"`
	Thorough    *entryCfg      `json:"thorough,omitempty"` // overrides for the thorough tier
	OnlyTier    string         `json:"only_tier,omitempty"`
	Claim       string         `json:"claim,omitempty"`
	ExpectPanic bool           `json:"expect_panic,omitempty"`
	BudgetS     int            `json:"budget_s,omitempty"`
	Pkg         string         `json:"pkg,omitempty"` // package dir of this entry (default: the property's pkg)
	NoNativeValidation string  `json:"no_native_validation,omitempty"` // reason why OK-path vectors are not compared with native runs (e.g. real-time dependent)
}

type morePkg struct {
	Pkg   string   `json:"pkg"`
	Files []string `json:"files"`
}

type propCfg struct {
	Pkg         string     `json:"pkg"`   // package dir relative to /repo, e.g. "base"
	Files       []string   `json:"files"` // harness files under /verif/harness
	Entries     []entryCfg `json:"entries"`
	More        []morePkg  `json:"more,omitempty"` // further packages with their harness files
	HashFork    bool       `json:"hash_fork,omitempty"`
	Tags        []string   `json:"tags,omitempty"`
	Assumptions []string   `json:"assumptions,omitempty"`
	BoundsText  string     `json:"bounds_text,omitempty"`
	Outside     string     `json:"outside_claim,omitempty"`
	Solver      string     `json:"solver,omitempty"`
	Portfolio   []symgo.PortfolioStep `json:"portfolio,omitempty"`
	QuickAssertMs int `json:"quick_assert_ms,omitempty"`
	PortfolioThorough []symgo.PortfolioStep `json:"portfolio_thorough,omitempty"`
}

type knownFinding struct {
	Property string `json:"property"`
	Status   string `json:"status"` // known | fixed
	Label    string `json:"label"`
	What     string `json:"what"`
	Commit   string `json:"commit,omitempty"`
}

func fatal(format string, a ...interface{}) {
	fmt.Fprintf(os.Stderr, "vcheck: "+format+"\n", a...)
	os.Exit(2)
}

func main() {
	prop := flag.String("p", "", "property id")
	tier := flag.String("tier", "", "quick|thorough")
	only := flag.String("entry", "", "run only this entry function")
	trace := flag.Bool("trace", false, "trace instructions")
	workers := flag.Int("workers", 0, "workers (default NumCPU)")
	replay := flag.String("replay", "", "replay a counterexample file natively")
	solver := flag.String("solver", "", "z3|z3-new|cvc5|cvc5-int (default: per property, else z3)")
	noReplay := flag.Bool("no-replay", false, "do not replay counterexamples natively")
	verbose := flag.Bool("v", false, "verbose")
	exploreAll := flag.Bool("all", false, "keep exploring after the first violation")
	boundFlag := flag.String("bound", "", "override harness bounds: name=val,name=val (development)")
	flag.Parse()
	overrideBounds := map[string]int{}
	for _, kv := range strings.Split(*boundFlag, ",") {
		if i := strings.Index(kv, "="); i > 0 {
			n, _ := strconv.Atoi(kv[i+1:])
			overrideBounds[kv[:i]] = n
		}
	}
	if *tier == "" {
		*tier = os.Getenv("VERIF_TIER")
	}
	if *tier == "" {
		*tier = "quick"
	}
	if *prop == "" {
		fatal("need -p <property>")
	}
	seed := 0
	if s := os.Getenv("VERIF_SEED"); s != "" {
		seed, _ = strconv.Atoi(s)
	}
	if *workers == 0 {
		*workers = runtime.NumCPU()
		if w, err := strconv.Atoi(os.Getenv("VERIF_WORKERS")); err == nil && w > 0 {
			*workers = w
		}
	}
	var pc propCfg
	b, err := os.ReadFile(filepath.Join(verifDir, "harness", "index.d", *prop+".json"))
	if err != nil {
		fatal("unknown property %s: %v", *prop, err)
	}
	if err := json.Unmarshal(b, &pc); err != nil {
		fatal("index.d/%s.json: %v", *prop, err)
	}
	var known []knownFinding
	if b, err := os.ReadFile(filepath.Join(verifDir, "known_findings.json")); err == nil {
		if err := json.Unmarshal(b, &known); err != nil {
			fatal("known_findings.json: %v", err)
		}
	}

	if *solver == "" {
		*solver = pc.Solver
	}
	if *solver == "" {
		*solver = "z3"
	}
	scratch, err := os.MkdirTemp("", "vcheck-"+*prop+"-")
	if err != nil {
		fatal("%v", err)
	}
	defer os.RemoveAll(scratch)
	c := &checker{prop: *prop, pc: pc, tier: *tier, seed: seed, scratch: scratch, workers: *workers, solver: *solver,
		trace: *trace, known: known, verbose: *verbose, noReplay: *noReplay, overrideBounds: overrideBounds, exploreAll: *exploreAll}
	c.prepare()
	// (os.Exit does not run deferred calls: remove the scratch directory explicitly)
	if *replay != "" {
		rc := c.replayFile(*replay)
		os.RemoveAll(scratch)
		os.Exit(rc)
	}
	rc := c.run(*only)
	os.RemoveAll(scratch)
	os.Exit(rc)
}

type checker struct {
	prop     string
	pc       propCfg
	tier     string
	seed     int
	scratch  string
	workers  int
	solver   string
	trace    bool
	verbose  bool
	noReplay bool
	known    []knownFinding
	overlay  map[string][]byte
	modfile  string
	binary   string
	binErr   string
	env      []string
	overrideBounds map[string]int
	exploreAll bool
}

func (c *checker) prepare() {
	// scratch copies of go.mod/go.sum so that /repo is never written
	for _, f := range []string{"go.mod", "go.sum"} {
		b, err := os.ReadFile(filepath.Join(repoDir, f))
		if err != nil {
			fatal("%v", err)
		}
		if err := os.WriteFile(filepath.Join(c.scratch, f), b, 0o644); err != nil {
			fatal("%v", err)
		}
	}
	c.modfile = filepath.Join(c.scratch, "go.mod")
	c.overlay = map[string][]byte{}
	rt, err := os.ReadFile(filepath.Join(verifDir, "rt", "verifrt.go"))
	if err != nil {
		fatal("%v", err)
	}
	c.overlay[filepath.Join(repoDir, "util", "verifrt", "verifrt.go")] = rt
	for _, g := range c.groups() {
		for _, f := range g.Files {
			b, err := os.ReadFile(filepath.Join(verifDir, "harness", f))
			if err != nil {
				fatal("%v", err)
			}
			c.overlay[filepath.Join(repoDir, g.Pkg, "zz_verif_"+strings.ToLower(filepath.Base(f)))] = b
		}
	}
	// development aid: VERIF_REPLACE="rel/path.go=/abs/replacement.go,..." overlays files of /repo
	// (engine and native replay both see the replacement; /repo itself is never written). Used to
	// try a suggested repair or a mutation against a harness.
	if rep := os.Getenv("VERIF_REPLACE"); rep != "" {
		for _, kv := range strings.Split(rep, ",") {
			k, v, ok := strings.Cut(kv, "=")
			if !ok {
				fatal("VERIF_REPLACE: %q", kv)
			}
			b, err := os.ReadFile(v)
			if err != nil {
				fatal("%v", err)
			}
			c.overlay[filepath.Join(repoDir, k)] = b
			fmt.Printf("REPLACED (development run, not a verdict on /repo): %s <- %s\n", k, v)
		}
	}
	c.env = append(os.Environ(), "GOFLAGS=-mod=mod", "GOPROXY=off", "GOSUMDB=off", "GOTOOLCHAIN=local", "GOWORK=off")
}

func (c *checker) groups() []morePkg {
	return append([]morePkg{{Pkg: c.pc.Pkg, Files: c.pc.Files}}, c.pc.More...)
}

func (c *checker) entryPkg(e entryCfg) string {
	if e.Pkg != "" {
		return e.Pkg
	}
	return c.pc.Pkg
}

func (c *checker) entryBudget(e entryCfg) time.Duration {
	if e.BudgetS > 0 {
		return time.Duration(e.BudgetS) * time.Second
	}
	if c.tier == "thorough" {
		return 90 * time.Minute
	}
	return 12 * time.Minute
}

func (c *checker) portfolio() []symgo.PortfolioStep {
	if c.tier == "thorough" && len(c.pc.PortfolioThorough) > 0 {
		return c.pc.PortfolioThorough
	}
	return c.pc.Portfolio
}

func (c *checker) tags() string {
	t := append([]string{"verif"}, c.pc.Tags...)
	return strings.Join(t, ",")
}

func (c *checker) load() (*symgo.Program, map[string]*ssa.Package) {
	cfg := &packages.Config{
		Mode:       packages.LoadAllSyntax,
		Dir:        repoDir,
		Env:        c.env,
		BuildFlags: []string{"-modfile=" + c.modfile, "-tags=" + c.tags()},
		Overlay:    c.overlay,
	}
	var patterns []string
	for _, g := range c.groups() {
		patterns = append(patterns, "./"+g.Pkg)
	}
	pkgs, err := packages.Load(cfg, patterns...)
	if err != nil {
		fatal("load: %v", err)
	}
	nerr := 0
	packages.Visit(pkgs, nil, func(p *packages.Package) {
		for _, e := range p.Errors {
			if nerr < 20 {
				fmt.Fprintf(os.Stderr, "load error: %v\n", e)
			}
			nerr++
		}
	})
	if nerr > 0 {
		fatal("%d load errors (does /repo build?)", nerr)
	}
	prog, spkgs := ssautil.AllPackages(pkgs, ssa.InstantiateGenerics|ssa.SanityCheckFunctions&0)
	prog.Build()
	out := map[string]*ssa.Package{}
	for _, sp := range spkgs {
		if sp == nil {
			fatal("package without SSA")
		}
		out[strings.TrimPrefix(sp.Pkg.Path(), modPath+"/")] = sp
	}
	return symgo.NewProgram(prog, modPath+"/util/verifrt"), out
}

type replayVec struct {
	Tier   string            `json:"tier"`
	Bounds map[string]int    `json:"bounds"`
	Inputs []symgo.InputVal  `json:"inputs"`
	Entry  string            `json:"entry"`
	Prop   string            `json:"property"`
	Label  string            `json:"label"`
	Kind   string            `json:"kind"`
	Detail string            `json:"detail,omitempty"`
	Prefix []int32           `json:"prefix,omitempty"`
	Kinds  string            `json:"kinds,omitempty"`
	Goroutines int           `json:"goroutines,omitempty"`
	Mode   string            `json:"replay_mode,omitempty"` // native | native-stress | engine-schedule
	Stack  []string          `json:"stack,omitempty"`
}

// buildNative compiles the harness natively (once).
func (c *checker) buildNative() error {
	if c.binary != "" {
		return nil
	}
	if c.binErr != "" {
		return fmt.Errorf("%s", c.binErr)
	}
	var sb strings.Builder
	sb.WriteString("package main\n\nimport (\n\t\"fmt\"\n\t\"os\"\n")
	alias := map[string]string{}
	usedPkg := map[string]bool{}
	for _, e := range c.pc.Entries {
		usedPkg[c.entryPkg(e)] = true
	}
	for i, g := range c.groups() {
		if !usedPkg[g.Pkg] {
			// a "more" package that only holds helpers (no entry): keep it linked, but unnamed
			fmt.Fprintf(&sb, "\t_ %q\n", modPath+"/"+g.Pkg)
			continue
		}
		alias[g.Pkg] = fmt.Sprintf("p%d", i)
		fmt.Fprintf(&sb, "\tp%d %q\n", i, modPath+"/"+g.Pkg)
	}
	sb.WriteString(")\n\n")
	sb.WriteString("func main() {\n\tswitch os.Args[1] {\n")
	for _, e := range c.pc.Entries {
		fmt.Fprintf(&sb, "\tcase %q:\n\t\t%s.%s()\n", e.Func, alias[c.entryPkg(e)], e.Func)
	}
	sb.WriteString("\tdefault:\n\t\tfmt.Println(\"unknown entry\")\n\t\tos.Exit(5)\n\t}\n\tfmt.Println(\"VERIF-DONE\")\n}\n")
	ov := map[string]string{}
	write := func(virtual string, content []byte) {
		real := filepath.Join(c.scratch, fmt.Sprintf("ov%d.go", len(ov)))
		os.WriteFile(real, content, 0o644)
		ov[virtual] = real
	}
	for v, b := range c.overlay {
		write(v, b)
	}
	write(filepath.Join(repoDir, "zz_verifmain", "main.go"), []byte(sb.String()))
	ovb, _ := json.Marshal(map[string]interface{}{"Replace": ov})
	ovPath := filepath.Join(c.scratch, "overlay.json")
	os.WriteFile(ovPath, ovb, 0o644)
	bin := filepath.Join(c.scratch, "harness.bin")
	cmd := exec.Command("go", "build", "-modfile="+c.modfile, "-overlay="+ovPath, "-tags="+c.tags(), "-o", bin, "./zz_verifmain")
	cmd.Dir = repoDir
	cmd.Env = c.env
	out, err := cmd.CombinedOutput()
	if err != nil {
		c.binErr = fmt.Sprintf("native build failed: %v\n%s", err, out)
		return fmt.Errorf("%s", c.binErr)
	}
	c.binary = bin
	return nil
}

type nativeResult struct {
	exit    int
	out     string
	failed  string // label of failed assertion
	panicked bool
	deadlock bool
	diverged bool
	reached map[string]bool
	done    bool
}

func (c *checker) runNative(entry string, vec replayVec) (*nativeResult, error) {
	if err := c.buildNative(); err != nil {
		return nil, err
	}
	vb, _ := json.Marshal(vec)
	vp := filepath.Join(c.scratch, "vec.json")
	os.WriteFile(vp, vb, 0o644)
	cmd := exec.Command(c.binary, entry)
	cmd.Env = append(c.env, "VERIF_REPLAY="+vp)
	done := make(chan struct{})
	var out []byte
	var err error
	go func() { out, err = cmd.CombinedOutput(); close(done) }()
	select {
	case <-done:
	case <-time.After(60 * time.Second):
		cmd.Process.Kill()
		<-done
	}
	r := &nativeResult{out: string(out), reached: map[string]bool{}}
	if ee, ok := err.(*exec.ExitError); ok {
		r.exit = ee.ExitCode()
	} else if err != nil {
		return nil, err
	}
	for _, line := range strings.Split(r.out, "\n") {
		switch {
		case strings.HasPrefix(line, "VERIF-ASSERT-FAIL "):
			r.failed = strings.TrimPrefix(line, "VERIF-ASSERT-FAIL ")
		case strings.HasPrefix(line, "VERIF-REACH "):
			r.reached[strings.TrimPrefix(line, "VERIF-REACH ")] = true
		case strings.HasPrefix(line, "VERIF-REPLAY-DIVERGED"), strings.HasPrefix(line, "VERIF-ASSUME-FAIL"):
			r.diverged = true
		case strings.HasPrefix(line, "panic:") || strings.HasPrefix(line, "fatal error:"):
			r.panicked = true
			if strings.Contains(line, "deadlock") {
				r.deadlock = true
			}
		case line == "VERIF-DONE":
			r.done = true
		}
	}
	return r, nil
}

// confirmNative runs the native harness (up to n times) and reports whether the expected failure shows.
func (c *checker) confirmNative(entry string, vec replayVec, kind, label string, n int) (bool, string) {
	why := ""
	for i := 0; i < n; i++ {
		nr, err := c.runNative(entry, vec)
		if err != nil {
			return false, err.Error()
		}
		ok := false
		switch kind {
		case "assert":
			ok = nr.failed == label
		case "panic":
			ok = nr.panicked && !nr.deadlock
		case "deadlock":
			ok = nr.deadlock
		}
		if ok {
			return true, ""
		}
		why = fmt.Sprintf("native run: exit=%d failed=%q panicked=%v diverged=%v done=%v", nr.exit, nr.failed, nr.panicked, nr.diverged, nr.done)
	}
	return false, why
}

// confirmEngine re-executes the recorded path with every input concrete (no solver decisions):
// an independent interpretation of the real code's SSA under the recorded schedule.
func (c *checker) confirmEngine(prog *symgo.Program, fn *ssa.Function, e entryCfg, vec replayVec) bool {
	opt := symgo.DefaultOptions()
	opt.MapOrderAll = e.MapOrderAll
	if e.Preemptions != nil {
		opt.Preemptions = *e.Preemptions
	}
	opt.SchedWidth = e.SchedWidth
	opt.SelectFirst = e.SelectFirst
	opt.HashFork = e.HashFork || c.pc.HashFork
	if e.DelayBound != nil {
		opt.DelayBound = *e.DelayBound
	}
	cfg := symgo.Config{Entry: fn, Opt: opt, Workers: 1, Solver: c.solver, TimeoutMs: 20000, Tier: vec.Tier, Bounds: vec.Bounds,
		StopOnViolation: true, ConcreteInputs: vec.Inputs, ConcretePrefix: vec.Prefix, ConcreteKinds: vec.Kinds}
	if cfg.ConcreteInputs == nil {
		cfg.ConcreteInputs = []symgo.InputVal{}
	}
	rep := symgo.Explore(prog, cfg)
	for _, v := range rep.Violations {
		if v.Kind == vec.Kind && (v.Kind != "assert" || v.Label == vec.Label) {
			return true
		}
	}
	return false
}

func (c *checker) effective(e0 entryCfg) entryCfg {
	e := c.effective0(e0)
	if len(c.overrideBounds) > 0 {
		b := map[string]int{}
		for k, v := range e.Bounds {
			b[k] = v
		}
		for k, v := range c.overrideBounds {
			b[k] = v
		}
		e.Bounds = b
	}
	return e
}

func (c *checker) effective0(e entryCfg) entryCfg {
	if c.tier == "thorough" && e.Thorough != nil {
		t := *e.Thorough
		if t.Func == "" {
			t.Func = e.Func
		}
		if t.Bounds == nil {
			t.Bounds = e.Bounds
		}
		if t.Preemptions == nil {
			t.Preemptions = e.Preemptions
		}
		if t.SchedWidth == 0 {
			t.SchedWidth = e.SchedWidth
		}
		if t.DelayBound == nil {
			t.DelayBound = e.DelayBound
		}
		if !t.MapOrderAll {
			t.MapOrderAll = e.MapOrderAll
		}
		if !t.SelectFirst {
			t.SelectFirst = e.SelectFirst
		}
		if t.TimeoutMs == 0 {
			t.TimeoutMs = e.TimeoutMs
		}
		if t.Claim == "" {
			t.Claim = e.Claim
		}
		if t.BudgetS == 0 {
			t.BudgetS = e.BudgetS
		}
		if t.Pkg == "" {
			t.Pkg = e.Pkg
		}
		if t.MaxPaths == 0 {
			t.MaxPaths = e.MaxPaths
		}
		if t.NoNativeValidation == "" {
			t.NoNativeValidation = e.NoNativeValidation
		}
		return t
	}
	return e
}

func (c *checker) isKnown(label string) *knownFinding {
	for i := range c.known {
		k := &c.known[i]
		if k.Property == c.prop && k.Status == "known" && k.Label == label {
			return k
		}
	}
	return nil
}

func (c *checker) run(only string) int {
	t0 := time.Now()
	prog, pkgmap := c.load()
	loadS := time.Since(t0).Seconds()
	if c.verbose {
		fmt.Printf("loaded in %.1fs\n", loadS)
	}
	var outs []entryOut2
	exit := 0
	var violLines, knownLines, inconclusive, mismatches []string
	validated := 0
	validMismatch := 0
	confirmedKnown := map[string]bool{}
	for _, e0 := range c.pc.Entries {
		e := c.effective(e0)
		if only != "" && e.Func != only {
			continue
		}
		if e.OnlyTier != "" && e.OnlyTier != c.tier {
			continue
		}
		pkg := pkgmap[c.entryPkg(e)]
		if pkg == nil {
			fatal("package %s not loaded", c.entryPkg(e))
		}
		fn := pkg.Func(e.Func)
		if fn == nil {
			fatal("entry %s not found in package %s", e.Func, pkg.Pkg.Path())
		}
		opt := symgo.DefaultOptions()
		opt.Trace = c.trace
		opt.MapOrderAll = e.MapOrderAll
		if e.Preemptions != nil {
			opt.Preemptions = *e.Preemptions
		}
		opt.SchedWidth = e.SchedWidth
	opt.SelectFirst = e.SelectFirst
		opt.HashFork = e.HashFork || c.pc.HashFork
		if e.DelayBound != nil {
			opt.DelayBound = *e.DelayBound
		}
		timeout := e.TimeoutMs
		if timeout == 0 {
			timeout = 20000
			if c.tier == "thorough" {
				timeout = 120000
			}
		}
		// violations that are listed known findings do not end the exploration of the entry
		knownLabels := map[string]bool{}
		for _, k := range c.known {
			if k.Property == c.prop && k.Status == "known" {
				knownLabels[k.Label] = true
				if k.Label == e.Func+":panic" {
					knownLabels["panic"] = true
				}
				if k.Label == e.Func+":deadlock" {
					knownLabels["deadlock"] = true
				}
			}
		}
		var nvec int32
		cfg := symgo.Config{Known: knownLabels, Entry: fn, Opt: opt, Workers: c.workers, Solver: c.solver, Portfolio: c.portfolio(), QuickAssertMs: c.pc.QuickAssertMs, TimeoutMs: timeout,
			MaxPaths: e.MaxPaths, Tier: c.tier, Bounds: e.Bounds, StopOnViolation: !c.exploreAll, Deadline: time.Now().Add(c.entryBudget(e)),
			WantVector: func() bool { return atomic.AddInt32(&nvec, 1) <= 2 }}
		if c.trace {
			cfg.Workers = 1
		}
		cfg.ProfileInit = os.Getenv("VERIF_PROFILE_INIT") != ""
		rep := symgo.Explore(prog, cfg)
		outs = append(outs, entryOut2{e, rep})
		if c.verbose {
			fmt.Printf("%s: paths=%d outcomes=%v queries=%d solver=%.1fs wall=%.1fs asserts=%d\n", e.Func, rep.Paths, rep.ByOutcome, rep.Queries, rep.SolverTime.Seconds(), rep.Wall.Seconds(), rep.Asserts)
			for k, n := range rep.Details {
				fmt.Printf("   %dx %s\n", n, k)
			}
			for k, n := range rep.Notes {
				fmt.Printf("   note %dx %s\n", n, k)
			}
			for _, v := range rep.Violations {
				fmt.Printf("   violation %s %s %q inputs=%v\n      stack=%v\n", v.Kind, v.Label, v.Detail, v.Inputs, v.Stack)
			}
		}
		// inconclusive conditions
		for _, o := range []string{symgo.OutUnsupported, symgo.OutTruncated, "engine-bug"} {
			if rep.ByOutcome[o] > 0 {
				inconclusive = append(inconclusive, fmt.Sprintf("%s: %d paths %s", e.Func, rep.ByOutcome[o], o))
			}
		}
		if rep.AssertUnknown > 0 {
			inconclusive = append(inconclusive, fmt.Sprintf("%s: %d assertion queries unknown", e.Func, rep.AssertUnknown))
		}
		if rep.Incomplete {
			inconclusive = append(inconclusive, fmt.Sprintf("%s: exploration stopped by path/time budget after %d paths", e.Func, rep.Paths))
		}
		if rep.ByOutcome[symgo.OutOK] == 0 && len(rep.Violations) == 0 {
			// (an entry whose every path ends at a failing assertion is not vacuous: it is reported
			// through its violations / known findings)
			inconclusive = append(inconclusive, fmt.Sprintf("%s: vacuous (no path completed)", e.Func))
		}
		// translator validation: replay sample vectors of OK paths natively
		if !c.noReplay && e.NoNativeValidation == "" {
			for _, v := range rep.Vectors {
				nr, err := c.runNative(e.Func, replayVec{Tier: c.tier, Bounds: e.Bounds, Inputs: v.Inputs})
				if err != nil {
					mismatches = append(mismatches, "native: "+err.Error())
					break
				}
				validated++
				okk := nr.done && nr.failed == "" && !nr.panicked && !nr.diverged
				if okk {
					for _, r := range v.Reached {
						if !nr.reached[r] {
							okk = false
						}
					}
					if len(nr.reached) != len(v.Reached) {
						okk = false
					}
				}
				if !okk {
					validMismatch++
					var nrs []string
					for r := range nr.reached {
						nrs = append(nrs, r)
					}
					sort.Strings(nrs)
					mismatches = append(mismatches, fmt.Sprintf("%s: OK-path vector behaves differently natively (exit=%d failed=%q panicked=%v diverged=%v engine-reached=%v native-reached=%v inputs=%v)", e.Func, nr.exit, nr.failed, nr.panicked, nr.diverged, v.Reached, nrs, v.Inputs))
				}
			}
		}
		// violations
		seenLabel := map[string]bool{}
		for i, v := range rep.Violations {
			kind := v.Kind
			if e.ExpectPanic && kind == "panic" {
				continue
			}
			vec := replayVec{Tier: c.tier, Bounds: e.Bounds, Inputs: v.Inputs, Entry: e.Func, Prop: c.prop, Label: v.Label, Kind: v.Kind, Detail: v.Detail, Prefix: v.Prefix, Kinds: v.Kinds, Goroutines: v.Goroutines, Stack: v.Stack}
			confirmed := false
			why := ""
			if c.noReplay {
				confirmed = true
			} else {
				confirmed, why = c.confirmNative(e.Func, vec, kind, v.Label, 1)
				if confirmed {
					vec.Mode = "native"
				}
				if !confirmed && v.Goroutines > 1 {
					// schedule-dependent counterexample: the native run does not follow the engine's schedule.
					// 1) native stress, 2) deterministic concrete re-execution of the recorded path in the engine
					if ok, _ := c.confirmNative(e.Func, vec, kind, v.Label, 40); ok {
						confirmed, vec.Mode = true, "native-stress"
					} else if c.confirmEngine(prog, fn, e, vec) {
						confirmed, vec.Mode = true, "engine-schedule"
					} else {
						why += "; engine concrete re-execution did not reproduce it either"
					}
				}
			}
			label := v.Label
			if kind != "assert" {
				label = e.Func + ":" + kind
			}
			if !confirmed {
				mismatches = append(mismatches, fmt.Sprintf("%s: counterexample for %q did not reproduce natively (%s)", e.Func, label, why))
				continue
			}
			if k := c.isKnown(label); k != nil {
				if !confirmedKnown[label] {
					confirmedKnown[label] = true
					knownLines = append(knownLines, fmt.Sprintf("KNOWN-FINDING: property=%s %s [%s]", c.prop, k.What, label))
				}
				continue
			}
			if seenLabel[label] {
				continue
			}
			seenLabel[label] = true
			os.MkdirAll(filepath.Join(verifDir, "replays"), 0o755)
			rp := filepath.Join(verifDir, "replays", fmt.Sprintf("%s_%s_%d.json", c.prop, e.Func, i))
			vb, _ := json.MarshalIndent(vec, "", " ")
			os.WriteFile(rp, vb, 0o644)
			violLines = append(violLines, fmt.Sprintf("VIOLATION property=%s replay=%s label=%q detail=%q confirmed=%s", c.prop, rp, label, v.Detail, vec.Mode))
			exit = 1
		}
	}
	for _, l := range knownLines {
		fmt.Println(l)
	}
	for _, l := range mismatches {
		fmt.Println("ENGINE-MISMATCH:", l)
	}
	for _, l := range inconclusive {
		fmt.Println("INCONCLUSIVE:", l)
	}
	for _, l := range violLines {
		fmt.Println(l)
	}
	// evidence
	ev := c.evidence(outs, time.Since(t0).Seconds(), loadS, len(violLines), knownLines, inconclusive, mismatches, validated, validMismatch)
	os.MkdirAll(filepath.Join(verifDir, "evidence"), 0o755)
	eb, _ := json.MarshalIndent(ev, "", " ")
	evname := c.prop + ".json"
	if only != "" || len(c.overrideBounds) > 0 || os.Getenv("VERIF_REPLACE") != "" || c.noReplay {
		// a development run (one entry, overridden bounds, replaced files, no replay) does not
		// describe the registered check: it must not overwrite the check's evidence
		evname = c.prop + ".partial.json"
	}
	if err := os.WriteFile(filepath.Join(verifDir, "evidence", evname), eb, 0o644); err != nil {
		fatal("%v", err)
	}
	if exit == 0 {
		fmt.Printf("OK property=%s tier=%s violations=0 known=%d inconclusive=%d wall=%.1fs\n", c.prop, c.tier, len(knownLines), len(inconclusive), time.Since(t0).Seconds())
	}
	return exit
}

type entryOut2 struct {
	cfg entryCfg
	rep *symgo.Report
}

func (c *checker) evidence(outs []entryOut2, wall, loadS float64, nviol int, knownLines, inconclusive, mismatches []string, validated, validMismatch int) map[string]interface{} {
	paths, queries, asserts, steps := 0, 0, 0, 0
	qsat, qunsat, qunk := 0, 0, 0
	solverS := 0.0
	funcs := map[string]bool{}
	stubs := map[string]bool{}
	var samples []interface{}
	var entries []interface{}
	reached := map[string]bool{}
	exhaustive := true
	for _, o := range outs {
		r := o.rep
		paths += r.Paths
		queries += r.Queries
		asserts += r.Asserts
		steps += r.Steps
		qsat += r.QSat
		qunsat += r.QUnsat
		qunk += r.QUnknown
		solverS += r.SolverTime.Seconds()
		for k := range r.Funcs {
			funcs[k] = true
		}
		for k := range r.Stubs {
			stubs[k] = true
		}
		for k := range r.Reached {
			reached[k] = true
		}
		if r.Incomplete || r.ByOutcome[symgo.OutTruncated] > 0 || r.ByOutcome[symgo.OutUnsupported] > 0 {
			exhaustive = false
		}
		for i, s := range r.Samples {
			if i < 2 {
				samples = append(samples, map[string]interface{}{"entry": o.cfg.Func, "path_condition": s})
			}
		}
		for i, v := range r.Vectors {
			if i < 1 {
				samples = append(samples, map[string]interface{}{"entry": o.cfg.Func, "concrete_vector_of_an_explored_path": v.Inputs})
			}
		}
		notes := map[string]int{}
		for k, n := range r.Notes {
			notes[k] = n
		}
		entries = append(entries, map[string]interface{}{
			"entry": o.cfg.Func, "claim": o.cfg.Claim, "bounds": o.cfg.Bounds, "paths": r.Paths, "outcomes": r.ByOutcome,
			"non_ok_details": r.Details, "assertion_queries_discharged_unsat": r.Asserts, "assertion_queries_unknown": r.AssertUnknown,
			"feasibility_unknown": r.FeasUnknown, "solver_queries": r.Queries, "solver_s": r.SolverTime.Seconds(),
			"wall_s": r.Wall.Seconds(), "interpreted_instructions": r.Steps, "max_decisions_on_a_path": r.MaxDecisions,
			"violations_by_label": r.ViolationsN, "notes": notes, "explored_completely": !r.Incomplete,
		})
	}
	// only the functions of the target module are listed in full
	var fl []string
	nlib := 0
	for f := range funcs {
		if strings.Contains(f, modPath) && !strings.Contains(f, "Verif") {
			fl = append(fl, f)
		} else {
			nlib++
		}
	}
	sort.Strings(fl)
	var sl []string
	for s := range stubs {
		sl = append(sl, s)
	}
	sort.Strings(sl)
	var rl []string
	for r := range reached {
		rl = append(rl, r)
	}
	sort.Strings(rl)
	if len(samples) == 0 {
		samples = append(samples, "no completed path")
	}
	assumptions := append([]string{
		"go/ssa translation and the engine's instruction semantics (cross-checked by native replay of sample vectors)",
		"solver " + c.solver + " verdicts; unknown/timeouts are reported as inconclusive, never as success",
		"environment stubs listed under coverage.stubs_hit",
	}, c.pc.Assumptions...)
	cov := map[string]interface{}{
		"states":                        max1(paths),
		"transitions":                   max1(queries),
		"traces_validated_against_impl": validated,
		"samples":                       samples,
		"exhaustive":                    exhaustive && len(inconclusive) == 0,
		"explanation":                   "states = execution paths of the real code explored symbolically (each path covers every input satisfying its path condition); transitions = SMT queries (feasibility + assertion); traces_validated = concrete vectors taken from solver models and re-run against the native build",
		"paths":                         paths,
		"solver_queries":                map[string]int{"total": queries, "sat": qsat, "unsat": qunsat, "unknown": qunk},
		"assertion_queries_discharged":  asserts,
		"solver_s":                      solverS,
		"load_and_ssa_build_s":          loadS,
		"interpreted_instructions":      steps,
		"functions_encoded":             fl,
		"library_functions_encoded":     nlib,
		"stubs_hit":                     sl,
		"reach_witnesses":               rl,
		"entries":                       entries,
		"bounds":                        c.pc.BoundsText,
		"outside_claim":                 c.pc.Outside,
		"known_findings_reported":       knownLines,
		"inconclusive":                  inconclusive,
		"engine_mismatches":             mismatches,
		"native_validation_mismatches":  validMismatch,
		"solver":                        c.solver,
	}
	return map[string]interface{}{
		"property_id": c.prop,
		"tier":        c.tier,
		"seed":        c.seed,
		"level":       "model_checking",
		"coverage":    cov,
		"assumptions": assumptions,
		"wall_s":      wall,
		"violations":  nviol,
	}
}

func max1(n int) int {
	if n < 1 {
		return 1
	}
	return n
}

func (c *checker) replayFile(path string) int {
	b, err := os.ReadFile(path)
	if err != nil {
		fatal("%v", err)
	}
	var vec replayVec
	if err := json.Unmarshal(b, &vec); err != nil {
		fatal("%v", err)
	}
	if vec.Mode == "engine-schedule" {
		prog, pkgmap := c.load()
		for _, e0 := range c.pc.Entries {
			e := c.effective(e0)
			if e.Func != vec.Entry {
				continue
			}
			fn := pkgmap[c.entryPkg(e)].Func(e.Func)
			if c.confirmEngine(prog, fn, e, vec) {
				fmt.Printf("VIOLATION property=%s replay=%s (reproduced by concrete re-execution of the recorded schedule in the engine; label %s)\n", c.prop, path, vec.Label)
				return 1
			}
		}
		fmt.Println("replay did not fail")
		return 0
	}
	nr, err := c.runNative(vec.Entry, vec)
	if err != nil {
		fatal("%v", err)
	}
	fmt.Print(nr.out)
	if nr.failed != "" || nr.panicked {
		fmt.Printf("VIOLATION property=%s replay=%s (reproduced natively)\n", c.prop, path)
		return 1
	}
	fmt.Println("replay did not fail")
	return 0
}
