// Package smt: hash-consed SMT term DAG with constant folding and SMT-LIB2 output.
package smt

import (
	"fmt"
	"math"
	"math/bits"
	"strconv"
	"strings"
)

type Kind uint8

const (
	KBool Kind = iota
	KBV
	KFP
)

type Sort struct {
	K Kind
	W int // BV width, FP total width (32/64)
}

var Bool = Sort{KBool, 0}

func BV(w int) Sort { return Sort{KBV, w} }
func FP(w int) Sort { return Sort{KFP, w} }

func (s Sort) String() string {
	switch s.K {
	case KBool:
		return "Bool"
	case KBV:
		return fmt.Sprintf("(_ BitVec %d)", s.W)
	case KFP:
		if s.W == 32 {
			return "(_ FloatingPoint 8 24)"
		}
		return "(_ FloatingPoint 11 53)"
	}
	return "?"
}

type Term struct {
	Op   string // "const", "var", or SMT operator
	Args []*Term
	S    Sort
	U    uint64  // constant BV (masked) / Bool (0,1)
	F    float64 // constant FP
	Name string
	P    [2]int // parameters: extract hi lo / extend n
	ID   int
}

func (t *Term) IsConst() bool { return t.Op == "const" }
func (t *Term) IsTrue() bool  { return t.Op == "const" && t.S.K == KBool && t.U == 1 }
func (t *Term) IsFalse() bool { return t.Op == "const" && t.S.K == KBool && t.U == 0 }

// Factory interns terms. Not safe for concurrent use (one per path/worker).
type Factory struct {
	tab    map[string]*Term
	nextID int
	Vars   []*Term
	nvar   int
}

func NewFactory() *Factory {
	return &Factory{tab: map[string]*Term{}}
}

func mask(w int) uint64 {
	if w >= 64 {
		return ^uint64(0)
	}
	return (uint64(1) << uint(w)) - 1
}

func (f *Factory) intern(key string, mk func() *Term) *Term {
	if t, ok := f.tab[key]; ok {
		return t
	}
	t := mk()
	f.nextID++
	t.ID = f.nextID
	f.tab[key] = t
	return t
}

func (f *Factory) BoolC(b bool) *Term {
	u := uint64(0)
	if b {
		u = 1
	}
	return f.intern(fmt.Sprintf("cb%d", u), func() *Term { return &Term{Op: "const", S: Bool, U: u} })
}

func (f *Factory) BVC(w int, v uint64) *Term {
	v &= mask(w)
	return f.intern(fmt.Sprintf("cv%d:%d", w, v), func() *Term { return &Term{Op: "const", S: BV(w), U: v} })
}

func (f *Factory) FPC(w int, v float64) *Term {
	if w == 32 {
		v = float64(float32(v))
	}
	return f.intern(fmt.Sprintf("cf%d:%x", w, math.Float64bits(v)), func() *Term { return &Term{Op: "const", S: FP(w), F: v} })
}

// Var creates a fresh variable with a unique name derived from hint.
func (f *Factory) Var(hint string, s Sort) *Term {
	f.nvar++
	name := fmt.Sprintf("v%d_%s", f.nvar, sanitize(hint))
	t := &Term{Op: "var", S: s, Name: name}
	f.nextID++
	t.ID = f.nextID
	f.Vars = append(f.Vars, t)
	return t
}

func sanitize(s string) string {
	var b strings.Builder
	for _, r := range s {
		if r >= 'a' && r <= 'z' || r >= 'A' && r <= 'Z' || r >= '0' && r <= '9' || r == '_' {
			b.WriteRune(r)
		} else {
			b.WriteByte('_')
		}
	}
	return b.String()
}

func (f *Factory) mk(op string, s Sort, p [2]int, args ...*Term) *Term {
	var kb strings.Builder
	kb.WriteString(op)
	if p != [2]int{} {
		fmt.Fprintf(&kb, "[%d,%d]", p[0], p[1])
	}
	if s.K == KFP || op == "zero_extend" || op == "sign_extend" || op == "to_fp" || op == "to_fp_unsigned" || op == "fp.to_ubv" || op == "fp.to_sbv" || op == "to_fp_fp" {
		fmt.Fprintf(&kb, "{%d}", s.W)
	}
	for _, a := range args {
		kb.WriteByte(' ')
		kb.WriteString(strconv.Itoa(a.ID))
	}
	return f.intern(kb.String(), func() *Term {
		return &Term{Op: op, S: s, P: p, Args: append([]*Term(nil), args...)}
	})
}

// ---------- Bool ----------

func (f *Factory) Not(a *Term) *Term {
	if a.IsConst() {
		return f.BoolC(a.U == 0)
	}
	if a.Op == "not" {
		return a.Args[0]
	}
	return f.mk("not", Bool, [2]int{}, a)
}

func (f *Factory) And(a, b *Term) *Term {
	if a.IsConst() {
		if a.U == 0 {
			return a
		}
		return b
	}
	if b.IsConst() {
		if b.U == 0 {
			return b
		}
		return a
	}
	if a == b {
		return a
	}
	return f.mk("and", Bool, [2]int{}, a, b)
}

func (f *Factory) Or(a, b *Term) *Term {
	if a.IsConst() {
		if a.U == 1 {
			return a
		}
		return b
	}
	if b.IsConst() {
		if b.U == 1 {
			return b
		}
		return a
	}
	if a == b {
		return a
	}
	return f.mk("or", Bool, [2]int{}, a, b)
}

func (f *Factory) AndN(ts ...*Term) *Term {
	r := f.BoolC(true)
	for _, t := range ts {
		r = f.And(r, t)
	}
	return r
}

func (f *Factory) OrN(ts ...*Term) *Term {
	r := f.BoolC(false)
	for _, t := range ts {
		r = f.Or(r, t)
	}
	return r
}

func (f *Factory) Implies(a, b *Term) *Term { return f.Or(f.Not(a), b) }

func (f *Factory) Ite(c, a, b *Term) *Term {
	if c.IsConst() {
		if c.U == 1 {
			return a
		}
		return b
	}
	if a == b {
		return a
	}
	if a.S.K == KBool {
		if a.IsConst() && b.IsConst() {
			if a.U == 1 {
				return c
			}
			return f.Not(c)
		}
	}
	return f.mk("ite", a.S, [2]int{}, c, a, b)
}

func (f *Factory) Eq(a, b *Term) *Term {
	if a.S != b.S {
		panic(fmt.Sprintf("smt.Eq: sort mismatch %v vs %v", a.S, b.S))
	}
	if a == b && a.S.K != KFP {
		return f.BoolC(true)
	}
	if a.IsConst() && b.IsConst() {
		switch a.S.K {
		case KFP:
			return f.BoolC(a.F == b.F)
		default:
			return f.BoolC(a.U == b.U)
		}
	}
	if a.S.K == KFP {
		return f.mk("fp.eq", Bool, [2]int{}, a, b)
	}
	if a.S.K == KBool {
		if a.IsConst() {
			if a.U == 1 {
				return b
			}
			return f.Not(b)
		}
		if b.IsConst() {
			if b.U == 1 {
				return a
			}
			return f.Not(a)
		}
	}
	if a.ID > b.ID {
		a, b = b, a
	}
	return f.mk("=", Bool, [2]int{}, a, b)
}

// ---------- BV ----------

func sext(v uint64, w int) int64 {
	if w >= 64 {
		return int64(v)
	}
	sh := uint(64 - w)
	return int64(v<<sh) >> sh
}

func (f *Factory) BVBin(op string, a, b *Term) *Term {
	if a.S != b.S {
		panic(fmt.Sprintf("smt.BVBin %s: sort mismatch %v vs %v", op, a.S, b.S))
	}
	w := a.S.W
	if a.IsConst() && b.IsConst() {
		x, y := a.U, b.U
		switch op {
		case "bvadd":
			return f.BVC(w, x+y)
		case "bvsub":
			return f.BVC(w, x-y)
		case "bvmul":
			return f.BVC(w, x*y)
		case "bvand":
			return f.BVC(w, x&y)
		case "bvor":
			return f.BVC(w, x|y)
		case "bvxor":
			return f.BVC(w, x^y)
		case "bvudiv":
			if y == 0 {
				return f.BVC(w, mask(w))
			}
			return f.BVC(w, x/y)
		case "bvurem":
			if y == 0 {
				return f.BVC(w, x)
			}
			return f.BVC(w, x%y)
		case "bvsdiv":
			sx, sy := sext(x, w), sext(y, w)
			if sy == 0 {
				if sx < 0 {
					return f.BVC(w, 1)
				}
				return f.BVC(w, mask(w))
			}
			if sy == -1 {
				return f.BVC(w, uint64(-sx))
			}
			return f.BVC(w, uint64(sx/sy))
		case "bvsrem":
			sx, sy := sext(x, w), sext(y, w)
			if sy == 0 {
				return f.BVC(w, x)
			}
			if sy == -1 {
				return f.BVC(w, 0)
			}
			return f.BVC(w, uint64(sx%sy))
		case "bvshl":
			if y >= uint64(w) {
				return f.BVC(w, 0)
			}
			return f.BVC(w, x<<y)
		case "bvlshr":
			if y >= uint64(w) {
				return f.BVC(w, 0)
			}
			return f.BVC(w, x>>y)
		case "bvashr":
			sx := sext(x, w)
			if y >= uint64(w) {
				y = uint64(w - 1)
			}
			return f.BVC(w, uint64(sx>>y))
		}
	}
	// light identities
	switch op {
	case "bvadd", "bvor", "bvxor":
		if a.IsConst() && a.U == 0 {
			return b
		}
		if b.IsConst() && b.U == 0 {
			return a
		}
	case "bvsub", "bvshl", "bvlshr", "bvashr":
		if b.IsConst() && b.U == 0 {
			return a
		}
	case "bvmul":
		if a.IsConst() && a.U == 1 {
			return b
		}
		if b.IsConst() && b.U == 1 {
			return a
		}
		if (a.IsConst() && a.U == 0) || (b.IsConst() && b.U == 0) {
			return f.BVC(w, 0)
		}
	case "bvand":
		if (a.IsConst() && a.U == 0) || (b.IsConst() && b.U == 0) {
			return f.BVC(w, 0)
		}
		if a.IsConst() && a.U == mask(w) {
			return b
		}
		if b.IsConst() && b.U == mask(w) {
			return a
		}
	}
	return f.mk(op, a.S, [2]int{}, a, b)
}

func (f *Factory) BVNot(a *Term) *Term {
	if a.IsConst() {
		return f.BVC(a.S.W, ^a.U)
	}
	return f.mk("bvnot", a.S, [2]int{}, a)
}

func (f *Factory) BVNeg(a *Term) *Term {
	if a.IsConst() {
		return f.BVC(a.S.W, -a.U)
	}
	return f.mk("bvneg", a.S, [2]int{}, a)
}

// BVCmp: op in bvult bvule bvugt bvuge bvslt bvsle bvsgt bvsge
func (f *Factory) BVCmp(op string, a, b *Term) *Term {
	if a.S != b.S {
		panic(fmt.Sprintf("smt.BVCmp %s: sort mismatch %v vs %v", op, a.S, b.S))
	}
	w := a.S.W
	if a.IsConst() && b.IsConst() {
		x, y := a.U, b.U
		sx, sy := sext(x, w), sext(y, w)
		var r bool
		switch op {
		case "bvult":
			r = x < y
		case "bvule":
			r = x <= y
		case "bvugt":
			r = x > y
		case "bvuge":
			r = x >= y
		case "bvslt":
			r = sx < sy
		case "bvsle":
			r = sx <= sy
		case "bvsgt":
			r = sx > sy
		case "bvsge":
			r = sx >= sy
		}
		return f.BoolC(r)
	}
	if a == b {
		switch op {
		case "bvule", "bvuge", "bvsle", "bvsge":
			return f.BoolC(true)
		default:
			return f.BoolC(false)
		}
	}
	return f.mk(op, Bool, [2]int{}, a, b)
}

func (f *Factory) Extract(hi, lo int, a *Term) *Term {
	w := hi - lo + 1
	if lo == 0 && w == a.S.W {
		return a
	}
	if a.IsConst() {
		return f.BVC(w, a.U>>uint(lo))
	}
	if a.Op == "concat" {
		// extract entirely within one side
		lw := a.Args[1].S.W
		if hi < lw {
			return f.Extract(hi, lo, a.Args[1])
		}
		if lo >= lw {
			return f.Extract(hi-lw, lo-lw, a.Args[0])
		}
	}
	if a.Op == "zero_extend" {
		iw := a.Args[0].S.W
		if hi < iw {
			return f.Extract(hi, lo, a.Args[0])
		}
		if lo >= iw {
			return f.BVC(w, 0)
		}
	}
	return f.mk("extract", BV(w), [2]int{hi, lo}, a)
}

func (f *Factory) Concat(a, b *Term) *Term {
	w := a.S.W + b.S.W
	if a.IsConst() && b.IsConst() && w <= 64 {
		return f.BVC(w, a.U<<uint(b.S.W)|b.U)
	}
	return f.mk("concat", BV(w), [2]int{}, a, b)
}

func (f *Factory) ZeroExt(a *Term, to int) *Term {
	if to == a.S.W {
		return a
	}
	if a.IsConst() {
		return f.BVC(to, a.U)
	}
	return f.mk("zero_extend", BV(to), [2]int{to - a.S.W, 0}, a)
}

func (f *Factory) SignExt(a *Term, to int) *Term {
	if to == a.S.W {
		return a
	}
	if a.IsConst() {
		return f.BVC(to, uint64(sext(a.U, a.S.W)))
	}
	return f.mk("sign_extend", BV(to), [2]int{to - a.S.W, 0}, a)
}

// Resize converts BV a to width `to`; signed selects sign extension when widening.
func (f *Factory) Resize(a *Term, to int, signed bool) *Term {
	switch {
	case to == a.S.W:
		return a
	case to < a.S.W:
		return f.Extract(to-1, 0, a)
	case signed:
		return f.SignExt(a, to)
	default:
		return f.ZeroExt(a, to)
	}
}

// ---------- FP ----------

func (f *Factory) FPBin(op string, a, b *Term) *Term {
	if a.S != b.S {
		panic("smt.FPBin sort mismatch")
	}
	if a.IsConst() && b.IsConst() {
		x, y := a.F, b.F
		var r float64
		switch op {
		case "fp.add":
			r = x + y
		case "fp.sub":
			r = x - y
		case "fp.mul":
			r = x * y
		case "fp.div":
			r = x / y
		}
		if a.S.W == 32 {
			// float32 arithmetic: double rounding of +,-,*,/ on float32 operands via float64 is exact (Figueroa)
			r = float64(float32(r))
		}
		return f.FPC(a.S.W, r)
	}
	return f.mk(op, a.S, [2]int{}, a, b)
}

func (f *Factory) FPCmp(op string, a, b *Term) *Term {
	if a.IsConst() && b.IsConst() {
		x, y := a.F, b.F
		var r bool
		switch op {
		case "fp.lt":
			r = x < y
		case "fp.leq":
			r = x <= y
		case "fp.gt":
			r = x > y
		case "fp.geq":
			r = x >= y
		case "fp.eq":
			r = x == y
		}
		return f.BoolC(r)
	}
	return f.mk(op, Bool, [2]int{}, a, b)
}

func (f *Factory) FPNeg(a *Term) *Term {
	if a.IsConst() {
		return f.FPC(a.S.W, -a.F)
	}
	return f.mk("fp.neg", a.S, [2]int{}, a)
}

func (f *Factory) FPAbs(a *Term) *Term {
	if a.IsConst() {
		return f.FPC(a.S.W, math.Abs(a.F))
	}
	return f.mk("fp.abs", a.S, [2]int{}, a)
}

// FPRound: mode in RTP (ceil), RTN (floor), RTZ (trunc), RNE
func (f *Factory) FPRound(mode string, a *Term) *Term {
	if a.IsConst() {
		var r float64
		switch mode {
		case "RTP":
			r = math.Ceil(a.F)
		case "RTN":
			r = math.Floor(a.F)
		case "RTZ":
			r = math.Trunc(a.F)
		case "RNE":
			r = math.RoundToEven(a.F)
		}
		return f.FPC(a.S.W, r)
	}
	return f.mk("fp.roundToIntegral."+mode, a.S, [2]int{}, a)
}

func (f *Factory) FPIsNaN(a *Term) *Term {
	if a.IsConst() {
		return f.BoolC(math.IsNaN(a.F))
	}
	return f.mk("fp.isNaN", Bool, [2]int{}, a)
}

func (f *Factory) FPIsInf(a *Term) *Term {
	if a.IsConst() {
		return f.BoolC(math.IsInf(a.F, 0))
	}
	return f.mk("fp.isInfinite", Bool, [2]int{}, a)
}

// IntToFP converts a BV (signed or not) to FP of width fw.
func (f *Factory) IntToFP(a *Term, signed bool, fw int) *Term {
	if a.IsConst() {
		var v float64
		if signed {
			v = float64(sext(a.U, a.S.W))
		} else {
			v = float64(a.U)
		}
		if fw == 32 {
			if signed {
				v = float64(float32(sext(a.U, a.S.W)))
			} else {
				v = float64(float32(a.U))
			}
		}
		return f.FPC(fw, v)
	}
	if a.Op == "zero_extend" {
		// the value is non-negative and fits the inner width: convert from the narrow vector (smaller circuit)
		return f.mk("to_fp_unsigned", FP(fw), [2]int{a.Args[0].S.W, 0}, a.Args[0])
	}
	if signed {
		return f.mk("to_fp", FP(fw), [2]int{a.S.W, 0}, a)
	}
	return f.mk("to_fp_unsigned", FP(fw), [2]int{a.S.W, 0}, a)
}

// FPToInt converts FP to BV of width w (truncation toward zero).
// Out-of-range results follow amd64 behaviour only for constants; symbolic
// out-of-range is unspecified in SMT-LIB (callers should guard).
func (f *Factory) FPToInt(a *Term, signed bool, w int) *Term {
	if a.IsConst() {
		v := a.F
		if signed {
			var r int64
			if math.IsNaN(v) || v >= 9.223372036854775807e18 || v < -9.223372036854775808e18 {
				r = math.MinInt64
			} else {
				r = int64(v)
			}
			return f.BVC(w, uint64(r))
		}
		var r uint64
		if math.IsNaN(v) || v < 0 || v >= 1.8446744073709552e19 {
			r = 1 << 63
			if v < 0 && v > -9.2e18 {
				r = uint64(int64(v))
			}
		} else {
			r = uint64(v)
		}
		return f.BVC(w, r)
	}
	if signed {
		return f.mk("fp.to_sbv", BV(w), [2]int{}, a)
	}
	return f.mk("fp.to_ubv", BV(w), [2]int{}, a)
}

func (f *Factory) FPToFP(a *Term, fw int) *Term {
	if a.S.W == fw {
		return a
	}
	if a.IsConst() {
		return f.FPC(fw, a.F)
	}
	return f.mk("to_fp_fp", FP(fw), [2]int{}, a)
}

// ---------- printing ----------

func bvLit(w int, v uint64) string {
	if w%4 == 0 {
		return fmt.Sprintf("#x%0*x", w/4, v)
	}
	return fmt.Sprintf("#b%0*b", w, v)
}

func fpLit(w int, v float64) string {
	if w == 32 {
		b := math.Float32bits(float32(v))
		return fmt.Sprintf("(fp #b%b #b%08b #b%023b)", b>>31, (b>>23)&0xff, b&0x7fffff)
	}
	b := math.Float64bits(v)
	return fmt.Sprintf("(fp #b%b #b%011b #b%052b)", b>>63, (b>>52)&0x7ff, b&((1<<52)-1))
}

// Ref returns the token by which the solver layer refers to t.
func (t *Term) Ref() string {
	switch t.Op {
	case "const":
		switch t.S.K {
		case KBool:
			if t.U == 1 {
				return "true"
			}
			return "false"
		case KBV:
			return bvLit(t.S.W, t.U)
		case KFP:
			return fpLit(t.S.W, t.F)
		}
	case "var":
		return t.Name
	}
	return "t" + strconv.Itoa(t.ID)
}

// Body returns the SMT-LIB expression of a non-leaf term in terms of the Refs of its args.
func (t *Term) Body() string {
	var b strings.Builder
	b.WriteByte('(')
	switch t.Op {
	case "extract":
		fmt.Fprintf(&b, "(_ extract %d %d)", t.P[0], t.P[1])
	case "zero_extend", "sign_extend":
		fmt.Fprintf(&b, "(_ %s %d)", t.Op, t.P[0])
	case "fp.add", "fp.sub", "fp.mul", "fp.div":
		b.WriteString(t.Op + " RNE")
	case "to_fp", "to_fp_unsigned":
		eb, sb := 11, 53
		if t.S.W == 32 {
			eb, sb = 8, 24
		}
		fmt.Fprintf(&b, "(_ %s %d %d) RNE", t.Op, eb, sb)
	case "to_fp_fp":
		eb, sb := 11, 53
		if t.S.W == 32 {
			eb, sb = 8, 24
		}
		fmt.Fprintf(&b, "(_ to_fp %d %d) RNE", eb, sb)
	case "fp.to_ubv", "fp.to_sbv":
		fmt.Fprintf(&b, "(_ %s %d) RTZ", t.Op, t.S.W)
	default:
		if strings.HasPrefix(t.Op, "fp.roundToIntegral.") {
			b.WriteString("fp.roundToIntegral " + strings.TrimPrefix(t.Op, "fp.roundToIntegral."))
		} else {
			b.WriteString(t.Op)
		}
	}
	for _, a := range t.Args {
		b.WriteByte(' ')
		b.WriteString(a.Ref())
	}
	b.WriteByte(')')
	return b.String()
}

// String renders the term fully inlined (for evidence samples / debugging; may be large).
func (t *Term) String() string {
	var b strings.Builder
	t.write(&b, 0)
	return b.String()
}

func (t *Term) write(b *strings.Builder, depth int) {
	if t.Op == "const" || t.Op == "var" {
		b.WriteString(t.Ref())
		return
	}
	if depth > 40 || b.Len() > 4000 {
		b.WriteString("…")
		return
	}
	b.WriteByte('(')
	b.WriteString(t.Op)
	if t.Op == "extract" {
		fmt.Fprintf(b, "[%d:%d]", t.P[0], t.P[1])
	}
	for _, a := range t.Args {
		b.WriteByte(' ')
		a.write(b, depth+1)
	}
	b.WriteByte(')')
}

// Eval evaluates t under a model (variable name -> value). ok=false if a var is missing or op unsupported.
func Eval(t *Term, bv map[string]uint64, fp map[string]float64) (u uint64, fl float64, ok bool) {
	switch t.Op {
	case "const":
		return t.U, t.F, true
	case "var":
		if t.S.K == KFP {
			v, ok := fp[t.Name]
			return 0, v, ok
		}
		v, ok := bv[t.Name]
		return v, 0, ok
	}
	// evaluate by rebuilding with a scratch factory over constants
	f := NewFactory()
	r := subst(f, t, bv, fp, map[*Term]*Term{})
	if r == nil || !r.IsConst() {
		return 0, 0, false
	}
	return r.U, r.F, true
}

func subst(f *Factory, t *Term, bv map[string]uint64, fp map[string]float64, memo map[*Term]*Term) *Term {
	if r, ok := memo[t]; ok {
		return r
	}
	var r *Term
	switch t.Op {
	case "const":
		switch t.S.K {
		case KBool:
			r = f.BoolC(t.U == 1)
		case KBV:
			r = f.BVC(t.S.W, t.U)
		case KFP:
			r = f.FPC(t.S.W, t.F)
		}
	case "var":
		switch t.S.K {
		case KBool:
			v, ok := bv[t.Name]
			if !ok {
				return nil
			}
			r = f.BoolC(v == 1)
		case KBV:
			v, ok := bv[t.Name]
			if !ok {
				return nil
			}
			r = f.BVC(t.S.W, v)
		case KFP:
			v, ok := fp[t.Name]
			if !ok {
				return nil
			}
			r = f.FPC(t.S.W, v)
		}
	default:
		args := make([]*Term, len(t.Args))
		for i, a := range t.Args {
			args[i] = subst(f, a, bv, fp, memo)
			if args[i] == nil {
				return nil
			}
		}
		r = f.Rebuild(t, args)
	}
	memo[t] = r
	return r
}

// Rebuild applies t's operator to new args (with folding).
func (f *Factory) Rebuild(t *Term, a []*Term) *Term {
	switch t.Op {
	case "not":
		return f.Not(a[0])
	case "and":
		return f.And(a[0], a[1])
	case "or":
		return f.Or(a[0], a[1])
	case "ite":
		return f.Ite(a[0], a[1], a[2])
	case "=":
		return f.Eq(a[0], a[1])
	case "bvadd", "bvsub", "bvmul", "bvand", "bvor", "bvxor", "bvudiv", "bvurem", "bvsdiv", "bvsrem", "bvshl", "bvlshr", "bvashr":
		return f.BVBin(t.Op, a[0], a[1])
	case "bvnot":
		return f.BVNot(a[0])
	case "bvneg":
		return f.BVNeg(a[0])
	case "bvult", "bvule", "bvugt", "bvuge", "bvslt", "bvsle", "bvsgt", "bvsge":
		return f.BVCmp(t.Op, a[0], a[1])
	case "extract":
		return f.Extract(t.P[0], t.P[1], a[0])
	case "concat":
		return f.Concat(a[0], a[1])
	case "zero_extend":
		return f.ZeroExt(a[0], t.S.W)
	case "sign_extend":
		return f.SignExt(a[0], t.S.W)
	case "fp.add", "fp.sub", "fp.mul", "fp.div":
		return f.FPBin(t.Op, a[0], a[1])
	case "fp.lt", "fp.leq", "fp.gt", "fp.geq", "fp.eq":
		return f.FPCmp(t.Op, a[0], a[1])
	case "fp.neg":
		return f.FPNeg(a[0])
	case "fp.abs":
		return f.FPAbs(a[0])
	case "fp.isNaN":
		return f.FPIsNaN(a[0])
	case "fp.isInfinite":
		return f.FPIsInf(a[0])
	case "to_fp":
		return f.IntToFP(a[0], true, t.S.W)
	case "to_fp_unsigned":
		return f.IntToFP(a[0], false, t.S.W)
	case "fp.to_sbv":
		return f.FPToInt(a[0], true, t.S.W)
	case "fp.to_ubv":
		return f.FPToInt(a[0], false, t.S.W)
	case "to_fp_fp":
		return f.FPToFP(a[0], t.S.W)
	}
	if strings.HasPrefix(t.Op, "fp.roundToIntegral.") {
		return f.FPRound(strings.TrimPrefix(t.Op, "fp.roundToIntegral."), a[0])
	}
	return nil
}

var _ = bits.Len
