package smt

import (
	"bufio"
	"fmt"
	"io"
	"math"
	"os/exec"
	"strconv"
	"strings"
	"time"
)

type Result int

const (
	Sat Result = iota
	Unsat
	Unknown
)

func (r Result) String() string {
	return [...]string{"sat", "unsat", "unknown"}[r]
}

// Solver is a long-lived SMT solver process spoken to in SMT-LIB2.
type Solver struct {
	Name      string
	cmd       *exec.Cmd
	in        io.WriteCloser
	out       *bufio.Reader
	defined   map[int]int // term ID -> level at which it was defined
	level     int
	TimeoutMs int
	Queries   int
	NSat      int
	NUnsat    int
	NUnknown  int
	Errors    int
	Time      time.Duration
	Log       io.Writer // optional transcript
	dead      bool
	tainted   bool // an (error line was seen since the last Reset
}

// NewSolver starts kind = "z3" | "z3-new" | "cvc5".
func NewSolver(kind string, timeoutMs int) (*Solver, error) {
	var cmd *exec.Cmd
	switch kind {
	case "z3", "z3-new":
		cmd = exec.Command(kind, "-in", "-smt2")
	case "cvc5":
		cmd = exec.Command("cvc5", "--incremental", "--lang=smt2", "--produce-models", fmt.Sprintf("--tlimit-per=%d", timeoutMs))
	case "cvc5-int":
		cmd = exec.Command("cvc5", "--incremental", "--lang=smt2", "--produce-models", "--solve-bv-as-int=sum", fmt.Sprintf("--tlimit-per=%d", timeoutMs))
	default:
		return nil, fmt.Errorf("unknown solver %q", kind)
	}
	in, err := cmd.StdinPipe()
	if err != nil {
		return nil, err
	}
	out, err := cmd.StdoutPipe()
	if err != nil {
		return nil, err
	}
	cmd.Stderr = nil
	if err := cmd.Start(); err != nil {
		return nil, err
	}
	s := &Solver{Name: kind, cmd: cmd, in: in, out: bufio.NewReaderSize(out, 1<<16), defined: map[int]int{}, TimeoutMs: timeoutMs}
	s.preamble()
	return s, nil
}

// TempTimeout sets a temporary per-query limit on z3 (ms>0) or restores the configured one (ms==0).
func (s *Solver) TempTimeout(ms int) {
	if strings.HasPrefix(s.Name, "cvc5") {
		return
	}
	if ms == 0 {
		ms = s.TimeoutMs
	}
	s.send(fmt.Sprintf("(set-option :timeout %d)", ms))
}

// SetTimeout changes the per-query time limit; it takes effect at the next Reset.
func (s *Solver) SetTimeout(ms int) { s.TimeoutMs = ms }

func (s *Solver) preamble() {
	if strings.HasPrefix(s.Name, "cvc5") {
		s.send(fmt.Sprintf("(set-option :tlimit-per %d)", s.TimeoutMs))
		s.send("(set-logic ALL)")
	} else {
		s.send("(set-option :produce-models true)")
		s.send(fmt.Sprintf("(set-option :timeout %d)", s.TimeoutMs))
	}
}

func (s *Solver) send(line string) {
	if s.Log != nil {
		fmt.Fprintln(s.Log, line)
	}
	if _, err := io.WriteString(s.in, line+"\n"); err != nil {
		s.dead = true
	}
}

func (s *Solver) Close() {
	if s.cmd != nil {
		s.in.Close()
		s.cmd.Process.Kill()
		s.cmd.Wait()
		s.cmd = nil
	}
}

// Reset clears all assertions and definitions.
func (s *Solver) Reset() {
	s.send("(reset)")
	s.defined = map[int]int{}
	s.level = 0
	s.tainted = false
	s.preamble()
}

func (s *Solver) Push() {
	s.send("(push 1)")
	s.level++
}

func (s *Solver) Pop() {
	s.send("(pop 1)")
	s.level--
	for id, l := range s.defined {
		if l > s.level {
			delete(s.defined, id)
		}
	}
}

// define makes sure t and everything under it is declared/defined; iterative post-order.
func (s *Solver) define(t *Term) {
	type fr struct {
		t *Term
		i int
	}
	if t.Op == "const" {
		return
	}
	if _, ok := s.defined[t.ID]; ok {
		return
	}
	stack := []fr{{t, 0}}
	for len(stack) > 0 {
		top := &stack[len(stack)-1]
		if top.i < len(top.t.Args) {
			a := top.t.Args[top.i]
			top.i++
			if a.Op == "const" {
				continue
			}
			if _, ok := s.defined[a.ID]; ok {
				continue
			}
			stack = append(stack, fr{a, 0})
			continue
		}
		tt := top.t
		stack = stack[:len(stack)-1]
		if _, ok := s.defined[tt.ID]; ok {
			continue
		}
		if tt.Op == "var" {
			s.send(fmt.Sprintf("(declare-const %s %s)", tt.Name, tt.S))
		} else {
			s.send(fmt.Sprintf("(define-fun %s () %s %s)", tt.Ref(), tt.S, tt.Body()))
		}
		s.defined[tt.ID] = s.level
	}
}

// Define makes t known to the solver without asserting anything.
func (s *Solver) Define(t *Term) { s.define(t) }

// GetBV returns the value of a defined BV/Bool term in the current model.
func (s *Solver) GetBV(t *Term) (uint64, error) {
	if t.IsConst() {
		return t.U, nil
	}
	s.send("(get-value (" + t.Ref() + "))")
	txt, err := s.readSexp()
	if err != nil {
		return 0, err
	}
	if strings.HasPrefix(txt, "(error") {
		return 0, fmt.Errorf("get-value: %s", txt)
	}
	i := 0
	root := parseSx(txt, &i)
	if root == nil || len(root.list) != 1 || len(root.list[0].list) != 2 {
		return 0, fmt.Errorf("bad get-value answer %s", txt)
	}
	v := root.list[0].list[1]
	if v.atom == "true" {
		return 1, nil
	}
	if v.atom == "false" {
		return 0, nil
	}
	if v.atom != "" {
		u, _, ok := bitsOf(v.atom)
		if ok {
			return u, nil
		}
	}
	if len(v.list) == 3 && strings.HasPrefix(v.list[1].atom, "bv") {
		return strconv.ParseUint(v.list[1].atom[2:], 10, 64)
	}
	return 0, fmt.Errorf("bad value %s", txt)
}

func (s *Solver) Assert(t *Term) {
	s.define(t)
	s.send("(assert " + t.Ref() + ")")
}

func (s *Solver) readLine() string {
	line, err := s.out.ReadString('\n')
	if err != nil {
		s.dead = true
		return "(error \"solver died\")"
	}
	return strings.TrimSpace(line)
}

// Check runs check-sat.
func (s *Solver) Check() Result {
	t0 := time.Now()
	s.send("(check-sat)")
	s.Queries++
	var r Result
	for {
		line := s.readLine()
		if s.Log != nil {
			fmt.Fprintln(s.Log, "; ->", line)
		}
		if line == "sat" {
			r = Sat
			s.NSat++
			break
		}
		if line == "unsat" {
			r = Unsat
			s.NUnsat++
			break
		}
		if line == "unknown" || strings.HasPrefix(line, "timeout") {
			r = Unknown
			s.NUnknown++
			break
		}
		if strings.HasPrefix(line, "(error") {
			s.Errors++
			s.tainted = true
			if s.dead {
				r = Unknown
				s.NUnknown++
				break
			}
			// keep reading: the check-sat answer still follows, but it is no longer trusted
			continue
		}
	}
	if s.tainted {
		r = Unknown
	}
	s.Time += time.Since(t0)
	return r
}

// CheckWith checks satisfiability of the current assertions plus extra (scoped).
func (s *Solver) CheckWith(extra ...*Term) Result {
	s.Push()
	for _, e := range extra {
		s.Assert(e)
	}
	r := s.Check()
	s.Pop()
	return r
}

// Model values after a Sat answer (must be called before Pop).
type Model struct {
	BV map[string]uint64
	FP map[string]float64
}

func (s *Solver) GetModel(vars []*Term) (*Model, error) {
	m := &Model{BV: map[string]uint64{}, FP: map[string]float64{}}
	var names []string
	byName := map[string]*Term{}
	for _, v := range vars {
		if _, ok := s.defined[v.ID]; !ok {
			continue
		}
		names = append(names, v.Name)
		byName[v.Name] = v
	}
	if len(names) == 0 {
		return m, nil
	}
	// chunk to keep lines moderate
	for i := 0; i < len(names); i += 200 {
		j := i + 200
		if j > len(names) {
			j = len(names)
		}
		s.send("(get-value (" + strings.Join(names[i:j], " ") + "))")
		txt, err := s.readSexp()
		if err != nil {
			return nil, err
		}
		if s.Log != nil {
			fmt.Fprintln(s.Log, "; ->", txt)
		}
		if strings.HasPrefix(txt, "(error") {
			return nil, fmt.Errorf("get-value: %s", txt)
		}
		if err := parseValues(txt, byName, m); err != nil {
			return nil, err
		}
	}
	return m, nil
}

// readSexp reads one balanced s-expression from the solver.
func (s *Solver) readSexp() (string, error) {
	var b strings.Builder
	depth := 0
	started := false
	for {
		c, err := s.out.ReadByte()
		if err != nil {
			s.dead = true
			return "", err
		}
		if !started {
			if c == ' ' || c == '\n' || c == '\r' || c == '\t' {
				continue
			}
			started = true
		}
		b.WriteByte(c)
		if c == '"' {
			// string literal
			for {
				c2, err := s.out.ReadByte()
				if err != nil {
					return "", err
				}
				b.WriteByte(c2)
				if c2 == '"' {
					break
				}
			}
			continue
		}
		if c == '(' {
			depth++
		} else if c == ')' {
			depth--
			if depth == 0 {
				return b.String(), nil
			}
		} else if depth == 0 && (c == '\n') {
			return strings.TrimSpace(b.String()), nil
		}
	}
}

type sx struct {
	atom string
	list []*sx
}

func parseSx(s string, i *int) *sx {
	for *i < len(s) && (s[*i] == ' ' || s[*i] == '\n' || s[*i] == '\t' || s[*i] == '\r') {
		*i++
	}
	if *i >= len(s) {
		return nil
	}
	if s[*i] == '(' {
		*i++
		n := &sx{list: []*sx{}}
		for {
			for *i < len(s) && (s[*i] == ' ' || s[*i] == '\n' || s[*i] == '\t' || s[*i] == '\r') {
				*i++
			}
			if *i >= len(s) {
				return n
			}
			if s[*i] == ')' {
				*i++
				return n
			}
			n.list = append(n.list, parseSx(s, i))
		}
	}
	j := *i
	for j < len(s) && s[j] != ' ' && s[j] != ')' && s[j] != '(' && s[j] != '\n' {
		j++
	}
	n := &sx{atom: s[*i:j]}
	*i = j
	return n
}

func bitsOf(a string) (uint64, int, bool) {
	if strings.HasPrefix(a, "#x") {
		v, err := strconv.ParseUint(a[2:], 16, 64)
		return v, 4 * (len(a) - 2), err == nil
	}
	if strings.HasPrefix(a, "#b") {
		v, err := strconv.ParseUint(a[2:], 2, 64)
		return v, len(a) - 2, err == nil
	}
	return 0, 0, false
}

func parseValues(txt string, byName map[string]*Term, m *Model) error {
	i := 0
	root := parseSx(txt, &i)
	if root == nil || root.list == nil {
		return fmt.Errorf("bad get-value answer: %s", txt)
	}
	for _, pair := range root.list {
		if len(pair.list) != 2 {
			continue
		}
		name := pair.list[0].atom
		v := pair.list[1]
		t := byName[name]
		if t == nil {
			continue
		}
		switch t.S.K {
		case KBool:
			if v.atom == "true" {
				m.BV[name] = 1
			} else {
				m.BV[name] = 0
			}
		case KBV:
			if v.atom != "" {
				u, _, ok := bitsOf(v.atom)
				if !ok {
					return fmt.Errorf("bad bv value %q", v.atom)
				}
				m.BV[name] = u
			} else if len(v.list) == 3 && v.list[0].atom == "_" && strings.HasPrefix(v.list[1].atom, "bv") {
				u, err := strconv.ParseUint(v.list[1].atom[2:], 10, 64)
				if err != nil {
					return err
				}
				m.BV[name] = u
			} else {
				return fmt.Errorf("bad bv value for %s", name)
			}
		case KFP:
			f, err := parseFP(v, t.S.W)
			if err != nil {
				return err
			}
			m.FP[name] = f
		}
	}
	return nil
}

func parseFP(v *sx, w int) (float64, error) {
	if len(v.list) == 4 && v.list[0].atom == "fp" {
		sg, _, _ := bitsOf(v.list[1].atom)
		ex, _, _ := bitsOf(v.list[2].atom)
		mn, _, _ := bitsOf(v.list[3].atom)
		if w == 32 {
			return float64(math.Float32frombits(uint32(sg<<31 | ex<<23 | mn))), nil
		}
		return math.Float64frombits(sg<<63 | ex<<52 | mn), nil
	}
	if len(v.list) >= 2 && v.list[0].atom == "_" {
		switch v.list[1].atom {
		case "+zero":
			return 0, nil
		case "-zero":
			return math.Copysign(0, -1), nil
		case "+oo":
			return math.Inf(1), nil
		case "-oo":
			return math.Inf(-1), nil
		case "NaN":
			return math.NaN(), nil
		}
	}
	return 0, fmt.Errorf("bad fp value")
}
