package symgo

import (
	"go/types"
	"net"

	"verif/engine/smt"
)

// Externals added for C36 (launch/ratelimit.go).
//
// Textual forms of network addresses: (net.IP).String, (*net.IPNet).String and
// (*net.UDPAddr).String go through net/netip, whose package state (unique handles) the engine
// does not initialise. The stubs compute the real text natively from the concrete bytes; a
// symbolic address is reported as unsupported. They are pure functions of their receiver.

func (m *Machine) hostBytes(v Value, what string) []byte {
	xs, _ := v.([]Value)
	if xs == nil {
		return nil
	}
	return m.concBytes(xs, what)
}

func init() {
	// context.WithValue: the original asks internal/reflectlite whether the key is comparable;
	// the stub answers that from the static type information and builds the same *valueCtx
	// (lookups then run the real (*valueCtx).Value from source).
	externals["context.WithValue"] = func(m *Machine, fr *Frame, a []Value) Value {
		parent, _ := a[0].(Iface)
		key, _ := a[1].(Iface)
		if parent.T == nil {
			m.targetPanicStr("cannot create context from nil parent")
		}
		if key.T == nil {
			m.targetPanicStr("nil key")
		}
		if !types.Comparable(key.T) {
			m.targetPanicStr("key is not comparable")
		}
		pkg := m.P.Prog.ImportedPackage("context")
		t := pkg.Type("valueCtx").Object().Type()
		var cell Value = Struct{parent, key, a[2]}
		return Iface{T: types.NewPointer(t), V: &cell}
	}
	externals["(net.IP).String"] = func(m *Machine, fr *Frame, a []Value) Value {
		return Str{S: net.IP(m.hostBytes(a[0], "net.IP.String")).String()}
	}
	externals["(*net.IPNet).String"] = func(m *Machine, fr *Frame, a []Value) Value {
		p := a[0].(*Value)
		if p == nil {
			return Str{S: "<nil>"}
		}
		st := (*p).(Struct)
		n := &net.IPNet{IP: net.IP(m.hostBytes(st[0], "net.IPNet.String")), Mask: net.IPMask(m.hostBytes(st[1], "net.IPNet.String"))}
		return Str{S: n.String()}
	}
	externals["(*net.UDPAddr).String"] = func(m *Machine, fr *Frame, a []Value) Value {
		p := a[0].(*Value)
		if p == nil {
			return Str{S: "<nil>"}
		}
		st := (*p).(Struct)
		port := st[1].(*smt.Term)
		zone := st[2].(Str)
		if !port.IsConst() || !zone.Concrete() {
			panic(m.unsupported("net.UDPAddr.String on symbolic address"))
		}
		u := &net.UDPAddr{IP: net.IP(m.hostBytes(st[0], "net.UDPAddr.String")), Port: int(sext64(port.U, port.S.W)), Zone: zone.S}
		return Str{S: u.String()}
	}
}
