package symgo

import (
	"fmt"
	"go/constant"
	"go/token"
	"go/types"
	"unicode/utf8"

	"golang.org/x/tools/go/ssa"

	"verif/engine/smt"
)

func (m *Machine) constValue(c *ssa.Const) Value {
	F := m.F
	if c.Value == nil {
		return m.zero(c.Type())
	}
	t := c.Type()
	if tp, ok := t.(*types.TypeParam); ok {
		_ = tp
		panic(m.unsupported("const of type param"))
	}
	if b, ok := t.Underlying().(*types.Basic); ok {
		switch {
		case b.Kind() == types.Bool || b.Kind() == types.UntypedBool:
			return F.BoolC(constant.BoolVal(c.Value))
		case b.Kind() == types.String || b.Kind() == types.UntypedString:
			if c.Value.Kind() == constant.String {
				return Str{S: constant.StringVal(c.Value)}
			}
			return Str{S: string(rune(c.Int64()))}
		}
		if w, sg, ok := intWidth(b); ok {
			if sg {
				return F.BVC(w, uint64(c.Int64()))
			}
			return F.BVC(w, c.Uint64())
		}
		if w, ok := floatWidth(b); ok {
			return F.FPC(w, c.Float64())
		}
		if b.Kind() == types.Complex128 || b.Kind() == types.Complex64 {
			cv := c.Complex128()
			return Array{F.FPC(64, real(cv)), F.FPC(64, imag(cv))}
		}
	}
	panic(m.unsupported(fmt.Sprintf("constValue: %v : %v", c, t)))
}

func (m *Machine) unop(fr *Frame, instr *ssa.UnOp, x Value) Value {
	F := m.F
	switch instr.Op {
	case token.ARROW:
		v, ok := m.chanRecv(x.(*Chan), instr.Type(), instr.CommaOk)
		if instr.CommaOk {
			return Tuple{v, F.BoolC(ok)}
		}
		return v
	case token.SUB:
		t := x.(*smt.Term)
		if t.S.K == smt.KFP {
			return F.FPNeg(t)
		}
		return F.BVNeg(t)
	case token.MUL:
		p := x.(*Value)
		if p == nil {
			m.nilDeref()
		}
		return copyVal(*p)
	case token.NOT:
		return F.Not(x.(*smt.Term))
	case token.XOR:
		return F.BVNot(x.(*smt.Term))
	}
	panic(m.unsupported(fmt.Sprintf("unop %v", instr.Op)))
}

func (m *Machine) binop(op token.Token, t types.Type, x, y Value) Value {
	F := m.F
	switch op {
	case token.EQL:
		return m.eqOp(x, y)
	case token.NEQ:
		return F.Not(m.eqOp(x, y))
	}
	switch xv := x.(type) {
	case Str:
		yv := y.(Str)
		switch op {
		case token.ADD:
			return m.strConcat(xv, yv)
		case token.LSS:
			return m.strLess(xv, yv)
		case token.GTR:
			return m.strLess(yv, xv)
		case token.LEQ:
			return F.Not(m.strLess(yv, xv))
		case token.GEQ:
			return F.Not(m.strLess(xv, yv))
		}
	case *smt.Term:
		yv := y.(*smt.Term)
		if xv.S.K == smt.KFP {
			switch op {
			case token.ADD:
				return F.FPBin("fp.add", xv, yv)
			case token.SUB:
				return F.FPBin("fp.sub", xv, yv)
			case token.MUL:
				return F.FPBin("fp.mul", xv, yv)
			case token.QUO:
				return F.FPBin("fp.div", xv, yv)
			case token.LSS:
				return F.FPCmp("fp.lt", xv, yv)
			case token.LEQ:
				return F.FPCmp("fp.leq", xv, yv)
			case token.GTR:
				return F.FPCmp("fp.gt", xv, yv)
			case token.GEQ:
				return F.FPCmp("fp.geq", xv, yv)
			}
			break
		}
		if xv.S.K == smt.KBool {
			switch op {
			case token.AND, token.LAND:
				return F.And(xv, yv)
			case token.OR, token.LOR:
				return F.Or(xv, yv)
			}
			break
		}
		sg := isSigned(t)
		w := xv.S.W
		switch op {
		case token.ADD:
			return F.BVBin("bvadd", xv, yv)
		case token.SUB:
			return F.BVBin("bvsub", xv, yv)
		case token.MUL:
			return F.BVBin("bvmul", xv, yv)
		case token.QUO, token.REM:
			if !m.Branch(F.Not(F.Eq(yv, F.BVC(w, 0)))) {
				m.targetPanicStr("runtime error: integer divide by zero")
			}
			if op == token.QUO {
				if sg {
					return F.BVBin("bvsdiv", xv, yv)
				}
				return F.BVBin("bvudiv", xv, yv)
			}
			if sg {
				return F.BVBin("bvsrem", xv, yv)
			}
			return F.BVBin("bvurem", xv, yv)
		case token.AND:
			return F.BVBin("bvand", xv, yv)
		case token.OR:
			return F.BVBin("bvor", xv, yv)
		case token.XOR:
			return F.BVBin("bvxor", xv, yv)
		case token.AND_NOT:
			return F.BVBin("bvand", xv, F.BVNot(yv))
		case token.SHL, token.SHR:
			// shift count: unsigned semantic (negative signed count panics)
			amt := yv
			if amt.S.W > w {
				// saturate counts >= w
				big := F.BVCmp("bvuge", amt, F.BVC(amt.S.W, uint64(w)))
				amt = F.Ite(big, F.BVC(w, uint64(w)), F.Extract(w-1, 0, amt))
			} else if amt.S.W < w {
				amt = F.ZeroExt(amt, w)
			}
			if op == token.SHL {
				return F.BVBin("bvshl", xv, amt)
			}
			if sg {
				return F.BVBin("bvashr", xv, amt)
			}
			return F.BVBin("bvlshr", xv, amt)
		case token.LSS:
			if sg {
				return F.BVCmp("bvslt", xv, yv)
			}
			return F.BVCmp("bvult", xv, yv)
		case token.LEQ:
			if sg {
				return F.BVCmp("bvsle", xv, yv)
			}
			return F.BVCmp("bvule", xv, yv)
		case token.GTR:
			if sg {
				return F.BVCmp("bvsgt", xv, yv)
			}
			return F.BVCmp("bvugt", xv, yv)
		case token.GEQ:
			if sg {
				return F.BVCmp("bvsge", xv, yv)
			}
			return F.BVCmp("bvuge", xv, yv)
		}
	}
	panic(m.unsupported(fmt.Sprintf("binop %v on %T", op, x)))
}

// eqOp handles == including comparisons against nil of slice/map/func types.
func (m *Machine) eqOp(x, y Value) *smt.Term {
	F := m.F
	switch xv := x.(type) {
	case []Value:
		yv, _ := y.([]Value)
		return F.BoolC(xv == nil && yv == nil)
	case *Map:
		yv, _ := y.(*Map)
		return F.BoolC(xv == yv)
	case *ssa.Function:
		if xv == nil {
			return F.BoolC(isNilFunc(y))
		}
		return F.BoolC(x == y)
	case *Closure, *Native, *ssa.Builtin:
		if isNilFunc(y) {
			return F.BoolC(false)
		}
		return F.BoolC(x == y)
	}
	return m.equals(x, y)
}

func isNilFunc(v Value) bool {
	f, ok := v.(*ssa.Function)
	return ok && f == nil
}

func (m *Machine) conv(tdst, tsrc types.Type, x Value) Value {
	F := m.F
	ud := tdst.Underlying()
	us := tsrc.Underlying()
	switch us := us.(type) {
	case *types.Pointer:
		switch ud.(type) {
		case *types.Pointer:
			return x
		case *types.Basic: // unsafe.Pointer
			return x
		}
	case *types.Slice:
		// []byte/[]rune -> string
		if db, ok := ud.(*types.Basic); ok && db.Info()&types.IsString != 0 {
			xs := x.([]Value)
			eb := us.Elem().Underlying().(*types.Basic)
			if eb.Kind() == types.Uint8 {
				bs := make([]*smt.Term, len(xs))
				for i, v := range xs {
					bs[i] = v.(*smt.Term)
				}
				return m.mkStr(bs)
			}
			// []rune
			var out []byte
			for _, v := range xs {
				t := v.(*smt.Term)
				if !t.IsConst() {
					panic(m.unsupported("string([]rune) with symbolic rune"))
				}
				out = utf8.AppendRune(out, rune(int32(t.U)))
			}
			return Str{S: string(out)}
		}
		return x
	case *types.Basic:
		if us.Kind() == types.UnsafePointer {
			return x
		}
		if us.Info()&types.IsString != 0 {
			s := x.(Str)
			switch d := ud.(type) {
			case *types.Basic:
				return x // string -> named string
			case *types.Slice:
				eb := d.Elem().Underlying().(*types.Basic)
				if eb.Kind() == types.Uint8 {
					bs := m.strBytes(s)
					out := make([]Value, len(bs))
					for i, b := range bs {
						out[i] = b
					}
					return out
				}
				if !s.Concrete() {
					panic(m.unsupported("[]rune(symbolic string)"))
				}
				var out []Value
				for _, r := range s.S {
					out = append(out, F.BVC(32, uint64(r)))
				}
				if out == nil {
					out = []Value{}
				}
				return out
			}
		}
		t := x.(*smt.Term)
		db, ok := ud.(*types.Basic)
		if !ok {
			break
		}
		if db.Info()&types.IsString != 0 {
			// integer -> string (rune)
			if !t.IsConst() {
				panic(m.unsupported("string(symbolic rune)"))
			}
			return Str{S: string(rune(sext64(t.U, t.S.W)))}
		}
		sw, ssg, sIsInt := intWidth(us)
		dw, dsg, dIsInt := intWidth(db)
		sfw, sIsF := floatWidth(us)
		dfw, dIsF := floatWidth(db)
		switch {
		case sIsInt && dIsInt:
			_ = sw
			_ = dsg
			return F.Resize(t, dw, ssg)
		case sIsInt && dIsF:
			return F.IntToFP(t, ssg, dfw)
		case sIsF && dIsInt:
			_ = sfw
			return F.FPToInt(t, dsg, dw)
		case sIsF && dIsF:
			return F.FPToFP(t, dfw)
		case us.Kind() == types.Bool || us.Kind() == types.UntypedBool:
			return t
		}
	case *types.Signature, *types.Struct, *types.Array, *types.Map, *types.Chan, *types.Interface:
		return x
	}
	panic(m.unsupported(fmt.Sprintf("conv %v -> %v", tsrc, tdst)))
}
