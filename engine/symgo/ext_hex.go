package symgo

import (
	"encoding/hex"

	"verif/engine/smt"
)

// encoding/hex.EncodeToString: exact, byte-wise (symbolic bytes give symbolic hex digits).
func init() {
	externals["encoding/hex.EncodeToString"] = func(m *Machine, fr *Frame, a []Value) Value {
		var in []*smt.Term
		if xs, ok := a[0].([]Value); ok {
			in = m.bytesOf(xs)
		}
		allc := true
		for _, t := range in {
			if !t.IsConst() {
				allc = false
				break
			}
		}
		if allc {
			b := make([]byte, len(in))
			for i, t := range in {
				b[i] = byte(t.U)
			}
			return Str{S: hex.EncodeToString(b)}
		}
		F := m.F
		digit := func(nib *smt.Term) *smt.Term { // nib: 8-bit term in 0..15
			return F.Ite(F.BVCmp("bvult", nib, F.BVC(8, 10)),
				F.BVBin("bvadd", nib, F.BVC(8, '0')),
				F.BVBin("bvadd", nib, F.BVC(8, 'a'-10)))
		}
		out := make([]*smt.Term, 0, 2*len(in))
		for _, t := range in {
			hi := F.BVBin("bvlshr", t, F.BVC(8, 4))
			lo := F.BVBin("bvand", t, F.BVC(8, 15))
			out = append(out, digit(hi), digit(lo))
		}
		return m.mkStr(out)
	}
}

var _ = smt.Bool
