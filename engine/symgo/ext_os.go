package symgo

func init() {
	// os.Getwd: launch.init derives DefaultStorageBase from the working directory; a fixed
	// concrete directory (environment value, no property depends on it).
	externals["os.Getwd"] = func(m *Machine, fr *Frame, a []Value) Value {
		return Tuple{Str{S: "/verif-cwd"}, Iface{}}
	}
}
