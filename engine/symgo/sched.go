package symgo

import (
	"fmt"
	"go/types"

	"golang.org/x/tools/go/ssa"

	"verif/engine/smt"
)

// G is a target goroutine, run as a host goroutine under a baton (exactly one runs).
type G struct {
	id      int
	resume  chan struct{}
	exited  chan struct{}
	done    bool
	started bool
	main    bool
	ready   func() bool // nil = runnable
	fr      *Frame
	depth   int
	blockedOn string
	wakeAt  *smt.Term // for sleepers (unused for now)
}

func (m *Machine) newG(parent *G) *G {
	g := &G{id: len(m.gs), resume: make(chan struct{}), exited: make(chan struct{})}
	m.gs = append(m.gs, g)
	return g
}

// runG is the host goroutine body for g.
func (m *Machine) runG(g *G, fn Value, args []Value) {
	defer close(g.exited)
	<-g.resume
	if m.aborting {
		g.done = true
		return
	}
	g.started = true
	ended := false // true when this G decides the path outcome
	func() {
		defer func() {
			r := recover()
			if r == nil {
				return
			}
			switch r := r.(type) {
			case killSig:
				return
			case abortSig:
				m.setOutcome(r.outcome, r.detail)
				ended = true
			case targetPanic:
				m.onUncaughtPanic(r)
				ended = true
			default:
				m.setOutcome("engine-bug", fmt.Sprintf("%v @ %s", r, m.where()))
				ended = true
			}
		}()
		m.call(nil, 0, fn, args)
		if g.main {
			m.setOutcome(OutOK, "")
			ended = true
		}
	}()
	g.done = true
	if ended || m.aborting {
		if ended {
			m.finish()
		}
		return
	}
	// normal goroutine exit: hand the baton on
	m.exitSwitch(g)
}

type killSig struct{}

func (m *Machine) spawn(fr *Frame, fn Value, args []Value) {
	g := m.newG(m.cur)
	go m.runG(g, fn, args)
	m.note("goroutines-spawned")
}

// killAll terminates every live host goroutine of this path.
func (m *Machine) killAll() {
	m.aborting = true
	for _, g := range m.gs {
		if g == nil {
			continue
		}
		select {
		case <-g.exited:
			continue
		default:
		}
		// g is parked on resume (either never started or switched away)
		select {
		case g.resume <- struct{}{}:
		case <-g.exited:
		}
		<-g.exited
	}
}

func (m *Machine) enabled() []*G {
	var out []*G
	for _, g := range m.gs {
		if g.done {
			continue
		}
		if g.ready == nil || g.ready() {
			out = append(out, g)
		}
	}
	return out
}

// switchTo passes the baton from the current host goroutine (running me) to next and parks me.
func (m *Machine) switchTo(me, next *G) {
	if next == me {
		return
	}
	m.cur = next
	next.resume <- struct{}{}
	<-me.resume
	if m.aborting {
		panic(killSig{})
	}
}

// exitSwitch is called by a finished goroutine to pass the baton.
func (m *Machine) exitSwitch(me *G) {
	en := m.enabled()
	if len(en) == 0 {
		if m.fireTimer() {
			en = m.enabled()
		}
	}
	if len(en) == 0 {
		m.deadlock()
		m.finish()
		return
	}
	next := en[m.chooseG(en, nil)]
	m.cur = next
	next.resume <- struct{}{}
}

func (m *Machine) chooseG(en []*G, cur *G) int {
	if len(en) == 1 {
		return 0
	}
	if m.Opt.Preemptions < 0 {
		// preemption bound -1: one fixed schedule (oldest enabled goroutine runs next); for
		// sequential contracts of functions that use worker goroutines internally
		return 0
	}
	// delay bounding (entry option delay_bound, or set by a harness with verifrt.DelayBound): the default
	// successor at a blocking point or goroutine exit is the oldest enabled goroutine; at most
	// `bound` other choices per path, every such deviation is explored
	if b, ok := m.userData["sched.delaybound"].(int); ok {
		used, _ := m.userData["sched.delays"].(int)
		if used >= b {
			return 0
		}
		i := m.Choose(len(en), "sched")
		if i != 0 {
			m.userData["sched.delays"] = used + 1
		}
		return i
	}
	if w := m.Opt.SchedWidth; w > 0 && len(en) > w {
		// bounded scheduling: only the first w enabled goroutines (creation order) are alternatives
		if w == 1 {
			return 0
		}
		return m.Choose(w, "sched")
	}
	return m.Choose(len(en), "sched")
}

// chooseSelect picks among n ready cases of a select. Go picks at random, so every case is
// explored - except under the entry option select_first: the first ready case in source order is
// taken. (For contracts of code that uses cancellable worker pools internally and does not depend
// on which worker notices a cancellation first: every cancel() makes two cases of the workers'
// selects ready and would double the paths.)
func (m *Machine) chooseSelect(n int) int {
	if n == 1 || m.Opt.SelectFirst {
		return 0
	}
	return m.Choose(n, "select")
}

func (m *Machine) deadlock() {
	detail := "all goroutines blocked:"
	for _, g := range m.gs {
		if !g.done {
			detail += fmt.Sprintf(" g%d(%s)", g.id, g.blockedOn)
		}
	}
	if m.outcomeSet {
		return
	}
	v := Violation{Label: "deadlock", Kind: "deadlock", Detail: detail, Prefix: append([]int32(nil), m.decisions...), Kinds: string(m.kinds), Goroutines: len(m.gs)}
	if in, ok := m.modelInputs(); ok {
		v.Inputs = in
		m.res.Violations = append(m.res.Violations, v)
	}
	m.setOutcome(OutDeadlock, detail)
}

// SchedPoint is a preemption opportunity before a visible operation.
func (m *Machine) SchedPoint(what string) {
	me := m.cur
	if len(m.gs) == 1 {
		return
	}
	en := m.enabled()
	if len(en) <= 1 {
		return
	}
	if m.preempts >= m.Opt.Preemptions {
		return
	}
	// order: current first so that choice 0 = continue
	ord := []*G{me}
	for _, g := range en {
		if g != me {
			ord = append(ord, g)
		}
	}
	i := m.Choose(len(ord), "sched")
	if i == 0 {
		return
	}
	m.preempts++
	m.switchTo(me, ord[i])
}

// BlockUntil parks the current goroutine until pred holds.
func (m *Machine) BlockUntil(what string, pred func() bool) {
	me := m.cur
	for !pred() {
		me.ready = pred
		me.blockedOn = what
		en := m.enabled()
		if len(en) == 0 {
			if m.fireTimer() {
				continue
			}
			me.ready = nil
			m.deadlock()
			panic(abortSig{OutDeadlock, "deadlock"})
		}
		next := en[m.chooseG(en, me)]
		m.switchTo(me, next)
		me.ready = nil
		me.blockedOn = ""
	}
}

// ---------- channels ----------

type waiter struct {
	g      *G
	ch     *Chan
	isSend bool
	val    Value
	sel    *selState
	caseI  int
	done   bool
	ok     bool // recv: value came from a send (not close)
}

type selState struct {
	fired bool
	w     *waiter
}

type Chan struct {
	buf    []Value
	cap    int
	closed bool
	recvq  []*waiter
	sendq  []*waiter
}

func (w *waiter) live() bool {
	if w.done {
		return false
	}
	if w.sel != nil && w.sel.fired {
		return false
	}
	return true
}

func firstLive(q *[]*waiter) *waiter {
	for len(*q) > 0 {
		w := (*q)[0]
		if w.live() {
			return w
		}
		*q = (*q)[1:]
	}
	return nil
}

func (w *waiter) fire() {
	w.done = true
	if w.sel != nil {
		w.sel.fired = true
		w.sel.w = w
	}
}

func (m *Machine) chanSend(ch *Chan, v Value) {
	m.SchedPoint("chan send")
	if ch == nil {
		m.BlockUntil("send on nil chan", func() bool { return false })
	}
	if ch.closed {
		m.targetPanicStr("send on closed channel")
	}
	v = copyVal(v)
	if w := firstLive(&ch.recvq); w != nil {
		w.val = v
		w.ok = true
		w.fire()
		ch.recvq = ch.recvq[1:]
		return
	}
	if len(ch.buf) < ch.cap {
		ch.buf = append(ch.buf, v)
		return
	}
	w := &waiter{g: m.cur, ch: ch, isSend: true, val: v}
	ch.sendq = append(ch.sendq, w)
	m.BlockUntil("chan send", func() bool { return w.done || ch.closed })
	if !w.done && ch.closed {
		m.targetPanicStr("send on closed channel")
	}
}

func (m *Machine) chanRecvReady(ch *Chan) bool {
	if ch == nil {
		return false
	}
	return len(ch.buf) > 0 || firstLive(&ch.sendq) != nil || ch.closed
}

func (m *Machine) chanSendReady(ch *Chan) bool {
	if ch == nil {
		return false
	}
	return ch.closed || firstLive(&ch.recvq) != nil || len(ch.buf) < ch.cap
}

// recvNow performs a receive that is known to be ready.
func (m *Machine) recvNow(ch *Chan, elem types.Type) (Value, bool) {
	if len(ch.buf) > 0 {
		v := ch.buf[0]
		ch.buf = ch.buf[1:]
		if w := firstLive(&ch.sendq); w != nil {
			ch.buf = append(ch.buf, w.val)
			w.fire()
			ch.sendq = ch.sendq[1:]
		}
		return v, true
	}
	if w := firstLive(&ch.sendq); w != nil {
		w.fire()
		ch.sendq = ch.sendq[1:]
		return w.val, true
	}
	if ch.closed {
		return m.zero(elem), false
	}
	panic("recvNow: not ready")
}

func (m *Machine) chanRecv(ch *Chan, resT types.Type, commaOk bool) (Value, bool) {
	m.SchedPoint("chan recv")
	elem := resT
	if commaOk {
		elem = resT.(*types.Tuple).At(0).Type()
	}
	if ch == nil {
		m.BlockUntil("recv on nil chan", func() bool { return false })
	}
	if m.chanRecvReady(ch) {
		return m.recvNow(ch, elem)
	}
	w := &waiter{g: m.cur, ch: ch}
	ch.recvq = append(ch.recvq, w)
	m.BlockUntil("chan recv", func() bool { return w.done || ch.closed })
	if w.done {
		return w.val, w.ok
	}
	w.done = true
	return m.zero(elem), false
}

func (m *Machine) chanClose(ch *Chan) {
	m.SchedPoint("chan close")
	if ch == nil {
		m.targetPanicStr("close of nil channel")
	}
	if ch.closed {
		m.targetPanicStr("close of closed channel")
	}
	ch.closed = true
	// receivers blocked on ch wake through their predicates (w.done || ch.closed); select waiters too
}

func (m *Machine) doSelect(fr *Frame, instr *ssa.Select) Value {
	F := m.F
	m.SchedPoint("select")
	type cs struct {
		ch   *Chan
		send bool
		val  Value
		elem types.Type
	}
	cases := make([]cs, len(instr.States))
	for i, st := range instr.States {
		c := cs{ch: fr.get(st.Chan).(*Chan), send: st.Dir == types.SendOnly}
		if c.send {
			c.val = copyVal(fr.get(st.Send))
		} else {
			c.elem = st.Chan.Type().Underlying().(*types.Chan).Elem()
		}
		cases[i] = c
	}
	result := func(chosen int, recv Value, recvOk bool) Value {
		r := Tuple{F.BVC(64, uint64(int64(chosen))), F.BoolC(recvOk)}
		for i, c := range cases {
			if !c.send {
				if i == chosen && recv != nil {
					r = append(r, recv)
				} else {
					r = append(r, m.zero(c.elem))
				}
			}
		}
		return r
	}
	for {
		var ready []int
		for i, c := range cases {
			if c.send {
				if m.chanSendReady(c.ch) {
					ready = append(ready, i)
				}
			} else if m.chanRecvReady(c.ch) {
				ready = append(ready, i)
			}
		}
		if len(ready) > 0 {
			i := ready[m.chooseSelect(len(ready))]
			c := cases[i]
			if c.send {
				if c.ch.closed {
					m.targetPanicStr("send on closed channel")
				}
				if w := firstLive(&c.ch.recvq); w != nil {
					w.val = c.val
					w.ok = true
					w.fire()
					c.ch.recvq = c.ch.recvq[1:]
				} else {
					c.ch.buf = append(c.ch.buf, c.val)
				}
				return result(i, nil, false)
			}
			v, ok := m.recvNow(c.ch, c.elem)
			return result(i, v, ok)
		}
		if !instr.Blocking {
			return result(-1, nil, false)
		}
		// park on all channels
		sel := &selState{}
		var ws []*waiter
		for i, c := range cases {
			if c.ch == nil {
				continue
			}
			w := &waiter{g: m.cur, ch: c.ch, isSend: c.send, val: c.val, sel: sel, caseI: i}
			ws = append(ws, w)
			if c.send {
				c.ch.sendq = append(c.ch.sendq, w)
			} else {
				c.ch.recvq = append(c.ch.recvq, w)
			}
		}
		anyClosed := func() bool {
			for _, c := range cases {
				if c.ch != nil && c.ch.closed {
					return true
				}
			}
			return false
		}
		m.BlockUntil("select", func() bool { return sel.fired || anyClosed() })
		if sel.fired {
			w := sel.w
			if w.isSend {
				return result(w.caseI, nil, false)
			}
			return result(w.caseI, w.val, w.ok)
		}
		// a channel was closed: retire waiters and retry (the closed case is now ready)
		sel.fired = true
	}
}

type ctxState struct{}
