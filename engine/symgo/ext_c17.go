package symgo

import (
	"go/types"
	"strings"
	"time"

	"golang.org/x/crypto/sha3"

	"verif/engine/smt"
)

// valuehash.NewSHA256 (really sha3.Sum256; x/crypto's amd64 assembly has no SSA body).
//
//   - concrete input: the real SHA3-256 digest, computed natively;
//   - input with symbolic bytes: the hash is read as a deterministic, collision free function.
//     The input is compared with every input of the same length hashed before on this path
//     (the path forks where equality is possible): equal input => the same digest; an input
//     different from all of them gets a new concrete digest (the real digest of a text that
//     names the input terms). The native replay computes the real digest; digests are only
//     compared, never interpreted, by the code under test.
type sha3Rec struct {
	in  []*smt.Term
	out [32]byte
	sym bool
}

func init() {
	// only used when the entry asks for it ("hash_fork": true): otherwise NewSHA256 runs from source
	// and reaches the solver-level model of sha3.Sum256 (ext_hash.go)
	optionalExternals["github.com/spikeekips/mitum/util/valuehash.NewSHA256"] = func(m *Machine) bool { return m.Opt.HashFork }
	externals["github.com/spikeekips/mitum/util/valuehash.NewSHA256"] = func(m *Machine, fr *Frame, a []Value) Value {
		var in []*smt.Term
		if a[0] != nil {
			in = m.bytesOf(a[0])
		}
		conc := true
		for _, t := range in {
			if !t.IsConst() {
				conc = false
				break
			}
		}
		recs, _ := m.userData["sha3.recs"].([]*sha3Rec)
		rec := &sha3Rec{in: in, sym: !conc}
		F := m.F
		for _, o := range recs {
			if len(o.in) != len(in) || (!o.sym && conc) {
				continue
			}
			same := F.BoolC(true)
			for i := range in {
				if o.in[i] == in[i] {
					continue
				}
				same = F.And(same, F.Eq(o.in[i], in[i]))
			}
			if m.Branch(same) {
				return sha3Array(m, o.out)
			}
		}
		if conc {
			b := make([]byte, len(in))
			for i, t := range in {
				b[i] = byte(t.U)
			}
			rec.out = sha3.Sum256(b)
		} else {
			var sb strings.Builder
			sb.WriteString("symbolic-input:")
			for _, t := range in {
				sb.WriteString(t.String())
				sb.WriteByte('|')
			}
			rec.out = sha3.Sum256([]byte(sb.String()))
		}
		m.userData["sha3.recs"] = append(recs, rec)
		return sha3Array(m, rec.out)
	}
}

func sha3Array(m *Machine, out [32]byte) Value {
	arr := make(Array, len(out))
	for i, b := range out {
		arr[i] = m.F.BVC(8, uint64(b))
	}
	return arr
}

// (localtime.Time).Bytes = []byte(util.NormalizeTime(t).String()): package time's initialisers are
// not interpreted (time.UTC stays nil and time.Date panics), so the normalised UTC text of a
// concrete time value is produced natively. Symbolic times are not supported.
func init() {
	externals["(github.com/spikeekips/mitum/util/localtime.Time).Bytes"] = func(m *Machine, fr *Frame, a []Value) Value {
		lt := a[0].(Struct)
		tv := lt[0].(Struct)
		wall, ext := tv[0].(*smt.Term), tv[1].(*smt.Term)
		if !wall.IsConst() || !ext.IsConst() {
			panic(m.unsupported("localtime.Time.Bytes on a symbolic time"))
		}
		var sec, nsec int64
		if wall.U&(1<<63) != 0 { // hasMonotonic: 33 bits of seconds since 1885 in wall
			sec = int64(wall.U<<1>>31) + (1884*365+1884/4-1884/100+1884/400)*86400 - unixToInternal
			nsec = int64(wall.U & (1<<30 - 1))
		} else {
			sec = int64(ext.U) - unixToInternal
			nsec = int64(wall.U & (1<<30 - 1))
		}
		n := time.Unix(sec, nsec).UTC()
		n = time.Date(n.Year(), n.Month(), n.Day(), n.Hour(), n.Minute(), n.Second(), (n.Nanosecond()/1_000_000)*1_000_000, time.UTC)
		return m.goBytes([]byte(n.String()))
	}
}

// util.ReflectSetInterfaceValue(v, target): *target = v when v's dynamic type is the pointed-to
// type (or implements the pointed-to interface type); the original does it with package reflect.
func init() {
	externals["github.com/spikeekips/mitum/util.ReflectSetInterfaceValue"] = func(m *Machine, fr *Frame, a []Value) Value {
		v, target := a[0].(Iface), a[1].(Iface)
		switch {
		case v.T == nil:
			return Iface{}
		case target.T == nil:
			return m.errorValue("target should be not nil")
		}
		pt, ok := target.T.Underlying().(*types.Pointer)
		if !ok {
			return m.errorValue("target should be pointer")
		}
		cell := target.V.(*Value)
		if cell == nil {
			m.nilDeref()
		}
		elem := pt.Elem()
		if it, ok := elem.Underlying().(*types.Interface); ok {
			if !types.Implements(v.T, it) {
				return m.errorValue("expected " + pt.String() + ", but " + v.T.String())
			}
			*cell = Iface{T: v.T, V: copyVal(v.V)}
			return Iface{}
		}
		if !types.Identical(elem, v.T) {
			return m.errorValue("expected " + elem.String() + ", but " + v.T.String())
		}
		*cell = copyVal(v.V)
		return Iface{}
	}
}
