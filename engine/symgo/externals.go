package symgo

import (
	"fmt"
	"go/types"
	"math"
	"strings"

	"golang.org/x/tools/go/ssa"

	"verif/engine/smt"
)

type ExtFn func(m *Machine, fr *Frame, args []Value) Value

var externals = map[string]ExtFn{}

// optionalExternals: externals that are only used when the predicate holds (else the SSA body runs)
var optionalExternals = map[string]func(m *Machine) bool{}

// stubbed packages: every function returns the zero value of its result type.
var zeroStubPkgs = []string{
	"github.com/rs/zerolog",
	"github.com/rs/zerolog/log",
	"github.com/rs/zerolog/pkgerrors",
}

func (m *Machine) pkgStub(fn *ssa.Function) ExtFn {
	var pkg *types.Package
	if fn.Pkg != nil {
		pkg = fn.Pkg.Pkg
	} else if fn.Object() != nil {
		pkg = fn.Object().Pkg()
	} else if o := fn.Origin(); o != nil && o.Pkg != nil {
		pkg = o.Pkg.Pkg
	}
	if pkg == nil {
		// wrappers/thunks of methods: look at receiver
		if recv := fn.Signature.Recv(); recv != nil {
			if n, ok := derefNamed(recv.Type()); ok && n.Obj().Pkg() != nil {
				pkg = n.Obj().Pkg()
			}
		}
	}
	if pkg == nil {
		return nil
	}
	for _, p := range zeroStubPkgs {
		if pkg.Path() == p {
			return func(m *Machine, fr *Frame, args []Value) Value {
				return m.zeroResults(fn)
			}
		}
	}
	return nil
}

func derefNamed(t types.Type) (*types.Named, bool) {
	if p, ok := t.(*types.Pointer); ok {
		t = p.Elem()
	}
	n, ok := types.Unalias(t).(*types.Named)
	return n, ok
}

// ---------- helpers ----------

func (m *Machine) boolV(b bool) *smt.Term  { return m.F.BoolC(b) }
func (m *Machine) intV(i int64) *smt.Term  { return m.F.BVC(64, uint64(i)) }
func (m *Machine) concStr(v Value, what string) string {
	s := v.(Str)
	if !s.Concrete() {
		// enumerate the feasible values of each symbolic byte (forking; bounded by MaxConcretize)
		m.note("string-concretized:%s", what)
		out := make([]byte, s.Len())
		for i := range out {
			out[i] = byte(m.Concretize(s.B[i], what))
		}
		return string(out)
	}
	return s.S
}

func (m *Machine) concInt(v Value, what string) int64 {
	t := v.(*smt.Term)
	if !t.IsConst() {
		return sext64(m.Concretize(t, what), t.S.W)
	}
	return sext64(t.U, t.S.W)
}

func (m *Machine) bytesOf(v Value) []*smt.Term {
	xs := v.([]Value)
	out := make([]*smt.Term, len(xs))
	for i, x := range xs {
		out[i] = x.(*smt.Term)
	}
	return out
}

func (m *Machine) byteSlice(bs []*smt.Term) []Value {
	out := make([]Value, len(bs))
	for i, b := range bs {
		out[i] = b
	}
	return out
}

func (m *Machine) concBytes(v Value, what string) []byte {
	xs := v.([]Value)
	out := make([]byte, len(xs))
	for i, x := range xs {
		t := x.(*smt.Term)
		if !t.IsConst() {
			panic(m.unsupported(what + " on symbolic bytes"))
		}
		out[i] = byte(t.U)
	}
	return out
}

func (m *Machine) goBytes(b []byte) []Value {
	out := make([]Value, len(b))
	for i, x := range b {
		out[i] = m.F.BVC(8, uint64(x))
	}
	return out
}

// errorValue builds an error value of type *errors.errorString.
func (m *Machine) errorValue(msg string) Value {
	pkg := m.P.Prog.ImportedPackage("errors")
	t := pkg.Type("errorString").Object().Type()
	var cell Value = Struct{Str{S: msg}}
	return Iface{T: types.NewPointer(t), V: &cell}
}

// ---------- verifrt ----------

func init() {
	rt := "github.com/spikeekips/mitum/util/verifrt."
	externals[rt+"NondetU64"] = func(m *Machine, fr *Frame, a []Value) Value {
		return m.newInput(m.concStr(a[0], "name"), "u64", smt.BV(64))
	}
	externals[rt+"NondetInt"] = func(m *Machine, fr *Frame, a []Value) Value {
		return m.newInput(m.concStr(a[0], "name"), "i64", smt.BV(64))
	}
	externals[rt+"NondetU8"] = func(m *Machine, fr *Frame, a []Value) Value {
		return m.newInput(m.concStr(a[0], "name"), "u8", smt.BV(8))
	}
	externals[rt+"NondetU32"] = func(m *Machine, fr *Frame, a []Value) Value {
		return m.newInput(m.concStr(a[0], "name"), "u32", smt.BV(32))
	}
	externals[rt+"NondetBool"] = func(m *Machine, fr *Frame, a []Value) Value {
		return m.newInput(m.concStr(a[0], "name"), "bool", smt.Bool)
	}
	externals[rt+"NondetF64"] = func(m *Machine, fr *Frame, a []Value) Value {
		return m.newInput(m.concStr(a[0], "name"), "f64", smt.FP(64))
	}
	externals[rt+"NondetBytes"] = func(m *Machine, fr *Frame, a []Value) Value {
		name := m.concStr(a[0], "name")
		n := int(m.concInt(a[1], "NondetBytes n"))
		out := make([]Value, n)
		for i := range out {
			out[i] = m.newInput(fmt.Sprintf("%s[%d]", name, i), "u8", smt.BV(8))
		}
		return out
	}
	externals[rt+"NondetString"] = func(m *Machine, fr *Frame, a []Value) Value {
		name := m.concStr(a[0], "name")
		n := int(m.concInt(a[1], "NondetString n"))
		out := make([]*smt.Term, n)
		for i := range out {
			out[i] = m.newInput(fmt.Sprintf("%s[%d]", name, i), "u8", smt.BV(8))
		}
		if n == 0 {
			return Str{}
		}
		return Str{B: out}
	}
	externals[rt+"NondetChoice"] = func(m *Machine, fr *Frame, a []Value) Value {
		name := m.concStr(a[0], "name")
		n := int(m.concInt(a[1], "NondetChoice n"))
		v := m.Choose(n, "choice:"+name)
		m.inputs = append(m.inputs, inputRec{name: name, kind: "choice", val: uint64(v)})
		return m.intV(int64(v))
	}
	externals[rt+"Assume"] = func(m *Machine, fr *Frame, a []Value) Value {
		c := a[0].(*smt.Term)
		if c.IsTrue() {
			return nil
		}
		if c.IsFalse() {
			panic(abortSig{OutInfeasible, "assume(false)"})
		}
		if m.replaying() {
			// feasibility was established when this prefix was created only up to the fork; still check
		}
		m.addPC(c)
		if r := m.S.Check(); r == smt.Unsat {
			panic(abortSig{OutInfeasible, "assumption unsatisfiable"})
		} else if r == smt.Unknown {
			m.res.FeasUnknown++
		}
		return nil
	}
	externals[rt+"Assert"] = func(m *Machine, fr *Frame, a []Value) Value {
		m.doAssert(fr, a[0].(*smt.Term), m.concStr(a[1], "label"))
		return nil
	}
	externals[rt+"Reach"] = func(m *Machine, fr *Frame, a []Value) Value {
		m.res.Reached[m.concStr(a[0], "label")] = true
		return nil
	}
	externals[rt+"Yield"] = func(m *Machine, fr *Frame, a []Value) Value {
		m.SchedPoint("yield:" + m.concStr(a[0], "site"))
		return nil
	}
	externals[rt+"Bound"] = func(m *Machine, fr *Frame, a []Value) Value {
		name := m.concStr(a[0], "name")
		q, t := m.concInt(a[1], "bound"), m.concInt(a[2], "bound")
		if m.Cfg != nil {
			if v, ok := m.Cfg.Bounds[name]; ok {
				return m.intV(int64(v))
			}
			if m.Cfg.Tier == "thorough" {
				return m.intV(t)
			}
		}
		return m.intV(q)
	}
	externals[rt+"Symbolic"] = func(m *Machine, fr *Frame, a []Value) Value {
		return m.boolV(true)
	}
	externals[rt+"Observe"] = func(m *Machine, fr *Frame, a []Value) Value {
		m.note("observe:%s:%s", m.concStr(a[0], "label"), m.sprint(fr, a[1], false))
		return nil
	}
	externals[rt+"IsConcrete"] = func(m *Machine, fr *Frame, a []Value) Value {
		return m.boolV(false)
	}
}

func (m *Machine) doAssert(fr *Frame, c *smt.Term, label string) {
	if c.IsTrue() {
		m.res.Asserts++
		return
	}
	F := m.F
	nc := F.Not(c)
	var r smt.Result
	var in []InputVal
	if c.IsFalse() {
		r = smt.Sat
	} else {
		// quick attempt on the incremental solver, then the one-shot portfolio
		r = smt.Unknown
		if m.Cfg == nil || m.Cfg.QuickAssertMs >= 0 {
			r = m.quickCheck(nc)
		}
		if r == smt.Unknown {
			r, in = m.portfolioCheck(nc)
		}
	}
	switch r {
	case smt.Unsat:
		m.res.Asserts++
		return
	case smt.Unknown:
		m.res.AssertUnknown++
		m.note("assert-unknown:%s", label)
		m.addPC(c)
		return
	}
	if in == nil {
		var ok bool
		in, ok = m.modelInputs(nc)
		if !ok {
			var r2 smt.Result
			r2, in = m.portfolioCheck(nc)
			if r2 != smt.Sat {
				in = nil
			}
		}
	}
	if in == nil {
		m.res.AssertUnknown++
		m.note("assert-model-failed:%s", label)
	} else {
		m.res.Violations = append(m.res.Violations, Violation{
			Label: label, Kind: "assert", Inputs: in, Prefix: append([]int32(nil), m.decisions...), Kinds: string(m.kinds), Goroutines: len(m.gs),
			Stack: m.stackOf(fr.caller, 6),
		})
	}
	// continue on the side where the assertion holds (if any)
	if c.IsFalse() {
		panic(abortSig{OutAssertStop, label})
	}
	m.addPC(c)
	if m.quickCheck(nil) == smt.Unsat {
		panic(abortSig{OutAssertStop, label})
	}
}

// quickCheck asks the incremental solver with a short time limit.
func (m *Machine) quickCheck(extra *smt.Term) smt.Result {
	ms := 1500
	if m.Cfg != nil && m.Cfg.QuickAssertMs > 0 {
		ms = m.Cfg.QuickAssertMs
	}
	m.S.TempTimeout(ms)
	defer m.S.TempTimeout(0)
	if extra == nil {
		return m.S.Check()
	}
	return m.S.CheckWith(extra)
}

// portfolioCheck decides pc ∧ extra one-shot (reset, no push/pop: lets z3 use its full
// preprocessing) on the configured solvers in order. On Sat the model inputs are returned.
func (m *Machine) portfolioCheck(extra *smt.Term) (smt.Result, []InputVal) {
	if m.Cfg == nil {
		return smt.Unknown, nil
	}
	steps := m.Cfg.Portfolio
	if len(steps) == 0 {
		steps = []PortfolioStep{{"z3", 5000}, {"cvc5", 10000}, {"z3", m.Cfg.TimeoutMs}}
	}
	for _, st := range steps {
		s := m.Pool.Get(st.Solver, st.TimeoutMs)
		if s == nil {
			continue
		}
		s.Reset()
		for _, c := range m.pc {
			s.Assert(c)
		}
		s.Assert(extra)
		r := s.Check()
		m.note("portfolio:%s:%s", st.Solver, r)
		switch r {
		case smt.Unsat:
			return r, nil
		case smt.Sat:
			mod, err := s.GetModel(m.F.Vars)
			if err != nil {
				m.note("portfolio-model-failed:%s", st.Solver)
				continue
			}
			return r, m.inputsFromModel(mod)
		}
	}
	return smt.Unknown, nil
}

func (m *Machine) inputsFromModel(mod *smt.Model) []InputVal {
	out := []InputVal{}
	for _, in := range m.inputs {
		iv := InputVal{Name: in.name, Kind: in.kind}
		if in.term == nil {
			iv.U = in.val
		} else if in.term.S.K == smt.KFP {
			iv.F = mod.FP[in.term.Name]
		} else {
			iv.U = mod.BV[in.term.Name]
		}
		out = append(out, iv)
	}
	return out
}

func (m *Machine) onUncaughtPanic(tp targetPanic) {
	msg := m.panicString(tp.v)
	v := Violation{Label: "panic", Kind: "panic", Detail: msg, Prefix: append([]int32(nil), m.decisions...), Kinds: string(m.kinds), Goroutines: len(m.gs), Stack: tp.stack}
	if in, ok := m.modelInputs(); ok {
		v.Inputs = in
		m.res.Violations = append(m.res.Violations, v)
	} else {
		m.note("panic-on-unsat-or-unknown-path")
	}
	m.setOutcome(OutPanic, msg)
}

func (m *Machine) panicString(v Value) string {
	if it, ok := v.(Iface); ok {
		if it.T == nil {
			return "nil"
		}
		switch x := it.V.(type) {
		case Str:
			if x.Concrete() {
				return x.S
			}
			return "<symbolic string>"
		case *Value:
			if x != nil {
				if st, ok := (*x).(Struct); ok && len(st) > 0 {
					if s, ok := st[0].(Str); ok && s.Concrete() {
						return it.T.String() + ": " + s.S
					}
				}
			}
		}
		return it.T.String()
	}
	return fmt.Sprintf("%T", v)
}

// ---------- math ----------

func init() {
	rnd := func(mode string) ExtFn {
		return func(m *Machine, fr *Frame, a []Value) Value { return m.F.FPRound(mode, a[0].(*smt.Term)) }
	}
	externals["math.Ceil"] = rnd("RTP")
	externals["math.Floor"] = rnd("RTN")
	externals["math.Trunc"] = rnd("RTZ")
	externals["math.RoundToEven"] = rnd("RNE")
	externals["math.Abs"] = func(m *Machine, fr *Frame, a []Value) Value { return m.F.FPAbs(a[0].(*smt.Term)) }
	externals["math.IsNaN"] = func(m *Machine, fr *Frame, a []Value) Value { return m.F.FPIsNaN(a[0].(*smt.Term)) }
	externals["math.IsInf"] = func(m *Machine, fr *Frame, a []Value) Value {
		x := a[0].(*smt.Term)
		sg := a[1].(*smt.Term)
		if !sg.IsConst() {
			panic(m.unsupported("math.IsInf symbolic sign"))
		}
		F := m.F
		inf := F.FPIsInf(x)
		s := sext64(sg.U, sg.S.W)
		switch {
		case s > 0:
			return F.And(inf, F.FPCmp("fp.gt", x, F.FPC(64, 0)))
		case s < 0:
			return F.And(inf, F.FPCmp("fp.lt", x, F.FPC(64, 0)))
		}
		return inf
	}
	conc1 := func(name string, f func(float64) float64) {
		externals["math."+name] = func(m *Machine, fr *Frame, a []Value) Value {
			x := a[0].(*smt.Term)
			if !x.IsConst() {
				panic(m.unsupported("math." + name + " on symbolic float"))
			}
			return m.F.FPC(64, f(x.F))
		}
	}
	conc1("Log", math.Log)
	conc1("Log2", math.Log2)
	conc1("Log10", math.Log10)
	conc1("Sqrt", math.Sqrt)
	conc1("Exp", math.Exp)
	conc1("Round", math.Round)
	externals["math.Pow"] = func(m *Machine, fr *Frame, a []Value) Value {
		x, y := a[0].(*smt.Term), a[1].(*smt.Term)
		if !x.IsConst() || !y.IsConst() {
			panic(m.unsupported("math.Pow on symbolic float"))
		}
		return m.F.FPC(64, math.Pow(x.F, y.F))
	}
	externals["math.Inf"] = func(m *Machine, fr *Frame, a []Value) Value {
		return m.F.FPC(64, math.Inf(int(m.concInt(a[0], "math.Inf"))))
	}
	externals["math.NaN"] = func(m *Machine, fr *Frame, a []Value) Value { return m.F.FPC(64, math.NaN()) }
	externals["math.Float64bits"] = func(m *Machine, fr *Frame, a []Value) Value {
		x := a[0].(*smt.Term)
		if !x.IsConst() {
			panic(m.unsupported("math.Float64bits symbolic"))
		}
		return m.F.BVC(64, math.Float64bits(x.F))
	}
	externals["math.Float64frombits"] = func(m *Machine, fr *Frame, a []Value) Value {
		x := a[0].(*smt.Term)
		if !x.IsConst() {
			panic(m.unsupported("math.Float64frombits symbolic"))
		}
		return m.F.FPC(64, math.Float64frombits(x.U))
	}
}

// ---------- runtime / misc ----------

func init() {
	externals["runtime.Callers"] = func(m *Machine, fr *Frame, a []Value) Value { return m.intV(0) }
	externals["runtime.Caller"] = func(m *Machine, fr *Frame, a []Value) Value {
		return Tuple{m.F.BVC(64, 0), Str{S: "?"}, m.intV(0), m.boolV(false)}
	}
	externals["runtime.Gosched"] = func(m *Machine, fr *Frame, a []Value) Value { m.SchedPoint("gosched"); return nil }
	externals["runtime.GC"] = func(m *Machine, fr *Frame, a []Value) Value { return nil }
	externals["runtime.NumCPU"] = func(m *Machine, fr *Frame, a []Value) Value { return m.intV(4) }
	externals["runtime.GOMAXPROCS"] = func(m *Machine, fr *Frame, a []Value) Value { return m.intV(4) }
	externals["runtime.KeepAlive"] = func(m *Machine, fr *Frame, a []Value) Value { return nil }
	externals["runtime.SetFinalizer"] = func(m *Machine, fr *Frame, a []Value) Value { return nil }
	externals["github.com/pkg/errors.callers"] = func(m *Machine, fr *Frame, a []Value) Value {
		var cell Value = []Value(nil)
		return &cell
	}
}

// ---------- internal/bytealg (so that bytes/strings run from source) ----------

func init() {
	ba := "internal/bytealg."
	indexByte := func(m *Machine, hay []*smt.Term, c *smt.Term) Value {
		// returns first index i with hay[i]==c, else -1 ; fork per position
		for i, b := range hay {
			if m.Branch(m.F.Eq(b, c)) {
				return m.intV(int64(i))
			}
		}
		return m.intV(-1)
	}
	externals[ba+"IndexByte"] = func(m *Machine, fr *Frame, a []Value) Value {
		return indexByte(m, m.bytesOf(a[0]), a[1].(*smt.Term))
	}
	externals[ba+"IndexByteString"] = func(m *Machine, fr *Frame, a []Value) Value {
		return indexByte(m, m.strBytes(a[0].(Str)), a[1].(*smt.Term))
	}
	externals[ba+"Equal"] = func(m *Machine, fr *Frame, a []Value) Value {
		x, y := m.bytesOf(a[0]), m.bytesOf(a[1])
		if len(x) != len(y) {
			return m.boolV(false)
		}
		return m.strEq(m.mkStrKeep(x), m.mkStrKeep(y))
	}
	cmp := func(m *Machine, x, y Str) Value {
		F := m.F
		lt := m.strLess(x, y)
		eq := m.strEq(x, y)
		return F.Ite(eq, F.BVC(64, 0), F.Ite(lt, F.BVC(64, ^uint64(0)), F.BVC(64, 1)))
	}
	externals[ba+"Compare"] = func(m *Machine, fr *Frame, a []Value) Value {
		return cmp(m, m.mkStrKeep(m.bytesOf(a[0])), m.mkStrKeep(m.bytesOf(a[1])))
	}
	externals[ba+"CompareString"] = func(m *Machine, fr *Frame, a []Value) Value {
		return cmp(m, a[0].(Str), a[1].(Str))
	}
	count := func(m *Machine, hay []*smt.Term, c *smt.Term) Value {
		F := m.F
		n := F.BVC(64, 0)
		for _, b := range hay {
			n = F.BVBin("bvadd", n, F.Ite(F.Eq(b, c), F.BVC(64, 1), F.BVC(64, 0)))
		}
		return n
	}
	externals[ba+"Count"] = func(m *Machine, fr *Frame, a []Value) Value {
		return count(m, m.bytesOf(a[0]), a[1].(*smt.Term))
	}
	externals[ba+"CountString"] = func(m *Machine, fr *Frame, a []Value) Value {
		return count(m, m.strBytes(a[0].(Str)), a[1].(*smt.Term))
	}
	index := func(m *Machine, hay, needle []*smt.Term) Value {
		for i := 0; i+len(needle) <= len(hay); i++ {
			c := m.F.BoolC(true)
			for j := range needle {
				c = m.F.And(c, m.F.Eq(hay[i+j], needle[j]))
			}
			if m.Branch(c) {
				return m.intV(int64(i))
			}
		}
		return m.intV(-1)
	}
	externals[ba+"Index"] = func(m *Machine, fr *Frame, a []Value) Value {
		return index(m, m.bytesOf(a[0]), m.bytesOf(a[1]))
	}
	externals[ba+"IndexString"] = func(m *Machine, fr *Frame, a []Value) Value {
		return index(m, m.strBytes(a[0].(Str)), m.strBytes(a[1].(Str)))
	}
	externals[ba+"MakeNoZero"] = func(m *Machine, fr *Frame, a []Value) Value {
		n := int(m.concInt(a[0], "MakeNoZero"))
		out := make([]Value, n)
		for i := range out {
			out[i] = m.F.BVC(8, 0)
		}
		return out
	}
	externals[ba+"Cutover"] = func(m *Machine, fr *Frame, a []Value) Value { return m.intV(1 << 30) }
	externals["strings.Index"] = func(m *Machine, fr *Frame, a []Value) Value {
		return index(m, m.strBytes(a[0].(Str)), m.strBytes(a[1].(Str)))
	}
	externals["bytes.Index"] = func(m *Machine, fr *Frame, a []Value) Value {
		return index(m, m.bytesOf(a[0]), m.bytesOf(a[1]))
	}
	externals["bytes.Equal"] = func(m *Machine, fr *Frame, a []Value) Value {
		x, y := m.bytesOf(a[0]), m.bytesOf(a[1])
		if len(x) != len(y) {
			return m.boolV(false)
		}
		return m.strEq(m.mkStrKeep(x), m.mkStrKeep(y))
	}
}

// mkStrKeep builds a Str from byte terms without collapsing (handles empty).
func (m *Machine) mkStrKeep(b []*smt.Term) Str {
	return m.mkStr(b)
}


// ---------- strings.Builder (uses unsafe in source) ----------

func init() {
	sb := "(*strings.Builder)."
	buf := func(m *Machine, a []Value) *Value {
		p := a[0].(*Value)
		if p == nil {
			m.nilDeref()
		}
		return &(*p).(Struct)[1]
	}
	appendBytes := func(m *Machine, a []Value, bs []*smt.Term) {
		b := buf(m, a)
		cur, _ := (*b).([]Value)
		*b = append(cur, m.byteSlice(bs)...)
	}
	externals[sb+"String"] = func(m *Machine, fr *Frame, a []Value) Value {
		cur, _ := (*buf(m, a)).([]Value)
		return m.mkStr(m.bytesOf(cur))
	}
	externals[sb+"Len"] = func(m *Machine, fr *Frame, a []Value) Value {
		cur, _ := (*buf(m, a)).([]Value)
		return m.intV(int64(len(cur)))
	}
	externals[sb+"Cap"] = externals[sb+"Len"]
	externals[sb+"Reset"] = func(m *Machine, fr *Frame, a []Value) Value { *buf(m, a) = []Value(nil); return nil }
	externals[sb+"Grow"] = func(m *Machine, fr *Frame, a []Value) Value { return nil }
	externals[sb+"WriteString"] = func(m *Machine, fr *Frame, a []Value) Value {
		s := a[1].(Str)
		appendBytes(m, a, m.strBytes(s))
		return Tuple{m.intV(int64(s.Len())), Iface{}}
	}
	externals[sb+"Write"] = func(m *Machine, fr *Frame, a []Value) Value {
		bs := m.bytesOf(a[1])
		appendBytes(m, a, bs)
		return Tuple{m.intV(int64(len(bs))), Iface{}}
	}
	externals[sb+"WriteByte"] = func(m *Machine, fr *Frame, a []Value) Value {
		appendBytes(m, a, []*smt.Term{a[1].(*smt.Term)})
		return Iface{}
	}
	externals[sb+"WriteRune"] = func(m *Machine, fr *Frame, a []Value) Value {
		r := a[1].(*smt.Term)
		if !r.IsConst() {
			panic(m.unsupported("WriteRune symbolic"))
		}
		s := string(rune(int32(r.U)))
		appendBytes(m, a, m.strBytes(Str{S: s}))
		return Tuple{m.intV(int64(len(s))), Iface{}}
	}
}

// ---------- sort ----------

func init() {
	sortSlice := func(m *Machine, fr *Frame, a []Value) Value {
		it := a[0].(Iface)
		xs, _ := it.V.([]Value)
		less := a[1]
		// insertion sort; element swaps are physical (so the less closure, which indexes the slice, sees them)
		for i := 1; i < len(xs); i++ {
			for j := i; j > 0; j-- {
				c := m.call(fr, 0, less, []Value{m.intV(int64(j)), m.intV(int64(j - 1))}).(*smt.Term)
				if !m.Branch(c) {
					break
				}
				xs[j], xs[j-1] = xs[j-1], xs[j]
			}
		}
		return nil
	}
	externals["sort.Slice"] = sortSlice
	externals["sort.SliceStable"] = sortSlice
	externals["sort.Strings"] = func(m *Machine, fr *Frame, a []Value) Value {
		xs := a[0].([]Value)
		for i := 1; i < len(xs); i++ {
			for j := i; j > 0; j-- {
				if !m.Branch(m.strLess(xs[j].(Str), xs[j-1].(Str))) {
					break
				}
				xs[j], xs[j-1] = xs[j-1], xs[j]
			}
		}
		return nil
	}
}

var _ = strings.HasPrefix
