package symgo

import (
	"go/types"

	"verif/engine/smt"
)

type termT = *smt.Term

func (m *Machine) callMethodIf(fr *Frame, v Iface, name string, check func(sig *types.Signature) bool, args ...Value) (Value, bool) {
	if v.T == nil {
		return nil, false
	}
	fn := m.findMethod(v.T, nil, name)
	if fn == nil {
		return nil, false
	}
	if !check(fn.Signature) {
		return nil, false
	}
	return m.call(fr, 0, fn, append([]Value{v.V}, args...)), true
}

func isErrorType(t types.Type) bool {
	n, ok := types.Unalias(t).(*types.Named)
	return ok && n.Obj().Pkg() == nil && n.Obj().Name() == "error"
}

func sigUnwrapOne(s *types.Signature) bool {
	return s.Params().Len() == 0 && s.Results().Len() == 1 && isErrorType(s.Results().At(0).Type())
}

func sigUnwrapMany(s *types.Signature) bool {
	if s.Params().Len() != 0 || s.Results().Len() != 1 {
		return false
	}
	sl, ok := s.Results().At(0).Type().Underlying().(*types.Slice)
	return ok && isErrorType(sl.Elem())
}

func (m *Machine) errorsIs(fr *Frame, err, target Iface, comparable bool, depth int) bool {
	if depth > 50 {
		panic(abortSig{OutTruncated, "errors.Is chain deeper than 50"})
	}
	for {
		if comparable {
			if err.T != nil && target.T != nil && types.Identical(err.T, target.T) {
				if m.Branch(m.equals(err.V, target.V)) {
					return true
				}
			}
		}
		if r, ok := m.callMethodIf(fr, err, "Is", func(s *types.Signature) bool {
			return s.Params().Len() == 1 && isErrorType(s.Params().At(0).Type()) && s.Results().Len() == 1
		}, target); ok {
			if m.Branch(r.(termT)) {
				return true
			}
		}
		if r, ok := m.callMethodIf(fr, err, "Unwrap", sigUnwrapOne); ok {
			err = r.(Iface)
			if err.T == nil {
				return false
			}
			continue
		}
		if r, ok := m.callMethodIf(fr, err, "Unwrap", sigUnwrapMany); ok {
			xs, _ := r.([]Value)
			for _, e := range xs {
				ei := e.(Iface)
				if ei.T == nil {
					continue
				}
				if m.errorsIs(fr, ei, target, comparable, depth+1) {
					return true
				}
			}
			return false
		}
		return false
	}
}

func (m *Machine) errorsAs(fr *Frame, err Iface, targetType types.Type, dst *Value, target Iface, depth int) bool {
	if depth > 50 {
		panic(abortSig{OutTruncated, "errors.As chain deeper than 50"})
	}
	for {
		if err.T != nil {
			if it, ok := targetType.Underlying().(*types.Interface); ok {
				if types.Implements(err.T, it) {
					*dst = err
					return true
				}
			} else if types.Identical(err.T, targetType) {
				*dst = copyVal(err.V)
				return true
			}
		}
		if r, ok := m.callMethodIf(fr, err, "As", func(s *types.Signature) bool {
			return s.Params().Len() == 1 && s.Results().Len() == 1
		}, target); ok {
			if m.Branch(r.(termT)) {
				return true
			}
		}
		if r, ok := m.callMethodIf(fr, err, "Unwrap", sigUnwrapOne); ok {
			err = r.(Iface)
			if err.T == nil {
				return false
			}
			continue
		}
		if r, ok := m.callMethodIf(fr, err, "Unwrap", sigUnwrapMany); ok {
			xs, _ := r.([]Value)
			for _, e := range xs {
				ei := e.(Iface)
				if ei.T == nil {
					continue
				}
				if m.errorsAs(fr, ei, targetType, dst, target, depth+1) {
					return true
				}
			}
			return false
		}
		return false
	}
}

func init() {
	is := func(m *Machine, fr *Frame, a []Value) Value {
		err, target := a[0].(Iface), a[1].(Iface)
		if err.T == nil || target.T == nil {
			return m.boolV(err.T == nil && target.T == nil)
		}
		return m.boolV(m.errorsIs(fr, err, target, types.Comparable(target.T), 0))
	}
	as := func(m *Machine, fr *Frame, a []Value) Value {
		err, target := a[0].(Iface), a[1].(Iface)
		if err.T == nil {
			return m.boolV(false)
		}
		if target.T == nil {
			m.targetPanicStr("errors: target cannot be nil")
		}
		pt, ok := target.T.Underlying().(*types.Pointer)
		if !ok {
			m.targetPanicStr("errors: target must be a non-nil pointer")
		}
		dst := target.V.(*Value)
		if dst == nil {
			m.targetPanicStr("errors: target must be a non-nil pointer")
		}
		return m.boolV(m.errorsAs(fr, err, pt.Elem(), dst, target, 0))
	}
	externals["errors.Is"] = is
	externals["errors.As"] = as
	externals["github.com/pkg/errors.Is"] = is
	externals["github.com/pkg/errors.As"] = as
}
