package symgo

import (
	"go/types"
)

// Stubs introduced for C30 (network/quicstream/header).

// reflectTypeOf models reflect.TypeOf / Type.Elem / Type.String only as far as error messages
// need them (util.AssertInterfaceValue prints reflect.TypeOf(&t).Elem() in its error text).
func init() {
	rtype := func(m *Machine) types.Type {
		pkg := m.P.Prog.ImportedPackage("reflect")
		return types.NewPointer(pkg.Type("rtype").Object().Type())
	}
	mk := func(m *Machine, t types.Type) Value {
		var cell Value = NativeObj{Obj: t}
		return Iface{T: rtype(m), V: &cell}
	}
	typeOf := func(m *Machine, v Value) types.Type {
		p, _ := v.(*Value)
		if p == nil {
			m.nilDeref()
		}
		n, _ := (*p).(NativeObj)
		t, _ := n.Obj.(types.Type)
		return t
	}
	externals["reflect.TypeOf"] = func(m *Machine, fr *Frame, a []Value) Value {
		it := a[0].(Iface)
		if it.T == nil {
			return Iface{}
		}
		return mk(m, it.T)
	}
	externals["(*reflect.rtype).Elem"] = func(m *Machine, fr *Frame, a []Value) Value {
		t := typeOf(m, a[0])
		switch u := t.Underlying().(type) {
		case *types.Pointer:
			return mk(m, u.Elem())
		case *types.Slice:
			return mk(m, u.Elem())
		case *types.Array:
			return mk(m, u.Elem())
		case *types.Map:
			return mk(m, u.Elem())
		case *types.Chan:
			return mk(m, u.Elem())
		}
		panic(m.unsupported("reflect.Type.Elem of " + t.String()))
	}
	externals["(*reflect.rtype).String"] = func(m *Machine, fr *Frame, a []Value) Value {
		return Str{S: types.TypeString(typeOf(m, a[0]), func(p *types.Package) string { return p.Name() })}
	}
}
