package symgo

import (
	"sort"
	"sync"
	"time"

	"golang.org/x/tools/go/ssa"

	"verif/engine/smt"
)

type Config struct {
	Entry     *ssa.Function
	Opt       Options
	Workers   int
	Solver    string
	Portfolio []PortfolioStep // one-shot solvers tried in order for assertion queries the incremental solver cannot decide quickly
	TimeoutMs int
	MaxPaths  int
	Deadline  time.Time
	Known     map[string]bool
	Tier      string
	Bounds    map[string]int
	WantVector func() bool
	StopOnViolation bool
	QuickAssertMs int // time limit of the first attempt on the incremental solver; <0 skips it
	// concrete re-execution of one recorded path (all inputs constants; only 'c' decisions are followed)
	ConcreteInputs []InputVal
	ConcretePrefix []int32
	ConcreteKinds  string
	ProfileInit    bool
}

type PortfolioStep struct {
	Solver    string `json:"solver"`
	TimeoutMs int    `json:"timeout_ms"`
}

// SolverPool: the solver processes of one worker.
type SolverPool struct {
	Primary *smt.Solver
	oneShot map[string]*smt.Solver
	all     []*smt.Solver
}

func (sp *SolverPool) Get(kind string, timeoutMs int) *smt.Solver {
	if s, ok := sp.oneShot[kind]; ok {
		s.SetTimeout(timeoutMs)
		return s
	}
	s, err := smt.NewSolver(kind, timeoutMs)
	if err != nil {
		return nil
	}
	if sp.oneShot == nil {
		sp.oneShot = map[string]*smt.Solver{}
	}
	sp.oneShot[kind] = s
	sp.all = append(sp.all, s)
	return s
}

type Report struct {
	Entry         string
	Paths         int
	ByOutcome     map[string]int
	Details       map[string]int // outcome detail histogram for non-ok outcomes
	Violations    []Violation
	ViolationsN   map[string]int
	Reached       map[string]bool
	Funcs         map[string]bool
	Stubs         map[string]bool
	Notes         map[string]int
	Steps         int
	Asserts       int
	AssertUnknown int
	FeasUnknown   int
	Queries       int
	QSat, QUnsat, QUnknown, QErrors int
	SolverTime    time.Duration
	Wall          time.Duration
	Samples       []string
	Incomplete    bool // stopped by MaxPaths/Deadline
	StoppedOnViolation bool
	MaxDecisions  int
	Vectors       []SampleVector
}

type SampleVector struct {
	Inputs  []InputVal `json:"inputs"`
	Reached []string   `json:"reached"`
}

func Explore(p *Program, cfg Config) *Report {
	t0 := time.Now()
	rep := &Report{Entry: cfg.Entry.String(), ByOutcome: map[string]int{}, Details: map[string]int{}, ViolationsN: map[string]int{},
		Reached: map[string]bool{}, Funcs: map[string]bool{}, Stubs: map[string]bool{}, Notes: map[string]int{}}
	var mu sync.Mutex
	cond := sync.NewCond(&mu)
	stack := [][]int32{nil}
	active := 0
	stop := false
	if cfg.Workers <= 0 {
		cfg.Workers = 1
	}
	opt := cfg.Opt
	var wg sync.WaitGroup
	for w := 0; w < cfg.Workers; w++ {
		wg.Add(1)
		go func() {
			defer wg.Done()
			s, err := smt.NewSolver(cfg.Solver, cfg.TimeoutMs)
			if err != nil {
				mu.Lock()
				rep.Notes["solver-start-failed:"+err.Error()]++
				mu.Unlock()
				return
			}
			pool := &SolverPool{Primary: s, all: []*smt.Solver{s}}
			defer func() {
				mu.Lock()
				for _, s := range pool.all {
					rep.Queries += s.Queries
					rep.QSat += s.NSat
					rep.QUnsat += s.NUnsat
					rep.QUnknown += s.NUnknown
					rep.QErrors += s.Errors
					rep.SolverTime += s.Time
				}
				mu.Unlock()
				for _, s := range pool.all {
					s.Close()
				}
			}()
			for {
				mu.Lock()
				for len(stack) == 0 && active > 0 && !stop {
					cond.Wait()
				}
				if stop || (len(stack) == 0 && active == 0) {
					mu.Unlock()
					cond.Broadcast()
					return
				}
				prefix := stack[len(stack)-1]
				stack = stack[:len(stack)-1]
				active++
				mu.Unlock()

				o := opt
				pr := RunPath(p, pool, o, cfg.Entry, prefix, &cfg)

				mu.Lock()
				active--
				stack = append(stack, pr.Forks...)
				rep.Paths++
				rep.ByOutcome[pr.Outcome]++
				if pr.Outcome != OutOK {
					d := pr.Detail
					if len(d) > 300 {
						d = d[:300]
					}
					rep.Details[pr.Outcome+": "+d]++
				}
				for _, v := range pr.Violations {
					rep.ViolationsN[v.Label]++
					if rep.ViolationsN[v.Label] <= 3 {
						rep.Violations = append(rep.Violations, v)
					}
				}
				for k := range pr.Reached {
					rep.Reached[k] = true
				}
				for k := range pr.Funcs {
					rep.Funcs[k] = true
				}
				for k := range pr.Stubs {
					rep.Stubs[k] = true
				}
				for k, n := range pr.Notes {
					rep.Notes[k] += n
				}
				rep.Steps += pr.Steps
				rep.Asserts += pr.Asserts
				rep.AssertUnknown += pr.AssertUnknown
				rep.FeasUnknown += pr.FeasUnknown
				if pr.Vector != nil {
					rep.Vectors = append(rep.Vectors, SampleVector{Inputs: pr.Vector, Reached: sortedKeys(pr.Reached)})
				}
				if len(pr.Prefix) > rep.MaxDecisions {
					rep.MaxDecisions = len(pr.Prefix)
				}
				if len(rep.Samples) < 5 && pr.Outcome == OutOK && pr.Sample != "" {
					rep.Samples = append(rep.Samples, pr.Sample)
				}
				newViolation := false
				for _, v := range pr.Violations {
					if !cfg.Known[v.Label] {
						newViolation = true
					}
				}
				if cfg.StopOnViolation && newViolation {
					if len(stack) > 0 || active > 0 {
						rep.StoppedOnViolation = true
					}
					stop = true
				}
				if (cfg.MaxPaths > 0 && rep.Paths >= cfg.MaxPaths) || (!cfg.Deadline.IsZero() && time.Now().After(cfg.Deadline)) {
					if len(stack) > 0 || active > 0 {
						rep.Incomplete = true
					}
					stop = true
				}
				mu.Unlock()
				cond.Broadcast()
			}
		}()
	}
	wg.Wait()
	rep.Wall = time.Since(t0)
	sort.Slice(rep.Violations, func(i, j int) bool { return rep.Violations[i].Label < rep.Violations[j].Label })
	return rep
}
