package symgo

import (
	"fmt"
	"go/token"
	"go/types"

	"golang.org/x/tools/go/ssa"

	"verif/engine/smt"
)

type continuation int

const (
	kNext continuation = iota
	kReturn
	kJump
)

func (m *Machine) nilDeref() {
	m.targetPanicStr("invalid memory address or nil pointer dereference")
}

// asIndex turns an integer term used as index/length into a concrete int (forking if symbolic).
func (m *Machine) asInt(v Value, why string) int64 {
	t := v.(*smt.Term)
	if t.IsConst() {
		return sext64(t.U, t.S.W)
	}
	u := m.Concretize(t, why)
	return sext64(u, t.S.W)
}

func sext64(v uint64, w int) int64 {
	if w >= 64 {
		return int64(v)
	}
	sh := uint(64 - w)
	return int64(v<<sh) >> sh
}

// checkIndex forks on 0 <= idx < n (signed idx of its width), panicking on the out-of-range side.
func (m *Machine) checkIndex(idx *smt.Term, signed bool, n int, what string) {
	F := m.F
	idx = F.Resize(idx, 64, signed)
	w := 64
	var ok *smt.Term
	if signed {
		ok = F.And(F.BVCmp("bvsge", idx, F.BVC(w, 0)), F.BVCmp("bvslt", idx, F.BVC(w, uint64(n))))
	} else {
		ok = F.BVCmp("bvult", idx, F.BVC(w, uint64(n)))
	}
	if n < 0 {
		ok = F.BoolC(false)
	}
	if !m.Branch(ok) {
		m.targetPanicStr(fmt.Sprintf("runtime error: index out of range [%s] with length %d", termStr(idx), n))
	}
}

func termStr(t *smt.Term) string {
	if t.IsConst() {
		return fmt.Sprintf("%d", sext64(t.U, t.S.W))
	}
	return "sym"
}

func isSigned(t types.Type) bool {
	if b, ok := t.Underlying().(*types.Basic); ok {
		_, s, _ := intWidth(b)
		return s
	}
	return true
}

func (m *Machine) visitInstr(fr *Frame, instr ssa.Instruction) continuation {
	F := m.F
	switch instr := instr.(type) {
	case *ssa.DebugRef:

	case *ssa.UnOp:
		fr.env[instr] = m.unop(fr, instr, fr.get(instr.X))

	case *ssa.BinOp:
		fr.env[instr] = m.binop(instr.Op, instr.X.Type(), fr.get(instr.X), fr.get(instr.Y))

	case *ssa.Call:
		fn, args := m.prepareCall(fr, &instr.Call)
		fr.env[instr] = m.call(fr, instr.Pos(), fn, args)

	case *ssa.ChangeInterface:
		fr.env[instr] = fr.get(instr.X)

	case *ssa.ChangeType:
		fr.env[instr] = fr.get(instr.X)

	case *ssa.Convert:
		fr.env[instr] = m.conv(instr.Type(), instr.X.Type(), fr.get(instr.X))

	case *ssa.MultiConvert:
		fr.env[instr] = m.conv(instr.Type(), instr.X.Type(), fr.get(instr.X))

	case *ssa.SliceToArrayPointer:
		x := fr.get(instr.X).([]Value)
		n := int(deref(instr.Type()).Underlying().(*types.Array).Len())
		if len(x) < n {
			m.targetPanicStr("runtime error: cannot convert slice to array pointer: length too short")
		}
		if x == nil {
			fr.env[instr] = (*Value)(nil)
		} else {
			// cannot alias a sub-slice as an Array cell in this representation: copy (documented limitation)
			var cell Value = Array(append([]Value(nil), x[:n]...))
			m.note("slice-to-array-pointer-copied")
			fr.env[instr] = &cell
		}

	case *ssa.MakeInterface:
		fr.env[instr] = Iface{T: instr.X.Type(), V: fr.get(instr.X)}

	case *ssa.Extract:
		fr.env[instr] = fr.get(instr.Tuple).(Tuple)[instr.Index]

	case *ssa.Slice:
		fr.env[instr] = m.slice(instr, fr.get(instr.X), fr.get(instr.Low), fr.get(instr.High), fr.get(instr.Max))

	case *ssa.Return:
		switch len(instr.Results) {
		case 0:
		case 1:
			fr.result = fr.get(instr.Results[0])
		default:
			res := make(Tuple, len(instr.Results))
			for i, r := range instr.Results {
				res[i] = fr.get(r)
			}
			fr.result = res
		}
		fr.block = nil
		return kReturn

	case *ssa.RunDefers:
		fr.runDefers()

	case *ssa.Panic:
		panic(targetPanic{v: fr.get(instr.X), stack: m.stackOf(fr, 8)})

	case *ssa.Send:
		m.chanSend(fr.get(instr.Chan).(*Chan), fr.get(instr.X))

	case *ssa.Store:
		addr := fr.get(instr.Addr).(*Value)
		if addr == nil {
			m.nilDeref()
		}
		m.store(instr.Val.Type(), addr, fr.get(instr.Val))

	case *ssa.If:
		succ := 1
		if m.Branch(fr.get(instr.Cond).(*smt.Term)) {
			succ = 0
		}
		fr.prevBlock, fr.block = fr.block, fr.block.Succs[succ]
		return kJump

	case *ssa.Jump:
		fr.prevBlock, fr.block = fr.block, fr.block.Succs[0]
		return kJump

	case *ssa.Defer:
		fn, args := m.prepareCall(fr, &instr.Call)
		defers := &fr.defers
		if instr.DeferStack != nil {
			if into := fr.get(instr.DeferStack); into != nil {
				defers = into.(**deferred)
			}
		}
		*defers = &deferred{fn: fn, args: args, instr: instr, tail: *defers}

	case *ssa.Go:
		fn, args := m.prepareCall(fr, &instr.Call)
		m.spawn(fr, fn, args)

	case *ssa.MakeChan:
		fr.env[instr] = &Chan{cap: int(m.asInt(fr.get(instr.Size), "chan size"))}

	case *ssa.Alloc:
		var addr *Value
		if instr.Heap {
			addr = new(Value)
			fr.env[instr] = addr
		} else {
			addr = fr.env[instr].(*Value)
		}
		*addr = m.zero(deref(instr.Type()))

	case *ssa.MakeSlice:
		n := m.asInt(fr.get(instr.Len), "make len")
		c := m.asInt(fr.get(instr.Cap), "make cap")
		if n < 0 || c < n {
			m.targetPanicStr("runtime error: makeslice: len out of range")
		}
		if c > 1<<22 {
			panic(abortSig{OutTruncated, fmt.Sprintf("make of %d elements", c)})
		}
		sl := make([]Value, c)
		tElt := instr.Type().Underlying().(*types.Slice).Elem()
		z := m.zero(tElt)
		for i := range sl {
			if i == 0 {
				sl[i] = z
			} else {
				sl[i] = copyVal(z)
			}
		}
		fr.env[instr] = sl[:n]

	case *ssa.MakeMap:
		fr.env[instr] = newMap()

	case *ssa.Range:
		x := fr.get(instr.X)
		switch x := x.(type) {
		case *Map:
			fr.env[instr] = &mapIter{mp: x}
		case Str:
			fr.env[instr] = &strIter{s: x}
		default:
			panic(m.unsupported(fmt.Sprintf("range over %T", x)))
		}

	case *ssa.Next:
		fr.env[instr] = fr.get(instr.Iter).(iter).next(m)

	case *ssa.FieldAddr:
		p := fr.get(instr.X).(*Value)
		if p == nil {
			m.nilDeref()
		}
		fr.env[instr] = &(*p).(Struct)[instr.Field]

	case *ssa.Field:
		fr.env[instr] = fr.get(instr.X).(Struct)[instr.Field]

	case *ssa.IndexAddr:
		x := fr.get(instr.X)
		idx := fr.get(instr.Index).(*smt.Term)
		sg := isSigned(instr.Index.Type())
		switch x := x.(type) {
		case []Value:
			m.checkIndex(idx, sg, len(x), "slice")
			fr.env[instr] = &x[m.asInt(idx, "slice index")]
		case *Value:
			if x == nil {
				m.nilDeref()
			}
			a := (*x).(Array)
			m.checkIndex(idx, sg, len(a), "array")
			fr.env[instr] = &a[m.asInt(idx, "array index")]
		default:
			panic(m.unsupported(fmt.Sprintf("IndexAddr on %T", x)))
		}

	case *ssa.Index:
		x := fr.get(instr.X)
		idx := fr.get(instr.Index).(*smt.Term)
		sg := isSigned(instr.Index.Type())
		switch x := x.(type) {
		case Array:
			m.checkIndex(idx, sg, len(x), "array")
			fr.env[instr] = copyVal(x[m.asInt(idx, "array index")])
		case Str:
			m.checkIndex(idx, sg, x.Len(), "string")
			fr.env[instr] = m.strByte(x, int(m.asInt(idx, "string index")))
		default:
			panic(m.unsupported(fmt.Sprintf("Index on %T", x)))
		}

	case *ssa.Lookup:
		x := fr.get(instr.X)
		switch x := x.(type) {
		case *Map:
			var v Value
			ok := false
			if i := m.mapFind(x, fr.get(instr.Index)); i >= 0 {
				v = copyVal(x.vals[i])
				ok = true
			} else {
				v = m.zero(instr.X.Type().Underlying().(*types.Map).Elem())
			}
			if instr.CommaOk {
				fr.env[instr] = Tuple{v, F.BoolC(ok)}
			} else {
				fr.env[instr] = v
			}
		case Str:
			idx := fr.get(instr.Index).(*smt.Term)
			m.checkIndex(idx, isSigned(instr.Index.Type()), x.Len(), "string")
			fr.env[instr] = m.strByte(x, int(m.asInt(idx, "string index")))
		default:
			panic(m.unsupported(fmt.Sprintf("Lookup on %T", x)))
		}

	case *ssa.MapUpdate:
		mp := fr.get(instr.Map).(*Map)
		m.mapInsert(mp, fr.get(instr.Key), copyVal(fr.get(instr.Value)))

	case *ssa.TypeAssert:
		fr.env[instr] = m.typeAssert(instr, fr.get(instr.X).(Iface))

	case *ssa.MakeClosure:
		bindings := make([]Value, len(instr.Bindings))
		for i, b := range instr.Bindings {
			bindings[i] = fr.get(b)
		}
		fr.env[instr] = &Closure{Fn: instr.Fn.(*ssa.Function), Env: bindings}

	case *ssa.Select:
		fr.env[instr] = m.doSelect(fr, instr)

	default:
		panic(m.unsupported(fmt.Sprintf("instruction %T", instr)))
	}
	return kNext
}

// store assigns v to *addr. Aggregates are copied element-wise INTO the existing storage, so
// that pointers to fields/elements of the variable (FieldAddr/IndexAddr) keep pointing at it.
func (m *Machine) store(t types.Type, addr *Value, v Value) {
	switch tt := t.Underlying().(type) {
	case *types.Struct:
		lhs, ok1 := (*addr).(Struct)
		rhs, ok2 := v.(Struct)
		if ok1 && ok2 && len(lhs) == len(rhs) && len(lhs) == tt.NumFields() {
			for i := range lhs {
				m.store(tt.Field(i).Type(), &lhs[i], rhs[i])
			}
			return
		}
	case *types.Array:
		lhs, ok1 := (*addr).(Array)
		rhs, ok2 := v.(Array)
		if ok1 && ok2 && len(lhs) == len(rhs) {
			for i := range lhs {
				m.store(tt.Elem(), &lhs[i], rhs[i])
			}
			return
		}
	}
	*addr = copyVal(v)
}

func (m *Machine) prepareCall(fr *Frame, call *ssa.CallCommon) (fn Value, args []Value) {
	v := fr.get(call.Value)
	if call.Method == nil {
		fn = v
	} else {
		recv := v.(Iface)
		if recv.T == nil {
			m.nilDeref()
		}
		f := m.lookupMethod(recv.T, call.Method)
		if f == nil {
			panic(m.unsupported(fmt.Sprintf("method %s not found on %v", call.Method, recv.T)))
		}
		fn = f
		args = append(args, recv.V)
	}
	for _, a := range call.Args {
		args = append(args, fr.get(a))
	}
	return
}

func (m *Machine) lookupMethod(t types.Type, meth *types.Func) *ssa.Function {
	return m.findMethod(t, meth.Pkg(), meth.Name())
}

// findMethod returns the method of t named name (nil if absent).
func (m *Machine) findMethod(t types.Type, pkg *types.Package, name string) *ssa.Function {
	sel := m.P.Prog.MethodSets.MethodSet(t).Lookup(pkg, name)
	if sel == nil {
		return nil
	}
	return m.P.Prog.MethodValue(sel)
}

func (m *Machine) slice(instr *ssa.Slice, x, lo, hi, max Value) Value {
	var Len, Cap int
	switch x := x.(type) {
	case Str:
		Len = x.Len()
		Cap = Len
	case []Value:
		Len = len(x)
		Cap = cap(x)
	case *Value:
		if x == nil {
			m.nilDeref()
		}
		a := (*x).(Array)
		Len = len(a)
		Cap = Len
	}
	l := 0
	if lo != nil {
		l = m.sliceBound(lo.(*smt.Term), isSigned(instr.Low.Type()), Cap)
	}
	h := Len
	if hi != nil {
		h = m.sliceBound(hi.(*smt.Term), isSigned(instr.High.Type()), Cap)
	}
	mx := Cap
	if max != nil {
		mx = m.sliceBound(max.(*smt.Term), isSigned(instr.Max.Type()), Cap)
	}
	if _, isStr := x.(Str); isStr && h > Len {
		m.targetPanicStr(fmt.Sprintf("runtime error: slice bounds out of range [:%d] with length %d", h, Len))
	}
	if l > h || h > mx {
		m.targetPanicStr(fmt.Sprintf("runtime error: slice bounds out of range [%d:%d]", l, h))
	}
	switch x := x.(type) {
	case Str:
		return m.strSlice(x, l, h)
	case []Value:
		if x == nil {
			return x
		}
		return x[l:h:mx]
	case *Value:
		a := (*x).(Array)
		return []Value(a)[l:h:mx]
	}
	panic(m.unsupported(fmt.Sprintf("slice of %T", x)))
}

// sliceBound concretizes a slice bound, panicking (target) if outside [0,cap].
func (m *Machine) sliceBound(t *smt.Term, signed bool, capv int) int {
	F := m.F
	t = F.Resize(t, 64, signed)
	w := 64
	var ok *smt.Term
	if signed {
		ok = F.And(F.BVCmp("bvsge", t, F.BVC(w, 0)), F.BVCmp("bvsle", t, F.BVC(w, uint64(capv))))
	} else {
		ok = F.BVCmp("bvule", t, F.BVC(w, uint64(capv)))
	}
	if !m.Branch(ok) {
		m.targetPanicStr(fmt.Sprintf("runtime error: slice bounds out of range [%s] with capacity %d", termStr(t), capv))
	}
	return int(m.asInt(t, "slice bound"))
}

func (m *Machine) typeAssert(instr *ssa.TypeAssert, itf Iface) Value {
	var v Value
	failed := ""
	if idst, ok := instr.AssertedType.Underlying().(*types.Interface); ok {
		if itf.T == nil {
			failed = "interface conversion: interface is nil, not " + instr.AssertedType.String()
		} else if !m.implements(itf.T, idst) {
			failed = fmt.Sprintf("interface conversion: %v is not %v: missing method", itf.T, instr.AssertedType)
		} else {
			v = itf
		}
	} else if itf.T != nil && types.Identical(itf.T, instr.AssertedType) {
		v = itf.V
	} else {
		failed = fmt.Sprintf("interface conversion: interface is %v, not %v", itf.T, instr.AssertedType)
	}
	if failed != "" {
		if instr.CommaOk {
			return Tuple{m.zero(instr.AssertedType), m.F.BoolC(false)}
		}
		m.targetPanicStr(failed)
	}
	if instr.CommaOk {
		return Tuple{v, m.F.BoolC(true)}
	}
	return v
}

func (m *Machine) implements(t types.Type, i *types.Interface) bool {
	return types.Implements(t, i)
}

func (m *Machine) doRecover(caller *Frame) Value {
	if caller != nil && !caller.panicking && caller.caller != nil && caller.caller.panicking {
		caller.caller.panicking = false
		p := caller.caller.panicVal
		caller.caller.panicVal = nil
		if tp, ok := p.(targetPanic); ok {
			return tp.v
		}
		panic(p)
	}
	return Iface{}
}

func (m *Machine) callBuiltin(fr *Frame, pos token.Pos, fn *ssa.Builtin, args []Value) Value {
	F := m.F
	switch fn.Name() {
	case "append":
		if len(args) == 1 {
			return args[0]
		}
		if s, ok := args[1].(Str); ok {
			bs := m.strBytes(s)
			vs := make([]Value, len(bs))
			for i, b := range bs {
				vs[i] = b
			}
			return append(args[0].([]Value), vs...)
		}
		src := args[1].([]Value)
		if len(src) == 0 {
			return args[0]
		}
		cp := make([]Value, len(src))
		for i, v := range src {
			cp[i] = copyVal(v)
		}
		return append(args[0].([]Value), cp...)

	case "copy":
		dst := args[0].([]Value)
		if s, ok := args[1].(Str); ok {
			bs := m.strBytes(s)
			n := len(bs)
			if len(dst) < n {
				n = len(dst)
			}
			for i := 0; i < n; i++ {
				dst[i] = bs[i]
			}
			return F.BVC(64, uint64(n))
		}
		src := args[1].([]Value)
		n := len(src)
		if len(dst) < n {
			n = len(dst)
		}
		tmp := make([]Value, n)
		for i := 0; i < n; i++ {
			tmp[i] = copyVal(src[i])
		}
		copy(dst, tmp)
		return F.BVC(64, uint64(n))

	case "close":
		m.chanClose(args[0].(*Chan))
		return nil

	case "delete":
		m.mapDelete(args[0].(*Map), args[1])
		return nil

	case "clear":
		switch x := args[0].(type) {
		case *Map:
			x.clear()
		case []Value:
			if len(x) > 0 {
				// zero each element: need elem type
				et := fn.Type().(*types.Signature).Params().At(0).Type().Underlying().(*types.Slice).Elem()
				for i := range x {
					x[i] = m.zero(et)
				}
			}
		}
		return nil

	case "print", "println":
		return nil

	case "len":
		switch x := args[0].(type) {
		case Str:
			return F.BVC(64, uint64(x.Len()))
		case Array:
			return F.BVC(64, uint64(len(x)))
		case *Value:
			if x == nil {
				// len of nil *array: array length from type
				t := fn.Type().(*types.Signature).Params().At(0).Type()
				return F.BVC(64, uint64(deref(t).Underlying().(*types.Array).Len()))
			}
			return F.BVC(64, uint64(len((*x).(Array))))
		case []Value:
			return F.BVC(64, uint64(len(x)))
		case *Map:
			return F.BVC(64, uint64(x.Len()))
		case *Chan:
			if x == nil {
				return F.BVC(64, 0)
			}
			return F.BVC(64, uint64(len(x.buf)))
		}
		panic(m.unsupported(fmt.Sprintf("len of %T", args[0])))

	case "cap":
		switch x := args[0].(type) {
		case Array:
			return F.BVC(64, uint64(len(x)))
		case *Value:
			return F.BVC(64, uint64(len((*x).(Array))))
		case []Value:
			return F.BVC(64, uint64(cap(x)))
		case *Chan:
			if x == nil {
				return F.BVC(64, 0)
			}
			return F.BVC(64, uint64(x.cap))
		}
		panic(m.unsupported(fmt.Sprintf("cap of %T", args[0])))

	case "min", "max":
		t := fn.Type().(*types.Signature).Params().At(0).Type()
		r := args[0]
		for _, a := range args[1:] {
			op := token.LSS
			if fn.Name() == "max" {
				op = token.GTR
			}
			c := m.binop(op, t, a, r).(*smt.Term)
			switch rv := r.(type) {
			case *smt.Term:
				r = F.Ite(c, a.(*smt.Term), rv)
			default:
				if m.Branch(c) {
					r = a
				}
			}
		}
		return r

	case "recover":
		return m.doRecover(fr)

	case "ssa:wrapnilchk":
		recv := args[0]
		if p, ok := recv.(*Value); ok && p == nil {
			m.targetPanicStr(fmt.Sprintf("value method %s.%s called using nil pointer", strOf(args[1]), strOf(args[2])))
		}
		return recv

	case "ssa:deferstack":
		return &fr.defers
	}
	panic(m.unsupported("builtin " + fn.Name()))
}

func strOf(v Value) string {
	if s, ok := v.(Str); ok && s.Concrete() {
		return s.S
	}
	return "?"
}
