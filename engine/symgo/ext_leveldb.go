package symgo

import (
	"fmt"
	"go/types"

	"verif/engine/smt"
)

// Model of goleveldb (DESIGN §2.7): an ordered map []byte -> []byte under bytewise
// lexicographic order. Get/Has/Put/Delete/Write(batch)/NewIterator are atomic;
// Write(batch) applies all or nothing. Keys and values may contain symbolic bytes
// (concrete lengths); lookups fork on key equality, iterators order entries by
// forking on comparisons.
//
// Crash model: ldbCrashAfter >= 0 means that the N-th mutating call (0-based) and
// every later one is dropped silently (the process "died" before it).

type ldbEntry struct {
	key []*smt.Term
	val []*smt.Term
}

type ldbModel struct {
	entries []ldbEntry
	closed  bool
	writes  int // mutating calls so far
	crashAt int // -1: never
}

type ldbBatchOp struct {
	del bool
	key []*smt.Term
	val []*smt.Term
}

type ldbBatch struct {
	ops []ldbBatchOp
}

type ldbIter struct {
	items    []ldbEntry // sorted ascending
	pos      int        // -1 before first, len after last
	released bool
}

const ldbPkg = "github.com/syndtr/goleveldb/leveldb"

func (m *Machine) ldbOf(v Value) *ldbModel {
	p, ok := v.(*Value)
	if !ok || p == nil {
		m.nilDeref()
	}
	if s, ok := m.syncObjs[p]; ok {
		return s.(*ldbModel)
	}
	panic(m.unsupported("leveldb.DB not created by leveldb.Open (model)"))
}

func (m *Machine) ldbBatchOf(v Value) *ldbBatch {
	p, ok := v.(*Value)
	if !ok || p == nil {
		m.nilDeref()
	}
	if s, ok := m.syncObjs[p]; ok {
		return s.(*ldbBatch)
	}
	b := &ldbBatch{}
	m.syncObjs[p] = b
	return b
}

func (m *Machine) ldbIterOf(v Value) *ldbIter {
	p, ok := v.(*Value)
	if !ok || p == nil {
		m.nilDeref()
	}
	if s, ok := m.syncObjs[p]; ok {
		return s.(*ldbIter)
	}
	panic(m.unsupported("iterator not created by the leveldb model"))
}

func (m *Machine) ldbBytes(v Value) []*smt.Term {
	xs, _ := v.([]Value)
	out := make([]*smt.Term, len(xs))
	for i, x := range xs {
		out[i] = x.(*smt.Term)
	}
	return out
}

func (m *Machine) ldbEq(a, b []*smt.Term) *smt.Term {
	if len(a) != len(b) {
		return m.F.BoolC(false)
	}
	return m.strEq(m.mkStr(a), m.mkStr(b))
}

func (m *Machine) ldbLess(a, b []*smt.Term) *smt.Term {
	return m.strLess(m.mkStr(a), m.mkStr(b))
}

func (m *Machine) ldbFind(db *ldbModel, key []*smt.Term) int {
	for i := range db.entries {
		if m.Branch(m.ldbEq(db.entries[i].key, key)) {
			return i
		}
	}
	return -1
}

// ldbGlobalErr returns the value of leveldb.<name> (ErrNotFound, ErrClosed). The initialisers of the
// goleveldb packages are not interpreted (the library is modelled), so the error variables the
// model hands out are created here on first use; leveldb/errors.ErrNotFound is the same value.
func (m *Machine) ldbGlobalErr(name string) Value {
	pkg := m.P.Prog.ImportedPackage(ldbPkg)
	if pkg == nil {
		panic(m.unsupported("leveldb package not loaded"))
	}
	g := pkg.Var(name)
	if g == nil {
		panic(m.unsupported("leveldb." + name + " not found"))
	}
	cell := m.globalAddr(g, nil)
	if it, ok := (*cell).(Iface); ok && it.T == nil {
		*cell = m.errorValue("leveldb: " + name)
		if name == "ErrNotFound" {
			if ep := m.P.Prog.ImportedPackage(ldbPkg + "/errors"); ep != nil {
				if eg := ep.Var("ErrNotFound"); eg != nil {
					*m.globalAddr(eg, nil) = *cell
				}
			}
		}
	}
	return *cell
}

// mutate reports whether the mutating call is applied (false once the crash point is reached).
func (db *ldbModel) mutate() bool {
	n := db.writes
	db.writes++
	return db.crashAt < 0 || n < db.crashAt
}

func (m *Machine) ldbPut(db *ldbModel, key, val []*smt.Term) {
	if i := m.ldbFind(db, key); i >= 0 {
		db.entries[i].val = val
		return
	}
	db.entries = append(db.entries, ldbEntry{key: key, val: val})
}

func (m *Machine) ldbDelete(db *ldbModel, key []*smt.Term) {
	if i := m.ldbFind(db, key); i >= 0 {
		db.entries = append(append([]ldbEntry(nil), db.entries[:i]...), db.entries[i+1:]...)
	}
}

func init() {
	db := "(*" + ldbPkg + ".DB)."
	externals[ldbPkg+".Open"] = func(m *Machine, fr *Frame, a []Value) Value {
		pkg := m.P.Prog.ImportedPackage(ldbPkg)
		var cell Value = m.zero(pkg.Type("DB").Object().Type())
		p := &cell
		crash := -1
		if v, ok := m.userData["ldb.crashAt"]; ok {
			crash = v.(int)
		}
		m.syncObjs[p] = &ldbModel{crashAt: crash}
		return Tuple{p, Iface{}}
	}
	externals[ldbPkg+"/storage.NewMemStorage"] = func(m *Machine, fr *Frame, a []Value) Value {
		pkg := m.P.Prog.ImportedPackage(ldbPkg + "/storage")
		t := pkg.Type("memStorage").Object().Type()
		var cell Value = m.zero(t)
		return Iface{T: types.NewPointer(t), V: &cell}
	}
	externals["(*"+ldbPkg+"/storage.memStorage).Close"] = func(m *Machine, fr *Frame, a []Value) Value { return Iface{} }
	closedErr := func(m *Machine) Value { return m.ldbGlobalErr("ErrClosed") }
	externals[db+"Close"] = func(m *Machine, fr *Frame, a []Value) Value {
		d := m.ldbOf(a[0])
		if d.closed {
			return closedErr(m)
		}
		d.closed = true
		return Iface{}
	}
	externals[db+"Get"] = func(m *Machine, fr *Frame, a []Value) Value {
		m.SchedPoint("leveldb get")
		d := m.ldbOf(a[0])
		if d.closed {
			return Tuple{[]Value(nil), closedErr(m)}
		}
		if i := m.ldbFind(d, m.ldbBytes(a[1])); i >= 0 {
			out := m.byteSlice(d.entries[i].val)
			if out == nil {
				out = []Value{}
			}
			return Tuple{out, Iface{}}
		}
		return Tuple{[]Value(nil), m.ldbGlobalErr("ErrNotFound")}
	}
	externals[db+"Has"] = func(m *Machine, fr *Frame, a []Value) Value {
		m.SchedPoint("leveldb has")
		d := m.ldbOf(a[0])
		if d.closed {
			return Tuple{m.boolV(false), closedErr(m)}
		}
		return Tuple{m.boolV(m.ldbFind(d, m.ldbBytes(a[1])) >= 0), Iface{}}
	}
	externals[db+"Put"] = func(m *Machine, fr *Frame, a []Value) Value {
		m.SchedPoint("leveldb put")
		d := m.ldbOf(a[0])
		if d.closed {
			return closedErr(m)
		}
		if d.mutate() {
			m.ldbPut(d, append([]*smt.Term(nil), m.ldbBytes(a[1])...), append([]*smt.Term(nil), m.ldbBytes(a[2])...))
		}
		return Iface{}
	}
	externals[db+"Delete"] = func(m *Machine, fr *Frame, a []Value) Value {
		m.SchedPoint("leveldb delete")
		d := m.ldbOf(a[0])
		if d.closed {
			return closedErr(m)
		}
		if d.mutate() {
			m.ldbDelete(d, m.ldbBytes(a[1]))
		}
		return Iface{}
	}
	externals[db+"Write"] = func(m *Machine, fr *Frame, a []Value) Value {
		m.SchedPoint("leveldb write")
		d := m.ldbOf(a[0])
		if d.closed {
			return closedErr(m)
		}
		if p, ok := a[1].(*Value); ok && p == nil {
			return Iface{}
		}
		b := m.ldbBatchOf(a[1])
		if len(b.ops) == 0 {
			return Iface{}
		}
		if d.mutate() {
			for _, op := range b.ops {
				if op.del {
					m.ldbDelete(d, op.key)
				} else {
					m.ldbPut(d, op.key, op.val)
				}
			}
		}
		return Iface{}
	}
	externals[db+"CompactRange"] = func(m *Machine, fr *Frame, a []Value) Value { return Iface{} }
	externals[db+"NewIterator"] = func(m *Machine, fr *Frame, a []Value) Value {
		m.SchedPoint("leveldb iterator")
		d := m.ldbOf(a[0])
		var start, limit []*smt.Term
		hasStart, hasLimit := false, false
		if rp, ok := a[1].(*Value); ok && rp != nil {
			r := (*rp).(Struct)
			if s, _ := r[0].([]Value); s != nil {
				start, hasStart = m.ldbBytes(s), true
			}
			if l, _ := r[1].([]Value); l != nil {
				limit, hasLimit = m.ldbBytes(l), true
			}
		}
		it := &ldbIter{pos: -1}
		if !d.closed {
			for _, e := range d.entries {
				if hasStart && len(start) > 0 && m.Branch(m.ldbLess(e.key, start)) {
					continue
				}
				if hasLimit && !m.Branch(m.ldbLess(e.key, limit)) {
					continue
				}
				// insertion by forking on comparisons
				pos := len(it.items)
				for pos > 0 && m.Branch(m.ldbLess(e.key, it.items[pos-1].key)) {
					pos--
				}
				it.items = append(it.items, ldbEntry{})
				copy(it.items[pos+1:], it.items[pos:])
				it.items[pos] = e
			}
		}
		pkg := m.P.Prog.ImportedPackage(ldbPkg + "/iterator")
		t := pkg.Type("emptyIterator").Object().Type()
		var cell Value = m.zero(t)
		p := &cell
		m.syncObjs[p] = it
		return Iface{T: types.NewPointer(t), V: p}
	}
	itp := "(*" + ldbPkg + "/iterator.emptyIterator)."
	valid := func(it *ldbIter) bool { return !it.released && it.pos >= 0 && it.pos < len(it.items) }
	externals[itp+"First"] = func(m *Machine, fr *Frame, a []Value) Value {
		it := m.ldbIterOf(a[0])
		it.pos = 0
		return m.boolV(valid(it))
	}
	externals[itp+"Last"] = func(m *Machine, fr *Frame, a []Value) Value {
		it := m.ldbIterOf(a[0])
		it.pos = len(it.items) - 1
		return m.boolV(valid(it))
	}
	externals[itp+"Next"] = func(m *Machine, fr *Frame, a []Value) Value {
		it := m.ldbIterOf(a[0])
		if it.pos < len(it.items) {
			it.pos++
		}
		return m.boolV(valid(it))
	}
	externals[itp+"Prev"] = func(m *Machine, fr *Frame, a []Value) Value {
		it := m.ldbIterOf(a[0])
		if it.pos >= 0 {
			it.pos--
		}
		return m.boolV(valid(it))
	}
	externals[itp+"Seek"] = func(m *Machine, fr *Frame, a []Value) Value {
		it := m.ldbIterOf(a[0])
		key := m.ldbBytes(a[1])
		it.pos = len(it.items)
		for i := range it.items {
			if !m.Branch(m.ldbLess(it.items[i].key, key)) {
				it.pos = i
				break
			}
		}
		return m.boolV(valid(it))
	}
	externals[itp+"Valid"] = func(m *Machine, fr *Frame, a []Value) Value { return m.boolV(valid(m.ldbIterOf(a[0]))) }
	externals[itp+"Key"] = func(m *Machine, fr *Frame, a []Value) Value {
		it := m.ldbIterOf(a[0])
		if !valid(it) {
			return []Value(nil)
		}
		out := m.byteSlice(it.items[it.pos].key)
		if out == nil {
			out = []Value{}
		}
		return out
	}
	externals[itp+"Value"] = func(m *Machine, fr *Frame, a []Value) Value {
		it := m.ldbIterOf(a[0])
		if !valid(it) {
			return []Value(nil)
		}
		out := m.byteSlice(it.items[it.pos].val)
		if out == nil {
			out = []Value{}
		}
		return out
	}
	externals[itp+"Release"] = func(m *Machine, fr *Frame, a []Value) Value {
		m.ldbIterOf(a[0]).released = true
		return nil
	}
	externals[itp+"Error"] = func(m *Machine, fr *Frame, a []Value) Value { return Iface{} }
	externals[itp+"SetReleaser"] = func(m *Machine, fr *Frame, a []Value) Value { return nil }

	bp := "(*" + ldbPkg + ".Batch)."
	externals[bp+"Put"] = func(m *Machine, fr *Frame, a []Value) Value {
		b := m.ldbBatchOf(a[0])
		b.ops = append(b.ops, ldbBatchOp{key: append([]*smt.Term(nil), m.ldbBytes(a[1])...), val: append([]*smt.Term(nil), m.ldbBytes(a[2])...)})
		return nil
	}
	externals[bp+"Delete"] = func(m *Machine, fr *Frame, a []Value) Value {
		b := m.ldbBatchOf(a[0])
		b.ops = append(b.ops, ldbBatchOp{del: true, key: append([]*smt.Term(nil), m.ldbBytes(a[1])...)})
		return nil
	}
	externals[bp+"Len"] = func(m *Machine, fr *Frame, a []Value) Value {
		return m.intV(int64(len(m.ldbBatchOf(a[0]).ops)))
	}
	externals[bp+"Reset"] = func(m *Machine, fr *Frame, a []Value) Value {
		m.ldbBatchOf(a[0]).ops = nil
		return nil
	}
	externals[bp+"Dump"] = func(m *Machine, fr *Frame, a []Value) Value {
		panic(m.unsupported("leveldb.Batch.Dump"))
	}

	// harness vocabulary for the storage model
	rt := "github.com/spikeekips/mitum/util/verifrt."
	externals[rt+"StorageCrashAfter"] = func(m *Machine, fr *Frame, a []Value) Value {
		n := int(m.concInt(a[0], "crash point"))
		m.userData["ldb.crashAt"] = n
		if n < 0 {
			// "restart": storages that died accept writes again (what was dropped stays dropped)
			for _, s := range m.syncObjs {
				if d, ok := s.(*ldbModel); ok {
					d.crashAt = -1
				}
			}
		}
		return nil
	}
	externals[rt+"StorageWrites"] = func(m *Machine, fr *Frame, a []Value) Value {
		n := 0
		for _, s := range m.syncObjs {
			if d, ok := s.(*ldbModel); ok {
				n += d.writes
			}
		}
		return m.intV(int64(n))
	}
}

var _ = fmt.Sprintf
