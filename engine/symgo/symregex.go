package symgo

import (
	"regexp"
	"regexp/syntax"

	"verif/engine/smt"
)

// Symbolic regular-expression matching for the subset mitum uses: a concatenation of
// single-character atoms (literal or class) each with quantifier 1, ?, * or +, with
// optional ^ and $ anchors. Subjects are strings of concrete length with symbolic bytes
// (ASCII semantics: classes are applied per byte; a class that contains non-ASCII runes
// only matches bytes < 0x80 of it).

type ratom struct {
	ranges []rune // pairs lo,hi
	kind   byte   // '1', '?', '*'
}

type simpleRe struct {
	atoms      []ratom
	begin, end bool
}

var simpleReCache = map[string]*simpleRe{}

func compileSimpleRe(re *regexp.Regexp) *simpleRe {
	if s, ok := simpleReCache[re.String()]; ok {
		return s
	}
	var out *simpleRe
	defer func() { simpleReCache[re.String()] = out }()
	p, err := syntax.Parse(re.String(), syntax.Perl)
	if err != nil {
		return nil
	}
	p = p.Simplify()
	s := &simpleRe{}
	var single func(r *syntax.Regexp) ([]rune, bool)
	single = func(r *syntax.Regexp) ([]rune, bool) {
		switch r.Op {
		case syntax.OpLiteral:
			if len(r.Rune) != 1 || r.Flags&syntax.FoldCase != 0 {
				return nil, false
			}
			return []rune{r.Rune[0], r.Rune[0]}, true
		case syntax.OpCharClass:
			return append([]rune(nil), r.Rune...), true
		case syntax.OpAnyCharNotNL:
			return []rune{0, '\n' - 1, '\n' + 1, 0x7f}, true
		case syntax.OpAnyChar:
			return []rune{0, 0x7f}, true
		}
		return nil, false
	}
	var add func(r *syntax.Regexp) bool
	add = func(r *syntax.Regexp) bool {
		switch r.Op {
		case syntax.OpEmptyMatch:
			return true
		case syntax.OpConcat:
			for _, sub := range r.Sub {
				if !add(sub) {
					return false
				}
			}
			return true
		case syntax.OpBeginText:
			if len(s.atoms) != 0 {
				return false
			}
			s.begin = true
			return true
		case syntax.OpEndText:
			s.end = true
			return true
		case syntax.OpLiteral:
			if r.Flags&syntax.FoldCase != 0 {
				return false
			}
			for _, c := range r.Rune {
				s.atoms = append(s.atoms, ratom{ranges: []rune{c, c}, kind: '1'})
			}
			return true
		case syntax.OpCharClass, syntax.OpAnyCharNotNL, syntax.OpAnyChar:
			rs, ok := single(r)
			if !ok {
				return false
			}
			s.atoms = append(s.atoms, ratom{ranges: rs, kind: '1'})
			return true
		case syntax.OpPlus, syntax.OpStar, syntax.OpQuest:
			if r.Flags&syntax.NonGreedy != 0 {
				return false
			}
			rs, ok := single(r.Sub[0])
			if !ok {
				return false
			}
			switch r.Op {
			case syntax.OpPlus:
				s.atoms = append(s.atoms, ratom{ranges: rs, kind: '1'}, ratom{ranges: rs, kind: '*'})
			case syntax.OpStar:
				s.atoms = append(s.atoms, ratom{ranges: rs, kind: '*'})
			default:
				s.atoms = append(s.atoms, ratom{ranges: rs, kind: '?'})
			}
			return true
		}
		return false
	}
	if !add(p) {
		return nil
	}
	if s.end {
		// $ must be last: ensured by construction order only if no atom was added after it; re-parse check
		// (a '$' in the middle makes the pattern unmatchable; not used by the target)
	}
	out = s
	return s
}

func (m *Machine) classCond(b *smt.Term, ranges []rune) *smt.Term {
	F := m.F
	c := F.BoolC(false)
	for i := 0; i+1 < len(ranges); i += 2 {
		lo, hi := ranges[i], ranges[i+1]
		if lo > 0x7f {
			continue
		}
		if hi > 0x7f {
			hi = 0x7f
		}
		if lo == hi {
			c = F.Or(c, F.Eq(b, F.BVC(8, uint64(lo))))
		} else {
			c = F.Or(c, F.And(F.BVCmp("bvuge", b, F.BVC(8, uint64(lo))), F.BVCmp("bvule", b, F.BVC(8, uint64(hi)))))
		}
	}
	return c
}

// symRegexMatch: one Bool term by NFA simulation (no forking).
func (m *Machine) symRegexMatch(re *regexp.Regexp, s Str) Value {
	sr := compileSimpleRe(re)
	if sr == nil {
		panic(m.unsupported("regexp " + re.String() + " on symbolic string (outside the supported subset)"))
	}
	m.res.Stubs["symbolic-regexp:"+re.String()] = true
	F := m.F
	n := s.Len()
	na := len(sr.atoms)
	closure := func(st []*smt.Term) {
		for p := 0; p < na; p++ {
			if sr.atoms[p].kind != '1' {
				st[p+1] = F.Or(st[p+1], st[p])
			}
		}
	}
	cur := make([]*smt.Term, na+1)
	for p := range cur {
		cur[p] = F.BoolC(false)
	}
	cur[0] = F.BoolC(true)
	closure(cur)
	acc := F.BoolC(false)
	if !sr.end || n == 0 {
		acc = cur[na]
	}
	for j := 0; j < n; j++ {
		b := m.strByte(s, j)
		nxt := make([]*smt.Term, na+1)
		for p := range nxt {
			nxt[p] = F.BoolC(false)
		}
		for p := 0; p < na; p++ {
			c := F.And(cur[p], m.classCond(b, sr.atoms[p].ranges))
			if sr.atoms[p].kind == '*' {
				nxt[p] = F.Or(nxt[p], c)
			} else {
				nxt[p+1] = F.Or(nxt[p+1], c)
			}
		}
		if !sr.begin {
			nxt[0] = F.BoolC(true)
		}
		closure(nxt)
		cur = nxt
		if !sr.end || j == n-1 {
			acc = F.Or(acc, cur[na])
		}
	}
	return acc
}

// symRegexFindIndex: leftmost match [start,end) by forking; supported when the pattern has at
// most one '*' atom and the atom following it (if any) has a class disjoint from it (so the
// greedy run is the maximal run), and no '?' atoms.
func (m *Machine) symRegexFindIndex(re *regexp.Regexp, s Str) Value {
	sr := compileSimpleRe(re)
	ok := sr != nil
	star := -1
	if ok {
		for i, a := range sr.atoms {
			switch a.kind {
			case '?':
				ok = false
			case '*':
				if star >= 0 {
					ok = false
				}
				star = i
			}
		}
		if ok && star >= 0 && star+1 < len(sr.atoms) && !disjoint(sr.atoms[star].ranges, sr.atoms[star+1].ranges) {
			ok = false
		}
	}
	if !ok {
		panic(m.unsupported("regexp " + re.String() + " FindStringIndex on symbolic string (outside the supported subset)"))
	}
	m.res.Stubs["symbolic-regexp:"+re.String()] = true
	n := s.Len()
	for i := 0; i <= n; i++ {
		if sr.begin && i > 0 {
			break
		}
		e := i
		matched := true
		for p := 0; p < len(sr.atoms) && matched; p++ {
			a := sr.atoms[p]
			if a.kind == '*' {
				for e < n && m.Branch(m.classCond(m.strByte(s, e), a.ranges)) {
					e++
				}
				continue
			}
			if e >= n || !m.Branch(m.classCond(m.strByte(s, e), a.ranges)) {
				matched = false
				break
			}
			e++
		}
		if matched && sr.end && e != n {
			matched = false
		}
		if matched {
			return []Value{m.intV(int64(i)), m.intV(int64(e))}
		}
	}
	return []Value(nil)
}

func disjoint(a, b []rune) bool {
	for i := 0; i+1 < len(a); i += 2 {
		for j := 0; j+1 < len(b); j += 2 {
			if a[i] <= b[j+1] && b[j] <= a[i+1] {
				return false
			}
		}
	}
	return true
}
