package symgo

import (
	"fmt"
	"strings"

	"verif/engine/smt"
)

type mutexState struct {
	locked  bool
	readers int
	owner   *G
}

func (m *Machine) mutexOf(v Value) *mutexState {
	p := v.(*Value)
	if p == nil {
		m.nilDeref()
	}
	if s, ok := m.syncObjs[p]; ok {
		return s.(*mutexState)
	}
	s := &mutexState{}
	m.syncObjs[p] = s
	return s
}

type wgState struct{ n int64 }
type onceState struct {
	done    bool
	running bool
}
type poolState struct{ items []Value }
type condState struct{ waiters []*condWaiter }
type condWaiter struct{ signaled bool }

func init() {
	// ---- Mutex ----
	lock := func(m *Machine, fr *Frame, a []Value) Value {
		m.SchedPoint("mutex lock")
		s := m.mutexOf(a[0])
		m.BlockUntil("mutex", func() bool { return !s.locked && s.readers == 0 })
		s.locked = true
		s.owner = m.cur
		return nil
	}
	unlock := func(m *Machine, fr *Frame, a []Value) Value {
		s := m.mutexOf(a[0])
		if !s.locked {
			panic(abortSig{OutPanic, "fatal error: sync: unlock of unlocked mutex"})
		}
		s.locked = false
		s.owner = nil
		return nil
	}
	tryLock := func(m *Machine, fr *Frame, a []Value) Value {
		m.SchedPoint("mutex trylock")
		s := m.mutexOf(a[0])
		if s.locked || s.readers > 0 {
			return m.boolV(false)
		}
		s.locked = true
		return m.boolV(true)
	}
	externals["(*sync.Mutex).Lock"] = lock
	externals["(*sync.Mutex).Unlock"] = unlock
	externals["(*sync.Mutex).TryLock"] = tryLock
	externals["(*sync.RWMutex).Lock"] = lock
	externals["(*sync.RWMutex).Unlock"] = unlock
	externals["(*sync.RWMutex).TryLock"] = tryLock
	externals["(*sync.RWMutex).RLock"] = func(m *Machine, fr *Frame, a []Value) Value {
		m.SchedPoint("rwmutex rlock")
		s := m.mutexOf(a[0])
		m.BlockUntil("rwmutex", func() bool { return !s.locked })
		s.readers++
		return nil
	}
	externals["(*sync.RWMutex).TryRLock"] = func(m *Machine, fr *Frame, a []Value) Value {
		m.SchedPoint("rwmutex tryrlock")
		s := m.mutexOf(a[0])
		if s.locked {
			return m.boolV(false)
		}
		s.readers++
		return m.boolV(true)
	}
	externals["(*sync.RWMutex).RUnlock"] = func(m *Machine, fr *Frame, a []Value) Value {
		s := m.mutexOf(a[0])
		if s.readers <= 0 {
			panic(abortSig{OutPanic, "fatal error: sync: RUnlock of unlocked RWMutex"})
		}
		s.readers--
		return nil
	}
	// ---- WaitGroup ----
	wg := func(m *Machine, v Value) *wgState {
		p := v.(*Value)
		if s, ok := m.syncObjs[p]; ok {
			return s.(*wgState)
		}
		s := &wgState{}
		m.syncObjs[p] = s
		return s
	}
	externals["(*sync.WaitGroup).Add"] = func(m *Machine, fr *Frame, a []Value) Value {
		s := wg(m, a[0])
		s.n += m.concInt(a[1], "wg.Add")
		if s.n < 0 {
			m.targetPanicStr("sync: negative WaitGroup counter")
		}
		return nil
	}
	externals["(*sync.WaitGroup).Done"] = func(m *Machine, fr *Frame, a []Value) Value {
		m.SchedPoint("wg done")
		s := wg(m, a[0])
		s.n--
		if s.n < 0 {
			m.targetPanicStr("sync: negative WaitGroup counter")
		}
		return nil
	}
	externals["(*sync.WaitGroup).Wait"] = func(m *Machine, fr *Frame, a []Value) Value {
		m.SchedPoint("wg wait")
		s := wg(m, a[0])
		m.BlockUntil("waitgroup", func() bool { return s.n == 0 })
		return nil
	}
	// ---- Once ----
	externals["(*sync.Once).Do"] = func(m *Machine, fr *Frame, a []Value) Value {
		m.SchedPoint("once")
		p := a[0].(*Value)
		var s *onceState
		if x, ok := m.syncObjs[p]; ok {
			s = x.(*onceState)
		} else {
			s = &onceState{}
			m.syncObjs[p] = s
		}
		if s.done {
			return nil
		}
		if s.running {
			m.BlockUntil("once", func() bool { return s.done })
			return nil
		}
		s.running = true
		defer func() { s.done = true; s.running = false }()
		m.call(fr, 0, a[1], nil)
		return nil
	}
	// ---- Pool ----
	pool := func(m *Machine, v Value) *poolState {
		p := v.(*Value)
		if s, ok := m.syncObjs[p]; ok {
			return s.(*poolState)
		}
		s := &poolState{}
		m.syncObjs[p] = s
		return s
	}
	externals["(*sync.Pool).Get"] = func(m *Machine, fr *Frame, a []Value) Value {
		m.SchedPoint("pool get")
		s := pool(m, a[0])
		if n := len(s.items); n > 0 {
			v := s.items[n-1]
			s.items = s.items[:n-1]
			return v
		}
		// field New is the last field of sync.Pool
		st := (*a[0].(*Value)).(Struct)
		newf := st[len(st)-1]
		if isNilFunc(newf) {
			return Iface{}
		}
		return m.call(fr, 0, newf, nil)
	}
	externals["(*sync.Pool).Put"] = func(m *Machine, fr *Frame, a []Value) Value {
		m.SchedPoint("pool put")
		s := pool(m, a[0])
		if it, ok := a[1].(Iface); ok && it.T == nil {
			return nil
		}
		s.items = append(s.items, a[1])
		m.note("sync.Pool.Put")
		return nil
	}
	// ---- Cond ----
	cond := func(m *Machine, v Value) *condState {
		p := v.(*Value)
		if s, ok := m.syncObjs[p]; ok {
			return s.(*condState)
		}
		s := &condState{}
		m.syncObjs[p] = s
		return s
	}
	externals["(*sync.Cond).Wait"] = func(m *Machine, fr *Frame, a []Value) Value {
		s := cond(m, a[0])
		st := (*a[0].(*Value)).(Struct)
		L := st[1].(Iface) // noCopy, L Locker, ...
		w := &condWaiter{}
		s.waiters = append(s.waiters, w)
		m.call(fr, 0, m.findMethod(L.T, nil, "Unlock"), []Value{L.V})
		m.BlockUntil("cond", func() bool { return w.signaled })
		m.call(fr, 0, m.findMethod(L.T, nil, "Lock"), []Value{L.V})
		return nil
	}
	externals["(*sync.Cond).Signal"] = func(m *Machine, fr *Frame, a []Value) Value {
		m.SchedPoint("cond signal")
		s := cond(m, a[0])
		for _, w := range s.waiters {
			if !w.signaled {
				w.signaled = true
				break
			}
		}
		return nil
	}
	externals["(*sync.Cond).Broadcast"] = func(m *Machine, fr *Frame, a []Value) Value {
		m.SchedPoint("cond broadcast")
		s := cond(m, a[0])
		for _, w := range s.waiters {
			w.signaled = true
		}
		s.waiters = nil
		return nil
	}
	externals["sync.NewCond"] = func(m *Machine, fr *Frame, a []Value) Value {
		pkg := m.P.Prog.ImportedPackage("sync")
		t := pkg.Type("Cond").Object().Type()
		var cell Value = m.zero(t)
		cell.(Struct)[1] = a[0]
		return &cell
	}

	// ---- atomic: typed values (struct{_ noCopy/align; v T}) and functions ----
	valField := func(m *Machine, recv Value) *Value {
		p := recv.(*Value)
		if p == nil {
			m.nilDeref()
		}
		st := (*p).(Struct)
		return &st[len(st)-1]
	}
	for _, ty := range []string{"Int32", "Int64", "Uint32", "Uint64", "Uintptr"} {
		pre := "(*sync/atomic." + ty + ")."
		externals[pre+"Load"] = func(m *Machine, fr *Frame, a []Value) Value {
			m.SchedPoint("atomic load")
			return *valField(m, a[0])
		}
		externals[pre+"Store"] = func(m *Machine, fr *Frame, a []Value) Value {
			m.SchedPoint("atomic store")
			*valField(m, a[0]) = a[1]
			return nil
		}
		externals[pre+"Add"] = func(m *Machine, fr *Frame, a []Value) Value {
			m.SchedPoint("atomic add")
			f := valField(m, a[0])
			*f = m.F.BVBin("bvadd", (*f).(*smt.Term), a[1].(*smt.Term))
			return *f
		}
		externals[pre+"Swap"] = func(m *Machine, fr *Frame, a []Value) Value {
			m.SchedPoint("atomic swap")
			f := valField(m, a[0])
			old := *f
			*f = a[1]
			return old
		}
		externals[pre+"CompareAndSwap"] = func(m *Machine, fr *Frame, a []Value) Value {
			m.SchedPoint("atomic cas")
			f := valField(m, a[0])
			if m.Branch(m.F.Eq((*f).(*smt.Term), a[1].(*smt.Term))) {
				*f = a[2]
				return m.boolV(true)
			}
			return m.boolV(false)
		}
	}
	// atomic.Bool: struct{_ noCopy; v uint32}
	externals["(*sync/atomic.Bool).Load"] = func(m *Machine, fr *Frame, a []Value) Value {
		m.SchedPoint("atomic load")
		v := (*valField(m, a[0])).(*smt.Term)
		return m.F.Not(m.F.Eq(v, m.F.BVC(32, 0)))
	}
	b2u := func(m *Machine, b *smt.Term) *smt.Term { return m.F.Ite(b, m.F.BVC(32, 1), m.F.BVC(32, 0)) }
	externals["(*sync/atomic.Bool).Store"] = func(m *Machine, fr *Frame, a []Value) Value {
		m.SchedPoint("atomic store")
		*valField(m, a[0]) = b2u(m, a[1].(*smt.Term))
		return nil
	}
	externals["(*sync/atomic.Bool).Swap"] = func(m *Machine, fr *Frame, a []Value) Value {
		m.SchedPoint("atomic swap")
		f := valField(m, a[0])
		old := (*f).(*smt.Term)
		*f = b2u(m, a[1].(*smt.Term))
		return m.F.Not(m.F.Eq(old, m.F.BVC(32, 0)))
	}
	externals["(*sync/atomic.Bool).CompareAndSwap"] = func(m *Machine, fr *Frame, a []Value) Value {
		m.SchedPoint("atomic cas")
		f := valField(m, a[0])
		cur := m.F.Not(m.F.Eq((*f).(*smt.Term), m.F.BVC(32, 0)))
		if m.Branch(m.F.Eq(cur, a[1].(*smt.Term))) {
			*f = b2u(m, a[2].(*smt.Term))
			return m.boolV(true)
		}
		return m.boolV(false)
	}
	// atomic.Value: struct{v any}
	externals["(*sync/atomic.Value).Load"] = func(m *Machine, fr *Frame, a []Value) Value {
		m.SchedPoint("atomic load")
		return *valField(m, a[0])
	}
	externals["(*sync/atomic.Value).Store"] = func(m *Machine, fr *Frame, a []Value) Value {
		m.SchedPoint("atomic store")
		if it := a[1].(Iface); it.T == nil {
			m.targetPanicStr("sync/atomic: store of nil value into Value")
		}
		*valField(m, a[0]) = a[1]
		return nil
	}
	externals["(*sync/atomic.Value).Swap"] = func(m *Machine, fr *Frame, a []Value) Value {
		m.SchedPoint("atomic swap")
		f := valField(m, a[0])
		old := *f
		*f = a[1]
		return old
	}
	externals["(*sync/atomic.Value).CompareAndSwap"] = func(m *Machine, fr *Frame, a []Value) Value {
		m.SchedPoint("atomic cas")
		f := valField(m, a[0])
		if m.Branch(m.equals(*f, a[1])) {
			*f = a[2]
			return m.boolV(true)
		}
		return m.boolV(false)
	}
	// atomic.Pointer[T]: struct{_ [0]*T; _ noCopy; v unsafe.Pointer} — matched by origin name
	externals["(*sync/atomic.Pointer[T]).Load"] = func(m *Machine, fr *Frame, a []Value) Value {
		m.SchedPoint("atomic load")
		return *valField(m, a[0])
	}
	externals["(*sync/atomic.Pointer[T]).Store"] = func(m *Machine, fr *Frame, a []Value) Value {
		m.SchedPoint("atomic store")
		*valField(m, a[0]) = a[1]
		return nil
	}
	externals["(*sync/atomic.Pointer[T]).Swap"] = func(m *Machine, fr *Frame, a []Value) Value {
		m.SchedPoint("atomic swap")
		f := valField(m, a[0])
		old := *f
		*f = a[1]
		return old
	}
	externals["(*sync/atomic.Pointer[T]).CompareAndSwap"] = func(m *Machine, fr *Frame, a []Value) Value {
		m.SchedPoint("atomic cas")
		f := valField(m, a[0])
		if (*f).(*Value) == a[1].(*Value) {
			*f = a[2]
			return m.boolV(true)
		}
		return m.boolV(false)
	}
	// function forms
	for _, ty := range []string{"Int32", "Int64", "Uint32", "Uint64", "Uintptr"} {
		externals["sync/atomic.Load"+ty] = func(m *Machine, fr *Frame, a []Value) Value {
			m.SchedPoint("atomic load")
			return *(a[0].(*Value))
		}
		externals["sync/atomic.Store"+ty] = func(m *Machine, fr *Frame, a []Value) Value {
			m.SchedPoint("atomic store")
			*(a[0].(*Value)) = a[1]
			return nil
		}
		externals["sync/atomic.Add"+ty] = func(m *Machine, fr *Frame, a []Value) Value {
			m.SchedPoint("atomic add")
			p := a[0].(*Value)
			*p = m.F.BVBin("bvadd", (*p).(*smt.Term), a[1].(*smt.Term))
			return *p
		}
		externals["sync/atomic.Swap"+ty] = func(m *Machine, fr *Frame, a []Value) Value {
			m.SchedPoint("atomic swap")
			p := a[0].(*Value)
			old := *p
			*p = a[1]
			return old
		}
		externals["sync/atomic.CompareAndSwap"+ty] = func(m *Machine, fr *Frame, a []Value) Value {
			m.SchedPoint("atomic cas")
			p := a[0].(*Value)
			if m.Branch(m.F.Eq((*p).(*smt.Term), a[1].(*smt.Term))) {
				*p = a[2]
				return m.boolV(true)
			}
			return m.boolV(false)
		}
	}
}

var _ = fmt.Sprintf
var _ = strings.HasPrefix
