package symgo

import (
	"fmt"
	"go/token"
	"go/types"
	"os"
	"sort"
	"strconv"
	"strings"

	"golang.org/x/tools/go/ssa"

	"verif/engine/smt"
)

// Options of one exploration.
type Options struct {
	MaxSteps      int  // interpreted instructions per path
	MaxDecisions  int  // symbolic decisions per path
	MaxConcretize int  // values enumerated when a symbolic int must be concrete
	MapOrderAll   bool // explore every map iteration order (up to MapOrderMax entries)
	MapOrderMax   int
	Preemptions   int // preemption bound
	HashFork      bool // valuehash.NewSHA256 on symbolic input: fork on equality with earlier inputs (concrete digests) instead of solver-level injectivity constraints
	DelayBound    int // >= 0: delay-bounded scheduling with that many deviations from oldest-first; -1: off
	SchedWidth    int // max alternatives explored at a free context switch (blocking point / goroutine exit); 0 = all
	SelectFirst   bool // a select with several ready cases takes the first one in source order instead of exploring each (Go picks at random)
	Trace         bool
}

func DefaultOptions() Options {
	return Options{MaxSteps: 3_000_000, MaxDecisions: 4000, MaxConcretize: 64, MapOrderMax: 4, Preemptions: 2, DelayBound: -1}
}

// Program is the immutable, shared part: SSA program + indexes.
type Program struct {
	Prog     *ssa.Program
	Fset     *token.FileSet
	RtPkg    string // import path of verifrt
	denyInit map[string]bool
	methCache map[methKey]*ssa.Function
	implCache map[implKey]bool
}

type methKey struct {
	t    types.Type
	name string
}
type implKey struct {
	t types.Type
	i *types.Interface
}

// Outcome kinds of a path.
const (
	OutOK          = "ok"
	OutPanic       = "panic"
	OutDeadlock    = "deadlock"
	OutInfeasible  = "infeasible" // Assume(false) or contradictory assumption
	OutUnsupported = "unsupported"
	OutTruncated   = "truncated"
	OutAssertStop  = "assert-stop"
)

type Violation struct {
	Label   string            `json:"label"`
	Kind    string            `json:"kind"` // assert | panic | deadlock
	Detail  string            `json:"detail"`
	Inputs  []InputVal        `json:"inputs"`
	Prefix  []int32           `json:"prefix"`
	Kinds   string            `json:"kinds,omitempty"`
	Goroutines int            `json:"goroutines,omitempty"`
	Stack   []string          `json:"stack,omitempty"`
	Observe map[string]string `json:"observe,omitempty"`
}

type InputVal struct {
	Name string `json:"name"`
	Kind string `json:"kind"` // u8,u64,i64,bool,f64,choice
	U    uint64 `json:"u"`
	F    float64 `json:"f,omitempty"`
}

type inputRec struct {
	name string
	kind string
	term *smt.Term // nil for choice
	val  uint64    // for choice
}

type PathResult struct {
	Outcome    string
	Detail     string
	Prefix     []int32
	Forks      [][]int32 // new work items
	Violations []Violation
	Reached    map[string]bool
	Funcs      map[string]bool
	Stubs      map[string]bool
	Notes      map[string]int
	Steps      int
	Asserts    int // assertion queries discharged unsat
	AssertUnknown int
	FeasUnknown   int
	Sample     string
	Stack      []string
	Vector     []InputVal
}

type abortSig struct {
	outcome string
	detail  string
}

type targetPanic struct {
	v Value
	stack []string
}

// Machine executes one path.
type Machine struct {
	P   *Program
	F   *smt.Factory
	S   *smt.Solver
	Pool *SolverPool
	Opt Options

	globals   map[*ssa.Global]*Value
	pkgInit   map[*ssa.Package]bool
	runningInit map[*ssa.Package]bool
	prefix    []int32
	decisions []int32
	kinds     []byte // kind of each decision: 'b' branch, 'c' choose, 'z' concretize
	curKind   byte
	forks     [][]int32
	pc        []*smt.Term
	steps     int
	inputs    []inputRec
	res       *PathResult
	lastNow   *smt.Term

	// scheduler
	gs        []*G
	cur       *G
	preempts  int
	finished  chan struct{}
	aborting  bool
	outcomeSet bool
	syncObjs  map[*Value]interface{}
	nowFloor  *smt.Term
	timers    []*vtimer
	Cfg       *Config
	ctxs      map[*Value]*ctxState
	userData  map[string]interface{}
	clockNs   int64
	idCounter uint64
	cpos      int // position in Cfg.ConcretePrefix
	inpos     int // position in Cfg.ConcreteInputs
}

type Frame struct {
	m         *Machine
	caller    *Frame
	fn        *ssa.Function
	block     *ssa.BasicBlock
	prevBlock *ssa.BasicBlock
	env       map[ssa.Value]Value
	locals    []Value
	defers    *deferred
	result    Value
	panicking bool
	panicVal  interface{}
	g         *G
	callPos   token.Pos
}

type deferred struct {
	fn    Value
	args  []Value
	instr *ssa.Defer
	tail  *deferred
}

func (m *Machine) unsupported(what string) abortSig {
	return abortSig{OutUnsupported, what + " @ " + m.where()}
}

func (m *Machine) where() string {
	if m.cur != nil && m.cur.fr != nil {
		return strings.Join(m.stackOf(m.cur.fr, whereDepth), " <- ")
	}
	return "?"
}

// whereDepth: frames shown in unsupported/truncated messages (VERIF_STACK overrides, for debugging)
var whereDepth = func() int {
	if n, err := strconv.Atoi(os.Getenv("VERIF_STACK")); err == nil && n > 0 {
		return n
	}
	return 6
}()

func (m *Machine) stackOf(fr *Frame, max int) []string {
	var out []string
	for f := fr; f != nil && len(out) < max; f = f.caller {
		pos := ""
		if f.fn != nil {
			pos = f.fn.String()
		}
		out = append(out, pos)
	}
	return out
}

func (m *Machine) note(format string, args ...interface{}) {
	m.res.Notes[fmt.Sprintf(format, args...)]++
}

func (m *Machine) targetPanicStr(s string) {
	panic(targetPanic{v: Iface{T: m.P.runtimeErrorType(), V: Str{S: s}}, stack: m.stackOf(m.curFrame(), 8)})
}

func (m *Machine) curFrame() *Frame {
	if m.cur != nil {
		return m.cur.fr
	}
	return nil
}

func (p *Program) runtimeErrorType() types.Type {
	pkg := p.Prog.ImportedPackage("runtime")
	if pkg == nil {
		return types.Typ[types.String]
	}
	return pkg.Type("errorString").Object().Type()
}

// ---------- decisions ----------

func (m *Machine) addPC(c *smt.Term) {
	if c.IsTrue() {
		return
	}
	m.pc = append(m.pc, c)
	m.S.Assert(c)
}

func (m *Machine) record(d int32) {
	m.decisions = append(m.decisions, d)
	m.kinds = append(m.kinds, m.curKind)
	if len(m.decisions) > m.Opt.MaxDecisions {
		panic(abortSig{OutTruncated, fmt.Sprintf("more than %d decisions", m.Opt.MaxDecisions)})
	}
}

func (m *Machine) fork(alt int32) {
	p := make([]int32, len(m.decisions)+1)
	copy(p, m.decisions)
	p[len(m.decisions)] = alt
	m.forks = append(m.forks, p)
}

func (m *Machine) replaying() bool { return len(m.decisions) < len(m.prefix) }

func (m *Machine) nextReplay() int32 {
	d := m.prefix[len(m.decisions)]
	m.decisions = append(m.decisions, d)
	m.kinds = append(m.kinds, m.curKind)
	return d
}

// Branch decides a Bool term, forking when both outcomes are feasible.
func (m *Machine) Branch(c *smt.Term) bool {
	if c.IsConst() {
		return c.U == 1
	}
	F := m.F
	m.curKind = 'b'
	if m.replaying() {
		if m.nextReplay() == 1 {
			m.addPC(c)
			return true
		}
		m.addPC(F.Not(c))
		return false
	}
	r1 := m.S.CheckWith(c)
	if r1 == smt.Unsat {
		m.record(0)
		m.addPC(F.Not(c))
		return false
	}
	if r1 == smt.Unknown {
		m.res.FeasUnknown++
	}
	r2 := m.S.CheckWith(F.Not(c))
	if r2 == smt.Unsat {
		m.record(1)
		m.addPC(c)
		return true
	}
	if r2 == smt.Unknown {
		m.res.FeasUnknown++
	}
	if profileForks {
		m.note("fork@%s", m.stackOf(m.curFrame(), 2))
	}
	m.fork(0)
	m.record(1)
	m.addPC(c)
	return true
}

// profileForks (VERIF_FORKS=1): every symbolic branch that forks is counted per call site in the notes.
var profileForks = os.Getenv("VERIF_FORKS") != ""

// Choose returns a nondeterministic value in [0,n); every value is explored.
func (m *Machine) Choose(n int, why string) int {
	if n <= 1 {
		return 0
	}
	m.curKind = 'c'
	if m.concrete() {
		// concrete re-execution: take the next 'c' decision of the recorded path
		for m.cpos < len(m.Cfg.ConcretePrefix) {
			d, k := m.Cfg.ConcretePrefix[m.cpos], m.Cfg.ConcreteKinds[m.cpos]
			m.cpos++
			if k == 'c' {
				if int(d) >= n {
					panic(abortSig{"engine-bug", "concrete re-execution diverged (choice out of range)"})
				}
				m.decisions = append(m.decisions, d)
				m.kinds = append(m.kinds, 'c')
				return int(d)
			}
		}
		panic(abortSig{"engine-bug", "concrete re-execution diverged (recorded choices exhausted)"})
	}
	if m.replaying() {
		return int(m.nextReplay())
	}
	for i := n - 1; i >= 1; i-- {
		m.fork(int32(i))
	}
	m.record(0)
	return 0
}

// Concretize enumerates the feasible values of t (forking), up to MaxConcretize.
// Decision encoding: [lo32, hi32, taken] per candidate value.
func (m *Machine) Concretize(t *smt.Term, why string) uint64 {
	if t.IsConst() {
		return t.U
	}
	F := m.F
	m.curKind = 'z'
	for n := 0; ; n++ {
		if n >= m.Opt.MaxConcretize {
			panic(abortSig{OutTruncated, "concretize(" + why + ") exceeded bound @ " + m.where()})
		}
		if m.replaying() {
			lo, hi, taken := m.nextReplay(), m.nextReplay(), m.nextReplay()
			v := uint64(uint32(lo)) | uint64(uint32(hi))<<32
			eq := F.Eq(t, F.BVC(t.S.W, v))
			if taken == 1 {
				m.addPC(eq)
				return v
			}
			m.addPC(F.Not(eq))
			continue
		}
		m.S.Define(t)
		m.S.Push()
		r := m.S.Check()
		if r != smt.Sat {
			m.S.Pop()
			if r == smt.Unsat {
				panic(abortSig{OutInfeasible, "concretize: path infeasible"})
			}
			panic(abortSig{OutTruncated, "concretize: solver unknown"})
		}
		v, err := m.S.GetBV(t)
		m.S.Pop()
		if err != nil {
			panic(abortSig{OutTruncated, "concretize: " + err.Error()})
		}
		eq := F.Eq(t, F.BVC(t.S.W, v))
		lo, hi := int32(uint32(v)), int32(uint32(v>>32))
		if m.S.CheckWith(F.Not(eq)) != smt.Unsat {
			p := make([]int32, len(m.decisions)+3)
			copy(p, m.decisions)
			copy(p[len(m.decisions):], []int32{lo, hi, 0})
			m.forks = append(m.forks, p)
		}
		m.record(lo)
		m.record(hi)
		m.record(1)
		m.addPC(eq)
		return v
	}
}

// ---------- inputs ----------

func (m *Machine) concrete() bool { return m.Cfg != nil && m.Cfg.ConcreteInputs != nil }

func (m *Machine) newInput(name, kind string, s smt.Sort) *smt.Term {
	if m.concrete() {
		if m.inpos >= len(m.Cfg.ConcreteInputs) {
			panic(abortSig{"engine-bug", "concrete re-execution diverged (inputs exhausted)"})
		}
		in := m.Cfg.ConcreteInputs[m.inpos]
		for in.Kind == "choice" { // choices are consumed by Choose
			m.inpos++
			if m.inpos >= len(m.Cfg.ConcreteInputs) {
				panic(abortSig{"engine-bug", "concrete re-execution diverged (inputs exhausted)"})
			}
			in = m.Cfg.ConcreteInputs[m.inpos]
		}
		m.inpos++
		var t *smt.Term
		switch s.K {
		case smt.KBool:
			t = m.F.BoolC(in.U != 0)
		case smt.KFP:
			t = m.F.FPC(s.W, in.F)
		default:
			t = m.F.BVC(s.W, in.U)
		}
		m.inputs = append(m.inputs, inputRec{name: name, kind: kind, term: t})
		return t
	}
	t := m.F.Var(name, s)
	m.inputs = append(m.inputs, inputRec{name: name, kind: kind, term: t})
	return t
}

// modelInputs extracts concrete input values under the current (sat) solver state.
func (m *Machine) modelInputs(extra ...*smt.Term) ([]InputVal, bool) {
	m.S.Push()
	defer m.S.Pop()
	for _, e := range extra {
		m.S.Assert(e)
	}
	if r := m.S.Check(); r != smt.Sat {
		m.note("model-inputs-check:%s", r)
		return nil, false
	}
	mod, err := m.S.GetModel(m.F.Vars)
	if err != nil {
		m.note("model-inputs-getmodel:%v", err)
		return nil, false
	}
	out := []InputVal{}
	for _, in := range m.inputs {
		iv := InputVal{Name: in.name, Kind: in.kind}
		if in.term == nil {
			iv.U = in.val
		} else if in.term.IsConst() {
			iv.U, iv.F = in.term.U, in.term.F
		} else if in.term.S.K == smt.KFP {
			iv.F = mod.FP[in.term.Name]
		} else {
			iv.U = mod.BV[in.term.Name]
		}
		out = append(out, iv)
	}
	return out, true
}

func (m *Machine) sample() string {
	var sb strings.Builder
	n := 0
	for _, c := range m.pc {
		if n > 0 {
			sb.WriteString(" ∧ ")
		}
		sb.WriteString(c.String())
		n++
		if sb.Len() > 600 {
			sb.WriteString(" …")
			break
		}
	}
	return sb.String()
}

// ---------- running a path ----------

// RunPath executes entry following prefix and returns the path result.
func RunPath(p *Program, pool *SolverPool, opt Options, entry *ssa.Function, prefix []int32, cfg *Config) (res *PathResult) {
	s := pool.Primary
	s.Reset()
	m := &Machine{
		P: p, F: smt.NewFactory(), S: s, Pool: pool, Opt: opt,
		globals:  map[*ssa.Global]*Value{},
		pkgInit:  map[*ssa.Package]bool{},
		runningInit: map[*ssa.Package]bool{},
		prefix:   prefix,
		finished: make(chan struct{}, 1),
		syncObjs: map[*Value]interface{}{},
		Cfg: cfg,
		ctxs:     map[*Value]*ctxState{},
		userData: map[string]interface{}{},
	}
	if opt.DelayBound >= 0 {
		m.userData["sched.delaybound"] = opt.DelayBound
		m.userData["sched.delays"] = 0
	}
	m.res = &PathResult{Reached: map[string]bool{}, Funcs: map[string]bool{}, Stubs: map[string]bool{}, Notes: map[string]int{}}
	g0 := m.newG(nil)
	g0.main = true
	m.cur = g0
	go m.runG(g0, entry, nil)
	g0.resume <- struct{}{}
	<-m.finished
	m.killAll()
	if m.res.Outcome == OutOK && cfg != nil && cfg.WantVector != nil && cfg.WantVector() {
		if in, ok := m.modelInputs(); ok {
			m.res.Vector = in
		}
	}
	m.res.Prefix = m.decisions
	m.res.Forks = m.forks
	m.res.Steps = m.steps
	m.res.Sample = m.sample()
	return m.res
}

func (m *Machine) setOutcome(o, detail string) {
	if m.outcomeSet {
		return
	}
	m.outcomeSet = true
	m.res.Outcome = o
	m.res.Detail = detail
}

// finish is called by the goroutine that ends the path.
func (m *Machine) finish() {
	select {
	case m.finished <- struct{}{}:
	default:
	}
}

func (m *Machine) call(fr *Frame, pos token.Pos, fn Value, args []Value) Value {
	switch fn := fn.(type) {
	case *ssa.Function:
		if fn == nil {
			m.targetPanicStr("invalid memory address or nil pointer dereference (call of nil func)")
		}
		return m.callSSA(fr, pos, fn, args, nil)
	case *Closure:
		return m.callSSA(fr, pos, fn.Fn, args, fn.Env)
	case *ssa.Builtin:
		return m.callBuiltin(fr, pos, fn, args)
	case *Native:
		return fn.Fn(m, fr, args)
	}
	panic(m.unsupported(fmt.Sprintf("call of %T", fn)))
}

func (m *Machine) callSSA(caller *Frame, pos token.Pos, fn *ssa.Function, args []Value, env []Value) Value {
	fr := &Frame{m: m, caller: caller, fn: fn, callPos: pos}
	if caller != nil {
		fr.g = caller.g
	} else {
		fr.g = m.cur
	}
	if fn.Pkg != nil && fn.Synthetic != "" && fn.Name() == "init" && fn.Parent() == nil && !m.runningInit[fn.Pkg] {
		// dependency initialiser called from another package's init: packages are initialised lazily on first touch
		return nil
	}
	if fn.Parent() == nil {
		name := fn.String()
		if ext, ok := externals[name]; ok {
			if en, opt := optionalExternals[name]; !opt || en(m) {
				m.res.Stubs[name] = true
				return ext(m, fr, args)
			}
		}
		if o := fn.Origin(); o != nil {
			if ext, ok := externals[o.String()]; ok {
				m.res.Stubs[o.String()] = true
				return ext(m, fr, args)
			}
		}
		if ext := m.pkgStub(fn); ext != nil {
			m.res.Stubs[name] = true
			return ext(m, fr, args)
		}
	}
	if fn.Blocks == nil {
		// generic origin method reached through an instantiated receiver? try externals by origin name
		if o := fn.Origin(); o != nil {
			if ext, ok := externals[o.String()]; ok {
				m.res.Stubs[o.String()] = true
				return ext(m, fr, args)
			}
		}
		panic(m.unsupported("no code for function " + fn.String()))
	}
	if fn.TypeParams().Len() > 0 && len(fn.TypeArgs()) == 0 {
		panic(m.unsupported("uninstantiated generic " + fn.String()))
	}
	if fn.Pkg != nil && !m.pkgInit[fn.Pkg] {
		m.ensureInit(fn.Pkg, caller)
	}
	m.res.Funcs[fn.String()] = true
	fr.env = make(map[ssa.Value]Value, 16)
	fr.block = fn.Blocks[0]
	fr.locals = make([]Value, len(fn.Locals))
	for i, l := range fn.Locals {
		fr.locals[i] = m.zero(deref(l.Type()))
		fr.env[l] = &fr.locals[i]
	}
	for i, p := range fn.Params {
		fr.env[p] = args[i]
	}
	for i, fv := range fn.FreeVars {
		fr.env[fv] = env[i]
	}
	g := fr.g
	saved := g.fr
	g.fr = fr
	g.depth++
	if g.depth > 400 {
		panic(abortSig{OutTruncated, "call depth > 400 @ " + fn.String()})
	}
	for fr.block != nil {
		m.runFrame(fr)
	}
	g.depth--
	g.fr = saved
	return fr.result
}

func (m *Machine) runFrame(fr *Frame) {
	defer func() {
		if fr.block == nil {
			return // normal return
		}
		r := recover()
		if r == nil {
			return
		}
		switch r.(type) {
		case targetPanic:
		default:
			// engine signal or engine bug: propagate untouched
			panic(r)
		}
		fr.panicking = true
		fr.panicVal = r
		fr.g.fr = fr
		fr.runDefers()
		fr.block = fr.fn.Recover
		if fr.block == nil {
			// recovered, no named results: return zero values
			fr.result = m.zeroResults(fr.fn)
		}
	}()
	for {
		m.executePhis(fr)
		for _, instr := range fr.block.Instrs {
			if _, ok := instr.(*ssa.Phi); ok {
				continue
			}
			m.steps++
			if m.steps > m.Opt.MaxSteps {
				panic(abortSig{OutTruncated, fmt.Sprintf("more than %d steps", m.Opt.MaxSteps)})
			}
			if m.Opt.Trace {
				m.traceInstr(fr, instr)
			}
			k := m.visitInstr(fr, instr)
			if k == kReturn {
				return
			}
			if k == kJump {
				break
			}
		}
	}
}

func (m *Machine) zeroResults(fn *ssa.Function) Value {
	res := fn.Signature.Results()
	switch res.Len() {
	case 0:
		return nil
	case 1:
		return m.zero(res.At(0).Type())
	}
	t := make(Tuple, res.Len())
	for i := range t {
		t[i] = m.zero(res.At(i).Type())
	}
	return t
}

func (m *Machine) traceInstr(fr *Frame, instr ssa.Instruction) {
	if v, ok := instr.(ssa.Value); ok {
		fmt.Printf("[g%d] %s: %s = %s\n", fr.g.id, fr.fn.Name(), v.Name(), instr)
	} else {
		fmt.Printf("[g%d] %s: %s\n", fr.g.id, fr.fn.Name(), instr)
	}
}

func (m *Machine) executePhis(fr *Frame) {
	var tmp [8]Value
	temps := tmp[:0]
	predIndex := -1
	n := 0
	for _, instr := range fr.block.Instrs {
		phi, ok := instr.(*ssa.Phi)
		if !ok {
			break
		}
		if predIndex < 0 {
			for i, p := range fr.block.Preds {
				if p == fr.prevBlock {
					predIndex = i
					break
				}
			}
		}
		temps = append(temps, fr.get(phi.Edges[predIndex]))
		n++
	}
	for i := 0; i < n; i++ {
		fr.env[fr.block.Instrs[i].(*ssa.Phi)] = temps[i]
	}
}

func (fr *Frame) get(key ssa.Value) Value {
	switch key := key.(type) {
	case nil:
		return nil
	case *ssa.Function:
		return key
	case *ssa.Builtin:
		return key
	case *ssa.Const:
		return fr.m.constValue(key)
	case *ssa.Global:
		return fr.m.globalAddr(key, fr)
	}
	if r, ok := fr.env[key]; ok {
		return r
	}
	panic(fmt.Sprintf("get: no value for %T: %v in %s", key, key.Name(), fr.fn))
}

func (fr *Frame) runDefer(d *deferred) {
	m := fr.m
	var ok bool
	defer func() {
		if !ok {
			r := recover()
			if _, isT := r.(targetPanic); !isT {
				panic(r)
			}
			fr.panicking = true
			fr.panicVal = r
		}
	}()
	m.call(fr, d.instr.Pos(), d.fn, d.args)
	ok = true
}

func (fr *Frame) runDefers() {
	for d := fr.defers; d != nil; d = d.tail {
		fr.runDefer(d)
	}
	fr.defers = nil
	if fr.panicking {
		panic(fr.panicVal)
	}
}

// ---------- globals & package init ----------

func (m *Machine) globalAddr(g *ssa.Global, fr *Frame) *Value {
	if a, ok := m.globals[g]; ok {
		return a
	}
	cell := new(Value)
	*cell = m.zero(deref(g.Type()))
	m.globals[g] = cell
	if g.Pkg != nil && !m.pkgInit[g.Pkg] {
		m.ensureInit(g.Pkg, fr)
	}
	return cell
}

func (m *Machine) ensureInit(pkg *ssa.Package, fr *Frame) {
	if m.pkgInit[pkg] {
		return
	}
	m.pkgInit[pkg] = true
	path := pkg.Pkg.Path()
	if m.P.denyInit[path] || m.P.denyInitPrefix(path) {
		m.note("init-skipped:%s", path)
		return
	}
	init := pkg.Func("init")
	if init == nil || init.Blocks == nil {
		return
	}
	// set the guard so the body's own check passes, then run with dependency inits skipped
	if g, ok := pkg.Members["init$guard"].(*ssa.Global); ok {
		cell := new(Value)
		*cell = m.F.BoolC(false)
		m.globals[g] = cell
	}
	m.runningInit[pkg] = true
	s0 := m.steps
	m.callSSA(fr, token.NoPos, init, nil, nil)
	m.runningInit[pkg] = false
	if m.Opt.Trace || m.Cfg != nil && m.Cfg.ProfileInit {
		m.res.Notes["init-steps:"+path] += m.steps - s0
	}
}

// packages whose initialisers are not interpreted (their globals stay zero; every use must hit a stub)
var denyExact = map[string]bool{
	"errors": true, "runtime": true, "reflect": true, "os": true, "syscall": true, "net": true, "unicode": true,
	"time": true, "fmt": true, "log": true, "sync": true, "testing": true, "encoding/json": true, "regexp": true,
	"regexp/syntax": true, "math/rand": true, "math/rand/v2": true, "os/signal": true, "os/exec": true, "os/user": true,
	"net/http": true, "crypto/rand": true, "math/big": true, "flag": true, "bufio": true,
}

var denyPrefixes = []string{
	"internal/", "runtime/", "crypto/", "vendor/", "net/",
	"github.com/quic-go", "github.com/rs/zerolog", "github.com/hashicorp", "github.com/redis", "github.com/bytedance",
	"github.com/json-iterator", "golang.org/x/sys", "golang.org/x/net", "golang.org/x/crypto", "golang.org/x/text",
	"github.com/btcsuite", "github.com/decred", "github.com/zeebo", "github.com/klauspost", "github.com/cloudwego",
	"github.com/twitchyliquid64", "github.com/oklog", "github.com/gofrs", "github.com/alicebob", "go.uber.org",
	"github.com/stretchr", "github.com/google", "github.com/golang", "github.com/syndtr",
}

func (p *Program) denyInitPrefix(path string) bool {
	if denyExact[path] {
		return true
	}
	for _, d := range denyPrefixes {
		if path == d || strings.HasPrefix(path, d+"/") || (strings.HasSuffix(d, "/") && strings.HasPrefix(path, d)) {
			return true
		}
	}
	return false
}

// ---------- program helpers ----------

func NewProgram(prog *ssa.Program, rtPkg string) *Program {
	return &Program{Prog: prog, Fset: prog.Fset, RtPkg: rtPkg, denyInit: map[string]bool{},
		methCache: map[methKey]*ssa.Function{}, implCache: map[implKey]bool{}}
}

func sortedKeys(m map[string]bool) []string {
	var ks []string
	for k := range m {
		ks = append(ks, k)
	}
	sort.Strings(ks)
	return ks
}
