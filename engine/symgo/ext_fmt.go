package symgo

import (
	"fmt"
	"go/types"
	"strconv"
	"strings"

	"verif/engine/smt"
)

// fmtArg converts a target value (boxed in an interface) to a host value for native formatting.
func (m *Machine) fmtArg(fr *Frame, v Value, depth int) interface{} {
	it, ok := v.(Iface)
	if !ok {
		return m.fmtPlain(fr, nil, v, depth)
	}
	if it.T == nil {
		return nil
	}
	return m.fmtPlain(fr, it.T, it.V, depth)
}

type opaque string

func (o opaque) String() string { return string(o) }

func (m *Machine) fmtPlain(fr *Frame, t types.Type, v Value, depth int) interface{} {
	if t != nil && depth < 3 {
		// error / Stringer
		for _, name := range []string{"Error", "String"} {
			if fn := m.findMethod(t, nil, name); fn != nil && fn.Signature.Params().Len() == 0 && fn.Signature.Results().Len() == 1 {
				if b, ok := fn.Signature.Results().At(0).Type().Underlying().(*types.Basic); ok && b.Kind() == types.String {
					if p, isPtr := v.(*Value); isPtr && p == nil {
						return opaque("<nil>")
					}
					var res Value
					func() {
						defer func() {
							if r := recover(); r != nil {
								if _, ok := r.(targetPanic); ok {
									res = Str{S: "<panic in " + name + ">"}
									return
								}
								panic(r)
							}
						}()
						res = m.call(fr, 0, fn, []Value{v})
					}()
					s := res.(Str)
					if s.Concrete() {
						return opaque(s.S)
					}
					m.note("fmt-symbolic-arg")
					return opaque("<sym-string>")
				}
			}
		}
	}
	switch x := v.(type) {
	case *smt.Term:
		if !x.IsConst() {
			m.note("fmt-symbolic-arg")
			return opaque(fmt.Sprintf("<sym:%d>", x.ID))
		}
		switch x.S.K {
		case smt.KBool:
			return x.U == 1
		case smt.KFP:
			return x.F
		}
		if t != nil && !isSigned(t) {
			return x.U
		}
		return sext64(x.U, x.S.W)
	case Str:
		if x.Concrete() {
			return x.S
		}
		m.note("fmt-symbolic-arg")
		return opaque("<sym-string>")
	case []Value:
		// []byte?
		if t != nil {
			if sl, ok := t.Underlying().(*types.Slice); ok {
				if b, ok := sl.Elem().Underlying().(*types.Basic); ok && b.Kind() == types.Uint8 {
					out := make([]byte, len(x))
					for i, e := range x {
						et := e.(*smt.Term)
						if !et.IsConst() {
							m.note("fmt-symbolic-arg")
							return opaque("<sym-bytes>")
						}
						out[i] = byte(et.U)
					}
					return out
				}
			}
		}
		return opaque(fmt.Sprintf("<slice len=%d>", len(x)))
	case *Value:
		if x == nil {
			return opaque("<nil>")
		}
		return opaque(fmt.Sprintf("<ptr %p>", x))
	case Iface:
		return m.fmtArg(fr, x, depth+1)
	}
	if t != nil {
		return opaque("<" + t.String() + ">")
	}
	return opaque(fmt.Sprintf("<%T>", v))
}

func (m *Machine) sprintf(fr *Frame, format Value, args Value) string {
	f := m.concStr(format, "fmt format")
	f = strings.ReplaceAll(f, "%w", "%v")
	xs, _ := args.([]Value)
	hs := make([]interface{}, len(xs))
	for i, x := range xs {
		hs[i] = m.fmtArg(fr, x, 0)
	}
	return fmt.Sprintf(f, hs...)
}

func (m *Machine) sprint(fr *Frame, args Value, ln bool) string {
	xs, _ := args.([]Value)
	hs := make([]interface{}, len(xs))
	for i, x := range xs {
		hs[i] = m.fmtArg(fr, x, 0)
	}
	if ln {
		return fmt.Sprintln(hs...)
	}
	return fmt.Sprint(hs...)
}

func init() {
	externals["fmt.Sprintf"] = func(m *Machine, fr *Frame, a []Value) Value {
		return Str{S: m.sprintf(fr, a[0], a[1])}
	}
	externals["fmt.Sprint"] = func(m *Machine, fr *Frame, a []Value) Value { return Str{S: m.sprint(fr, a[0], false)} }
	externals["fmt.Sprintln"] = func(m *Machine, fr *Frame, a []Value) Value { return Str{S: m.sprint(fr, a[0], true)} }
	externals["fmt.Errorf"] = func(m *Machine, fr *Frame, a []Value) Value {
		msg := m.sprintf(fr, a[0], a[1])
		format := m.concStr(a[0], "fmt format")
		if strings.Contains(format, "%w") {
			// find the operand of the first %w
			idx := 0
			argi := -1
			for i := 0; i < len(format)-1; i++ {
				if format[i] == '%' {
					if format[i+1] == '%' {
						i++
						continue
					}
					j := i + 1
					for j < len(format) && strings.ContainsRune("+-# 0123456789.", rune(format[j])) {
						j++
					}
					if j < len(format) && format[j] == 'w' {
						argi = idx
						break
					}
					idx++
					i = j
				}
			}
			xs, _ := a[1].([]Value)
			if argi >= 0 && argi < len(xs) {
				if it, ok := xs[argi].(Iface); ok && it.T != nil {
					pkg := m.P.Prog.ImportedPackage("fmt")
					t := pkg.Type("wrapError").Object().Type()
					var cell Value = Struct{Str{S: msg}, it}
					return Iface{T: types.NewPointer(t), V: &cell}
				}
			}
		}
		return m.errorValue(msg)
	}
	noop := func(n int) ExtFn {
		return func(m *Machine, fr *Frame, a []Value) Value {
			if n == 0 {
				return nil
			}
			return Tuple{m.intV(0), Iface{}}
		}
	}
	for _, f := range []string{"fmt.Printf", "fmt.Println", "fmt.Print"} {
		externals[f] = noop(2)
	}
	fwrite := func(m *Machine, fr *Frame, w Value, out string) Value {
		it := w.(Iface)
		if it.T == nil {
			m.nilDeref()
		}
		// os.Stdout / os.Stderr and friends: output is dropped
		if n, ok := derefNamed(it.T); ok && n.Obj().Pkg() != nil && n.Obj().Pkg().Path() == "os" {
			return Tuple{m.intV(int64(len(out))), Iface{}}
		}
		fn := m.findMethod(it.T, nil, "Write")
		if fn == nil {
			panic(m.unsupported("fmt.Fprint*: writer without Write method"))
		}
		return m.call(fr, 0, fn, []Value{it.V, m.goBytes([]byte(out))})
	}
	externals["fmt.Fprintf"] = func(m *Machine, fr *Frame, a []Value) Value {
		return fwrite(m, fr, a[0], m.sprintf(fr, a[1], a[2]))
	}
	externals["fmt.Fprint"] = func(m *Machine, fr *Frame, a []Value) Value {
		return fwrite(m, fr, a[0], m.sprint(fr, a[1], false))
	}
	externals["fmt.Fprintln"] = func(m *Machine, fr *Frame, a []Value) Value {
		return fwrite(m, fr, a[0], m.sprint(fr, a[1], true))
	}
	fmtInt := func(signed bool) ExtFn {
		return func(m *Machine, fr *Frame, a []Value) Value {
			t := a[0].(*smt.Term)
			if !t.IsConst() {
				// a number that is only printed (error texts, logs): an opaque placeholder naming the term
				m.note("fmt-symbolic-arg")
				return Str{S: fmt.Sprintf("<sym:%d>", t.ID)}
			}
			base := int(m.concInt(a[1], "base"))
			if signed {
				return Str{S: strconv.FormatInt(sext64(t.U, t.S.W), base)}
			}
			return Str{S: strconv.FormatUint(t.U, base)}
		}
	}
	externals["strconv.FormatInt"] = fmtInt(true)
	externals["strconv.FormatUint"] = fmtInt(false)
	externals["strconv.Itoa"] = func(m *Machine, fr *Frame, a []Value) Value {
		t := a[0].(*smt.Term)
		if !t.IsConst() {
			m.note("fmt-symbolic-arg")
			return Str{S: fmt.Sprintf("<sym:%d>", t.ID)}
		}
		return Str{S: strconv.FormatInt(sext64(t.U, t.S.W), 10)}
	}
	externals["strconv.FormatFloat"] = func(m *Machine, fr *Frame, a []Value) Value {
		f := a[0].(*smt.Term)
		if !f.IsConst() {
			m.note("fmt-symbolic-arg")
			return Str{S: fmt.Sprintf("<sym:%d>", f.ID)}
		}
		return Str{S: strconv.FormatFloat(f.F, byte(m.concInt(a[1], "fmt")), int(m.concInt(a[2], "prec")), int(m.concInt(a[3], "bits")))}
	}
	externals["strconv.ParseFloat"] = func(m *Machine, fr *Frame, a []Value) Value {
		v, err := strconv.ParseFloat(m.concStr(a[0], "ParseFloat"), int(m.concInt(a[1], "bits")))
		if err != nil {
			return Tuple{m.F.FPC(64, v), m.errorValue(err.Error())}
		}
		return Tuple{m.F.FPC(64, v), Iface{}}
	}
	externals["strconv.Quote"] = func(m *Machine, fr *Frame, a []Value) Value {
		s := a[0].(Str)
		if !s.Concrete() {
			return Str{S: "\"<sym-string>\""}
		}
		return Str{S: strconv.Quote(s.S)}
	}
}
