package symgo

import (
	"regexp"

	"verif/engine/smt"
)

func (m *Machine) nativePtr(obj interface{}) Value {
	var cell Value = NativeObj{Obj: obj}
	return &cell
}

func (m *Machine) nativeOf(v Value) interface{} {
	p, ok := v.(*Value)
	if !ok || p == nil {
		m.nilDeref()
	}
	no, ok := (*p).(NativeObj)
	if !ok {
		panic(m.unsupported("expected native object"))
	}
	return no.Obj
}

func (m *Machine) strList(ss []string) Value {
	if ss == nil {
		return []Value(nil)
	}
	out := make([]Value, len(ss))
	for i, s := range ss {
		out[i] = Str{S: s}
	}
	return out
}

func init() {
	externals["regexp.MustCompile"] = func(m *Machine, fr *Frame, a []Value) Value {
		re, err := regexp.Compile(m.concStr(a[0], "regexp pattern"))
		if err != nil {
			m.targetPanicStr("regexp: " + err.Error())
		}
		return m.nativePtr(re)
	}
	externals["regexp.Compile"] = func(m *Machine, fr *Frame, a []Value) Value {
		re, err := regexp.Compile(m.concStr(a[0], "regexp pattern"))
		if err != nil {
			return Tuple{(*Value)(nil), m.errorValue(err.Error())}
		}
		return Tuple{m.nativePtr(re), Iface{}}
	}
	re := func(m *Machine, a []Value) *regexp.Regexp { return m.nativeOf(a[0]).(*regexp.Regexp) }
	externals["(*regexp.Regexp).MatchString"] = func(m *Machine, fr *Frame, a []Value) Value {
		s := a[1].(Str)
		if !s.Concrete() {
			return m.symRegexMatch(re(m, a), s)
		}
		return m.boolV(re(m, a).MatchString(s.S))
	}
	externals["(*regexp.Regexp).Match"] = func(m *Machine, fr *Frame, a []Value) Value {
		s := m.mkStr(m.bytesOf(a[1]))
		if !s.Concrete() {
			return m.symRegexMatch(re(m, a), s)
		}
		return m.boolV(re(m, a).MatchString(s.S))
	}
	externals["(*regexp.Regexp).String"] = func(m *Machine, fr *Frame, a []Value) Value {
		return Str{S: re(m, a).String()}
	}
	externals["(*regexp.Regexp).FindStringSubmatch"] = func(m *Machine, fr *Frame, a []Value) Value {
		return m.strList(re(m, a).FindStringSubmatch(m.concStr(a[1], "FindStringSubmatch")))
	}
	externals["(*regexp.Regexp).FindString"] = func(m *Machine, fr *Frame, a []Value) Value {
		return Str{S: re(m, a).FindString(m.concStr(a[1], "FindString"))}
	}
	externals["(*regexp.Regexp).FindAllString"] = func(m *Machine, fr *Frame, a []Value) Value {
		return m.strList(re(m, a).FindAllString(m.concStr(a[1], "FindAllString"), int(m.concInt(a[2], "n"))))
	}
	externals["(*regexp.Regexp).FindStringIndex"] = func(m *Machine, fr *Frame, a []Value) Value {
		s := a[1].(Str)
		if !s.Concrete() {
			return m.symRegexFindIndex(re(m, a), s)
		}
		loc := re(m, a).FindStringIndex(s.S)
		if loc == nil {
			return []Value(nil)
		}
		return []Value{m.intV(int64(loc[0])), m.intV(int64(loc[1]))}
	}
	externals["(*regexp.Regexp).ReplaceAllString"] = func(m *Machine, fr *Frame, a []Value) Value {
		return Str{S: re(m, a).ReplaceAllString(m.concStr(a[1], "ReplaceAllString"), m.concStr(a[2], "repl"))}
	}
	externals["(*regexp.Regexp).Split"] = func(m *Machine, fr *Frame, a []Value) Value {
		return m.strList(re(m, a).Split(m.concStr(a[1], "Split"), int(m.concInt(a[2], "n"))))
	}
	externals["regexp.QuoteMeta"] = func(m *Machine, fr *Frame, a []Value) Value {
		return Str{S: regexp.QuoteMeta(m.concStr(a[0], "QuoteMeta"))}
	}
}

var _ = smt.Bool
