package symgo

// util.UnmarshalWithYAMLOrderedMap (gopkg.in/yaml.v3: reflection based, not executable here) is
// redirected to a harness-provided parser of the YAML subset the harness produces:
// util.VerifYAMLOrderedMapFromText (plain Go, executed from source), when the harness provides one.
// Natively the real YAML decoder runs, so the native validation of OK paths compares the two.
func init() {
	const name = "github.com/spikeekips/mitum/util.UnmarshalWithYAMLOrderedMap"
	find := func(m *Machine) Value {
		for _, p := range m.P.Prog.AllPackages() {
			if p.Pkg.Path() == "github.com/spikeekips/mitum/util" {
				if f := p.Func("VerifYAMLOrderedMapFromText"); f != nil {
					return f
				}
			}
		}
		return nil
	}
	optionalExternals[name] = func(m *Machine) bool { return find(m) != nil }
	externals[name] = func(m *Machine, fr *Frame, a []Value) Value {
		return m.call(fr, 0, find(m), a)
	}
}
