package symgo

import (
	"crypto/sha256"
	"crypto/sha512"
	"fmt"

	"github.com/zeebo/blake3"
	"golang.org/x/crypto/sha3"

	"verif/engine/smt"
)

// Hash functions: computed natively on concrete input; on symbolic input an uninterpreted
// function that is functional AND injective per hash function (Ackermann constraints against
// every earlier call of the same function on the path) — i.e. collision freeness is assumed.

type hashCall struct {
	in  []*smt.Term
	out []*smt.Term
}

func (m *Machine) hashModel(name string, outLen int, in []*smt.Term, native func([]byte) []byte) []*smt.Term {
	F := m.F
	conc := true
	for _, b := range in {
		if !b.IsConst() {
			conc = false
			break
		}
	}
	var out []*smt.Term
	prev, _ := m.userData["hash:"+name].([]hashCall)
	if !conc {
		// the very same argument terms: the same digest (functional), no new variables
		for _, c := range prev {
			if len(c.in) == len(in) {
				same := true
				for i := range in {
					if c.in[i] != in[i] {
						same = false
						break
					}
				}
				if same {
					return c.out
				}
			}
		}
	}
	if conc {
		raw := make([]byte, len(in))
		for i, b := range in {
			raw[i] = byte(b.U)
		}
		h := native(raw)
		out = make([]*smt.Term, len(h))
		for i, b := range h {
			out[i] = F.BVC(8, uint64(b))
		}
	} else {
		m.res.Stubs["uninterpreted-injective:"+name] = true
		out = make([]*smt.Term, outLen)
		n, _ := m.userData["hash.n"].(int)
		m.userData["hash.n"] = n + 1
		nz := F.BoolC(false)
		for i := range out {
			out[i] = F.Var(fmt.Sprintf("h%d_%s_%d", n, sanitizeName(name), i), smt.BV(8))
			nz = F.Or(nz, F.Not(F.Eq(out[i], F.BVC(8, 0))))
		}
		m.addPC(nz) // a digest is never all-zero (assumed, like collision freeness)
	}
	calls, _ := m.userData["hash:"+name].([]hashCall)
	if !conc {
		for _, c := range calls {
			sameOut := m.strEq(m.mkStr(out), m.mkStr(c.out))
			if len(c.in) != len(in) {
				m.addPC(F.Not(sameOut))
				continue
			}
			sameIn := m.strEq(m.mkStr(in), m.mkStr(c.in))
			m.addPC(F.Eq(sameIn, sameOut))
		}
	} else {
		// concrete call after symbolic ones: tie them too
		for _, c := range calls {
			allc := true
			for _, b := range c.in {
				if !b.IsConst() {
					allc = false
					break
				}
			}
			if allc {
				continue
			}
			sameOut := m.strEq(m.mkStr(out), m.mkStr(c.out))
			if len(c.in) != len(in) {
				m.addPC(F.Not(sameOut))
				continue
			}
			m.addPC(F.Eq(m.strEq(m.mkStr(in), m.mkStr(c.in)), sameOut))
		}
	}
	m.userData["hash:"+name] = append(calls, hashCall{in: append([]*smt.Term(nil), in...), out: out})
	return out
}

func sanitizeName(s string) string {
	b := []byte(s)
	for i, c := range b {
		if !(c >= 'a' && c <= 'z' || c >= 'A' && c <= 'Z' || c >= '0' && c <= '9') {
			b[i] = '_'
		}
	}
	return string(b)
}

func (m *Machine) arrayOf(bs []*smt.Term) Array {
	a := make(Array, len(bs))
	for i, b := range bs {
		a[i] = b
	}
	return a
}

func init() {
	externals["crypto/sha256.Sum256"] = func(m *Machine, fr *Frame, a []Value) Value {
		return m.arrayOf(m.hashModel("sha256", 32, m.bytesOf(a[0]), func(b []byte) []byte { h := sha256.Sum256(b); return h[:] }))
	}
	externals["crypto/sha512.Sum512"] = func(m *Machine, fr *Frame, a []Value) Value {
		return m.arrayOf(m.hashModel("sha512", 64, m.bytesOf(a[0]), func(b []byte) []byte { h := sha512.Sum512(b); return h[:] }))
	}
	externals["golang.org/x/crypto/sha3.Sum256"] = func(m *Machine, fr *Frame, a []Value) Value {
		return m.arrayOf(m.hashModel("sha3-256", 32, m.bytesOf(a[0]), func(b []byte) []byte { h := sha3.Sum256(b); return h[:] }))
	}
	externals["golang.org/x/crypto/sha3.Sum512"] = func(m *Machine, fr *Frame, a []Value) Value {
		return m.arrayOf(m.hashModel("sha3-512", 64, m.bytesOf(a[0]), func(b []byte) []byte { h := sha3.Sum512(b); return h[:] }))
	}
	externals["github.com/zeebo/blake3.Sum256"] = func(m *Machine, fr *Frame, a []Value) Value {
		return m.arrayOf(m.hashModel("blake3-256", 32, m.bytesOf(a[0]), func(b []byte) []byte { h := blake3.Sum256(b); return h[:] }))
	}
}
