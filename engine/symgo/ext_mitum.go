package symgo

// Environment stubs specific to the target module.

func init() {
	// random shard seed of util.ShardedMap: a fixed concrete value (the shard a key lands in is
	// then one sample; properties are stated over keys, not shards)
	externals["github.com/spikeekips/mitum/util.newDjb2Seed"] = func(m *Machine, fr *Frame, a []Value) Value {
		return m.F.BVC(32, 0x9e3779b1)
	}
}
