package symgo

// Environment stubs specific to the target module.

func init() {
	// verifrt.DelayBound(n) / a harness function verifC10DelayBound(n): see sched.go chooseG
	setDelay := func(m *Machine, fr *Frame, a []Value) Value {
		n := int(m.concInt(a[0], "delay bound"))
		if n < 0 {
			delete(m.userData, "sched.delaybound")
			return nil
		}
		m.userData["sched.delaybound"] = n
		m.userData["sched.delays"] = 0
		return nil
	}
	externals["github.com/spikeekips/mitum/util/verifrt.DelayBound"] = setDelay
	externals["github.com/spikeekips/mitum/isaac/operation.verifC10DelayBound"] = setDelay

	// random shard seed of util.ShardedMap: a fixed concrete value (the shard a key lands in is
	// then one sample; properties are stated over keys, not shards)
	externals["github.com/spikeekips/mitum/util.newDjb2Seed"] = func(m *Machine, fr *Frame, a []Value) Value {
		return m.F.BVC(32, 0x9e3779b1)
	}
}
