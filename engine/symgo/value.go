// Package symgo: a symbolic interpreter for go/ssa.
//
// Structure follows golang.org/x/tools/go/ssa/interp (BSD licence), with a
// symbolic scalar domain (smt.Term), a decision-prefix forking scheme and a
// cooperative goroutine scheduler.
package symgo

import (
	"fmt"
	"go/types"
	"strings"

	"golang.org/x/tools/go/ssa"

	"verif/engine/smt"
)

type Value interface{}

type Tuple []Value
type Struct []Value
type Array []Value

type Iface struct {
	T types.Type // dynamic type; nil for nil interface
	V Value
}

type Closure struct {
	Fn  *ssa.Function
	Env []Value
}

// Native is an engine-provided function value.
type Native struct {
	Name string
	Fn   func(m *Machine, fr *Frame, args []Value) Value
}

// NativeObj wraps a host object (e.g. *regexp.Regexp) inside a target cell.
type NativeObj struct {
	Obj interface{}
}

// Str is a Go string: concrete (B==nil) or a vector of byte terms of concrete length.
type Str struct {
	S string
	B []*smt.Term
}

func (s Str) Len() int {
	if s.B != nil {
		return len(s.B)
	}
	return len(s.S)
}

func (s Str) Concrete() bool { return s.B == nil }

type bad struct{}

// ---------- type helpers ----------

func deref(t types.Type) types.Type {
	if p, ok := t.Underlying().(*types.Pointer); ok {
		return p.Elem()
	}
	panic(fmt.Sprintf("deref of non-pointer %v", t))
}

func intWidth(b *types.Basic) (w int, signed bool, ok bool) {
	switch b.Kind() {
	case types.Int8:
		return 8, true, true
	case types.Int16:
		return 16, true, true
	case types.Int32, types.UntypedRune:
		return 32, true, true
	case types.Int64, types.Int, types.UntypedInt:
		return 64, true, true
	case types.Uint8:
		return 8, false, true
	case types.Uint16:
		return 16, false, true
	case types.Uint32:
		return 32, false, true
	case types.Uint64, types.Uint, types.Uintptr:
		return 64, false, true
	}
	return 0, false, false
}

func floatWidth(b *types.Basic) (int, bool) {
	switch b.Kind() {
	case types.Float32:
		return 32, true
	case types.Float64, types.UntypedFloat:
		return 64, true
	}
	return 0, false
}

// ---------- zero / copy ----------

func (m *Machine) zero(t types.Type) Value {
	switch t := t.(type) {
	case *types.Basic:
		if t.Kind() == types.UntypedNil {
			panic("untyped nil has no zero value")
		}
		if t.Info()&types.IsUntyped != 0 {
			t = types.Default(t).(*types.Basic)
		}
		switch {
		case t.Kind() == types.Bool:
			return m.F.BoolC(false)
		case t.Kind() == types.String:
			return Str{}
		case t.Kind() == types.UnsafePointer:
			return (*Value)(nil)
		case t.Kind() == types.Invalid:
			panic("zero of invalid type")
		}
		if w, _, ok := intWidth(t); ok {
			return m.F.BVC(w, 0)
		}
		if w, ok := floatWidth(t); ok {
			return m.F.FPC(w, 0)
		}
		if t.Kind() == types.Complex128 || t.Kind() == types.Complex64 {
			return Array{m.F.FPC(64, 0), m.F.FPC(64, 0)}
		}
		panic(fmt.Sprintf("zero: unsupported basic %v", t))
	case *types.Pointer:
		return (*Value)(nil)
	case *types.Array:
		a := make(Array, t.Len())
		for i := range a {
			a[i] = m.zero(t.Elem())
		}
		return a
	case *types.Named:
		return m.zero(t.Underlying())
	case *types.Alias:
		return m.zero(types.Unalias(t))
	case *types.Interface:
		return Iface{}
	case *types.Slice:
		return []Value(nil)
	case *types.Struct:
		s := make(Struct, t.NumFields())
		for i := range s {
			s[i] = m.zero(t.Field(i).Type())
		}
		return s
	case *types.Tuple:
		if t.Len() == 1 {
			return m.zero(t.At(0).Type())
		}
		s := make(Tuple, t.Len())
		for i := range s {
			s[i] = m.zero(t.At(i).Type())
		}
		return s
	case *types.Chan:
		return (*Chan)(nil)
	case *types.Map:
		return (*Map)(nil)
	case *types.Signature:
		return (*ssa.Function)(nil)
	case *types.TypeParam:
		panic("zero of type parameter (generic body not instantiated)")
	}
	panic(fmt.Sprintf("zero: unexpected type %T %v", t, t))
}

func copyVal(v Value) Value {
	switch v := v.(type) {
	case Struct:
		c := make(Struct, len(v))
		for i, x := range v {
			c[i] = copyVal(x)
		}
		return c
	case Array:
		c := make(Array, len(v))
		for i, x := range v {
			c[i] = copyVal(x)
		}
		return c
	}
	return v
}

// ---------- equality ----------

// equals returns a Bool term: Go's == on x and y (same static type).
func (m *Machine) equals(x, y Value) *smt.Term {
	F := m.F
	switch x := x.(type) {
	case *smt.Term:
		y := y.(*smt.Term)
		return F.Eq(x, y)
	case Str:
		return m.strEq(x, y.(Str))
	case *Value:
		return F.BoolC(x == y.(*Value))
	case Iface:
		y := y.(Iface)
		if x.T == nil || y.T == nil {
			return F.BoolC(x.T == nil && y.T == nil)
		}
		if !types.Identical(x.T, y.T) {
			return F.BoolC(false)
		}
		if !types.Comparable(x.T) {
			m.targetPanicStr("runtime error: comparing uncomparable type " + x.T.String())
		}
		return m.equals(x.V, y.V)
	case Struct:
		y := y.(Struct)
		r := F.BoolC(true)
		for i := range x {
			r = F.And(r, m.equals(x[i], y[i]))
			if r.IsFalse() {
				return r
			}
		}
		return r
	case Array:
		y := y.(Array)
		r := F.BoolC(true)
		for i := range x {
			r = F.And(r, m.equals(x[i], y[i]))
			if r.IsFalse() {
				return r
			}
		}
		return r
	case *Chan:
		return F.BoolC(x == y.(*Chan))
	case *Map:
		return F.BoolC(x == y.(*Map))
	case *ssa.Function:
		// only comparisons with nil are legal
		switch y := y.(type) {
		case *ssa.Function:
			return F.BoolC(x == y)
		default:
			return F.BoolC(false)
		}
	case *Closure:
		if y, ok := y.(*Closure); ok {
			return F.BoolC(x == y)
		}
		return F.BoolC(false)
	case *Native:
		if y, ok := y.(*Native); ok {
			return F.BoolC(x == y)
		}
		return F.BoolC(false)
	case []Value:
		// slice == nil only
		y := y.([]Value)
		return F.BoolC(x == nil && y == nil)
	case NativeObj:
		if y, ok := y.(NativeObj); ok {
			return F.BoolC(x.Obj == y.Obj)
		}
		return F.BoolC(false)
	}
	panic(m.unsupported(fmt.Sprintf("equals on %T", x)))
}

func (m *Machine) strByte(s Str, i int) *smt.Term {
	if s.B != nil {
		return s.B[i]
	}
	return m.F.BVC(8, uint64(s.S[i]))
}

func (m *Machine) strBytes(s Str) []*smt.Term {
	if s.B != nil {
		return s.B
	}
	b := make([]*smt.Term, len(s.S))
	for i := range b {
		b[i] = m.F.BVC(8, uint64(s.S[i]))
	}
	return b
}

// mkStr builds a Str from byte terms, concrete if all bytes are constants.
func (m *Machine) mkStr(b []*smt.Term) Str {
	allc := true
	for _, t := range b {
		if !t.IsConst() {
			allc = false
			break
		}
	}
	if allc {
		var sb strings.Builder
		for _, t := range b {
			sb.WriteByte(byte(t.U))
		}
		return Str{S: sb.String()}
	}
	if len(b) == 0 {
		return Str{}
	}
	return Str{B: append([]*smt.Term(nil), b...)}
}

func (m *Machine) strEq(x, y Str) *smt.Term {
	if x.Concrete() && y.Concrete() {
		return m.F.BoolC(x.S == y.S)
	}
	if x.Len() != y.Len() {
		return m.F.BoolC(false)
	}
	r := m.F.BoolC(true)
	for i := 0; i < x.Len(); i++ {
		r = m.F.And(r, m.F.Eq(m.strByte(x, i), m.strByte(y, i)))
		if r.IsFalse() {
			return r
		}
	}
	return r
}

// strLess returns x < y lexicographically.
func (m *Machine) strLess(x, y Str) *smt.Term {
	if x.Concrete() && y.Concrete() {
		return m.F.BoolC(x.S < y.S)
	}
	F := m.F
	n := x.Len()
	if y.Len() < n {
		n = y.Len()
	}
	// from the end: less_i = x[i]<y[i] || (x[i]==y[i] && less_{i+1}); base: len(x)<len(y)
	r := F.BoolC(x.Len() < y.Len())
	for i := n - 1; i >= 0; i-- {
		xb, yb := m.strByte(x, i), m.strByte(y, i)
		r = F.Or(F.BVCmp("bvult", xb, yb), F.And(F.Eq(xb, yb), r))
	}
	return r
}

func (m *Machine) strConcat(x, y Str) Str {
	if x.Concrete() && y.Concrete() {
		return Str{S: x.S + y.S}
	}
	if x.Len() == 0 {
		return y
	}
	if y.Len() == 0 {
		return x
	}
	b := append(append([]*smt.Term(nil), m.strBytes(x)...), m.strBytes(y)...)
	return Str{B: b}
}

func (m *Machine) strSlice(x Str, lo, hi int) Str {
	if x.Concrete() {
		return Str{S: x.S[lo:hi]}
	}
	return m.mkStr(x.B[lo:hi])
}

// hashKey returns a canonical string for fully concrete comparable values; ok=false if symbolic.
func hashKey(v Value) (string, bool) {
	switch v := v.(type) {
	case *smt.Term:
		if !v.IsConst() {
			return "", false
		}
		if v.S.K == smt.KFP {
			return fmt.Sprintf("f%v", v.F), true
		}
		return fmt.Sprintf("i%d", v.U), true
	case Str:
		if !v.Concrete() {
			return "", false
		}
		return "s" + v.S, true
	case *Value:
		return fmt.Sprintf("p%p", v), true
	case *Chan:
		return fmt.Sprintf("c%p", v), true
	case Iface:
		if v.T == nil {
			return "nil", true
		}
		k, ok := hashKey(v.V)
		if !ok {
			return "", false
		}
		return "I" + v.T.String() + ":" + k, true
	case Struct:
		var sb strings.Builder
		sb.WriteString("S{")
		for _, x := range v {
			k, ok := hashKey(x)
			if !ok {
				return "", false
			}
			fmt.Fprintf(&sb, "%d:%s,", len(k), k)
		}
		sb.WriteString("}")
		return sb.String(), true
	case Array:
		var sb strings.Builder
		sb.WriteString("A[")
		for _, x := range v {
			k, ok := hashKey(x)
			if !ok {
				return "", false
			}
			fmt.Fprintf(&sb, "%d:%s,", len(k), k)
		}
		sb.WriteString("]")
		return sb.String(), true
	}
	return "", false
}

// ---------- maps ----------

type Map struct {
	keys    []Value
	vals    []Value
	live    []bool
	idx     map[string]int // concrete-key index
	n       int
	symKeys int // number of live entries with symbolic keys
}

func newMap() *Map { return &Map{idx: map[string]int{}} }

// find returns the entry index for key or -1; may fork on symbolic comparisons.
func (m *Machine) mapFind(mp *Map, key Value) int {
	if mp == nil {
		return -1
	}
	hk, conc := hashKey(key)
	if conc {
		if i, ok := mp.idx[hk]; ok {
			return i
		}
		if mp.symKeys == 0 {
			return -1
		}
	}
	for i := range mp.keys {
		if !mp.live[i] {
			continue
		}
		if conc {
			if _, kc := hashKey(mp.keys[i]); kc {
				continue // concrete keys already handled by index
			}
		}
		c := m.equals(key, mp.keys[i])
		if m.Branch(c) {
			return i
		}
	}
	return -1
}

func (m *Machine) mapInsert(mp *Map, key, val Value) {
	if mp == nil {
		m.targetPanicStr("assignment to entry in nil map")
	}
	if i := m.mapFind(mp, key); i >= 0 {
		mp.vals[i] = val
		return
	}
	mp.keys = append(mp.keys, key)
	mp.vals = append(mp.vals, val)
	mp.live = append(mp.live, true)
	mp.n++
	if hk, conc := hashKey(key); conc {
		mp.idx[hk] = len(mp.keys) - 1
	} else {
		mp.symKeys++
	}
}

func (m *Machine) mapDelete(mp *Map, key Value) {
	if mp == nil {
		return
	}
	if i := m.mapFind(mp, key); i >= 0 {
		mp.live[i] = false
		mp.n--
		if hk, conc := hashKey(mp.keys[i]); conc {
			delete(mp.idx, hk)
		} else {
			mp.symKeys--
		}
	}
}

func (mp *Map) clear() {
	if mp == nil {
		return
	}
	mp.keys, mp.vals, mp.live = nil, nil, nil
	mp.idx = map[string]int{}
	mp.n = 0
	mp.symKeys = 0
}

func (mp *Map) Len() int {
	if mp == nil {
		return 0
	}
	return mp.n
}

// ---------- iterators ----------

type iter interface {
	next(m *Machine) Tuple
}

type mapIter struct {
	mp      *Map
	visited []bool
	pos     int
}

func (it *mapIter) next(m *Machine) Tuple {
	F := m.F
	if it.mp == nil {
		return Tuple{F.BoolC(false), nil, nil}
	}
	// candidates: live, unvisited entries (entries added during iteration may or may not be visited: we visit them)
	var cand []int
	for i := range it.mp.keys {
		for len(it.visited) <= i {
			it.visited = append(it.visited, false)
		}
		if it.mp.live[i] && !it.visited[i] {
			cand = append(cand, i)
		}
	}
	if len(cand) == 0 {
		return Tuple{F.BoolC(false), nil, nil}
	}
	pick := 0
	if m.Opt.MapOrderAll && len(cand) > 1 {
		if len(cand) <= m.Opt.MapOrderMax {
			pick = m.Choose(len(cand), "maporder")
		} else {
			m.note("map-order-not-permuted(len>%d)", m.Opt.MapOrderMax)
		}
	}
	i := cand[pick]
	it.visited[i] = true
	return Tuple{F.BoolC(true), it.mp.keys[i], copyVal(it.mp.vals[i])}
}

type strIter struct {
	s   Str
	pos int
}

func (it *strIter) next(m *Machine) Tuple {
	F := m.F
	if it.pos >= it.s.Len() {
		return Tuple{F.BoolC(false), nil, nil}
	}
	if it.s.Concrete() {
		for i, r := range it.s.S[it.pos:] {
			_ = i
			idx := it.pos
			it.pos += len(string(r))
			if r == 0xFFFD {
				it.pos = idx + 1
			}
			return Tuple{F.BoolC(true), F.BVC(64, uint64(idx)), F.BVC(32, uint64(r))}
		}
	}
	// symbolic byte: only ASCII handled
	b := it.s.B[it.pos]
	if !m.Branch(F.BVCmp("bvult", b, F.BVC(8, 0x80))) {
		panic(m.unsupported("range over symbolic non-ASCII string"))
	}
	idx := it.pos
	it.pos++
	return Tuple{F.BoolC(true), F.BVC(64, uint64(idx)), F.ZeroExt(b, 32)}
}
