package symgo

import (
	"encoding/binary"
	"go/types"
	"sort"

	"verif/engine/smt"
)

const unixToInternal int64 = (1969*365 + 1969/4 - 1969/100 + 1969/400) * 86400

// virtual clock: concrete nanoseconds since the Unix epoch; advances 1µs per observation
// and jumps to a timer's deadline when every goroutine is blocked.
func (m *Machine) nowNs() int64 {
	if m.clockNs == 0 {
		m.clockNs = 1_700_000_000 * 1_000_000_000
	}
	m.clockNs += 1000
	return m.clockNs
}

func (m *Machine) timeValue(ns int64) Value {
	sec := ns / 1_000_000_000
	nsec := ns % 1_000_000_000
	return Struct{m.F.BVC(64, uint64(nsec)), m.F.BVC(64, uint64(sec+unixToInternal)), (*Value)(nil)}
}

type vtimer struct {
	when    int64
	period  int64
	ch      *Chan
	fn      Value
	wake    *bool
	stopped bool
	fired   bool
}

func (m *Machine) addTimer(t *vtimer) { m.timers = append(m.timers, t) }

// fireTimer fires the earliest pending virtual timer (called when everything else is blocked).
func (m *Machine) fireTimer() bool {
	var pend []*vtimer
	for _, t := range m.timers {
		if !t.stopped && !t.fired {
			pend = append(pend, t)
		}
	}
	if len(pend) == 0 {
		return false
	}
	sort.SliceStable(pend, func(i, j int) bool { return pend[i].when < pend[j].when })
	t := pend[0]
	if m.clockNs < t.when {
		m.clockNs = t.when
	}
	m.res.Notes["virtual-timer-fired"]++
	if m.res.Notes["virtual-timer-fired"] > 200 {
		panic(abortSig{OutTruncated, "more than 200 virtual timer firings"})
	}
	if t.period > 0 {
		t.when += t.period
	} else {
		t.fired = true
	}
	switch {
	case t.wake != nil:
		*t.wake = true
	case t.ch != nil:
		if len(t.ch.buf) < t.ch.cap {
			// deliver like a send from the runtime
			v := m.timeValue(m.clockNs)
			if w := firstLive(&t.ch.recvq); w != nil {
				w.val = v
				w.ok = true
				w.fire()
				t.ch.recvq = t.ch.recvq[1:]
			} else {
				t.ch.buf = append(t.ch.buf, v)
			}
		}
	case t.fn != nil:
		g := m.newG(m.cur)
		go m.runG(g, t.fn, nil)
	}
	return true
}

func (m *Machine) timerOf(v Value) *vtimer {
	p := v.(*Value)
	if p == nil {
		m.nilDeref()
	}
	if t, ok := m.syncObjs[p]; ok {
		return t.(*vtimer)
	}
	panic(m.unsupported("time.Timer not created by NewTimer/AfterFunc"))
}

func init() {
	externals["github.com/spikeekips/mitum/util/verifrt.AdvanceClock"] = func(m *Machine, fr *Frame, a []Value) Value {
		m.nowNs()
		m.clockNs += m.concInt(a[0], "AdvanceClock")
		return nil
	}
	externals["time.Now"] = func(m *Machine, fr *Frame, a []Value) Value { return m.timeValue(m.nowNs()) }
	externals["time.runtimeNano"] = func(m *Machine, fr *Frame, a []Value) Value { return m.intV(m.nowNs()) }
	externals["time.Sleep"] = func(m *Machine, fr *Frame, a []Value) Value {
		d := m.concInt(a[0], "Sleep duration")
		m.SchedPoint("sleep")
		if d <= 0 {
			return nil
		}
		woke := false
		m.addTimer(&vtimer{when: m.clockNs + d, wake: &woke})
		m.BlockUntil("sleep", func() bool { return woke })
		return nil
	}
	mkTimer := func(m *Machine, d int64, period int64, fn Value, typ string) Value {
		pkg := m.P.Prog.ImportedPackage("time")
		t := pkg.Type(typ).Object().Type()
		var cell Value = m.zero(t)
		vt := &vtimer{when: m.nowNs() + d, period: period, fn: fn}
		if fn == nil {
			vt.ch = &Chan{cap: 1}
			cell.(Struct)[0] = vt.ch
		}
		cell.(Struct)[1] = m.boolV(true)
		p := &cell
		m.syncObjs[p] = vt
		m.addTimer(vt)
		return p
	}
	externals["time.NewTimer"] = func(m *Machine, fr *Frame, a []Value) Value {
		return mkTimer(m, m.concInt(a[0], "timer duration"), 0, nil, "Timer")
	}
	externals["time.AfterFunc"] = func(m *Machine, fr *Frame, a []Value) Value {
		return mkTimer(m, m.concInt(a[0], "timer duration"), 0, a[1], "Timer")
	}
	externals["time.After"] = func(m *Machine, fr *Frame, a []Value) Value {
		p := mkTimer(m, m.concInt(a[0], "timer duration"), 0, nil, "Timer").(*Value)
		return (*p).(Struct)[0]
	}
	externals["time.NewTicker"] = func(m *Machine, fr *Frame, a []Value) Value {
		d := m.concInt(a[0], "ticker duration")
		if d <= 0 {
			m.targetPanicStr("non-positive interval for NewTicker")
		}
		return mkTimer(m, d, d, nil, "Ticker")
	}
	externals["time.Tick"] = func(m *Machine, fr *Frame, a []Value) Value {
		d := m.concInt(a[0], "ticker duration")
		p := mkTimer(m, d, d, nil, "Ticker").(*Value)
		return (*p).(Struct)[0]
	}
	stop := func(m *Machine, fr *Frame, a []Value) Value {
		t := m.timerOf(a[0])
		was := !t.stopped && !t.fired
		t.stopped = true
		if t.ch != nil {
			t.ch.buf = nil
		}
		return m.boolV(was)
	}
	externals["(*time.Timer).Stop"] = stop
	externals["(*time.Ticker).Stop"] = func(m *Machine, fr *Frame, a []Value) Value { stop(m, fr, a); return nil }
	externals["(*time.Timer).Reset"] = func(m *Machine, fr *Frame, a []Value) Value {
		t := m.timerOf(a[0])
		was := !t.stopped && !t.fired
		t.stopped, t.fired = false, false
		if t.ch != nil {
			t.ch.buf = nil
		}
		t.when = m.nowNs() + m.concInt(a[1], "timer duration")
		return m.boolV(was)
	}
	externals["(*time.Ticker).Reset"] = func(m *Machine, fr *Frame, a []Value) Value {
		t := m.timerOf(a[0])
		d := m.concInt(a[1], "ticker duration")
		t.stopped, t.fired = false, false
		t.period = d
		t.when = m.nowNs() + d
		return nil
	}

	// ---- unique ids: concrete, pairwise distinct, increasing ----
	id16 := func(m *Machine) Value {
		m.idCounter++
		var b [16]byte
		binary.BigEndian.PutUint64(b[0:8], 0x0180000000000000)
		binary.BigEndian.PutUint64(b[8:16], m.idCounter)
		out := make(Array, 16)
		for i := range out {
			out[i] = m.F.BVC(8, uint64(b[i]))
		}
		return out
	}
	externals["github.com/spikeekips/mitum/util.ULID"] = func(m *Machine, fr *Frame, a []Value) Value { return id16(m) }
	externals["(*github.com/spikeekips/mitum/util.ULIDPool).New"] = func(m *Machine, fr *Frame, a []Value) Value { return id16(m) }
	externals["github.com/spikeekips/mitum/util.UUID"] = func(m *Machine, fr *Frame, a []Value) Value { return id16(m) }
	externals["github.com/spikeekips/mitum/util.NewULIDPool"] = func(m *Machine, fr *Frame, a []Value) Value {
		pkg := m.P.Prog.ImportedPackage("github.com/spikeekips/mitum/util")
		var cell Value = m.zero(pkg.Type("ULIDPool").Object().Type())
		return &cell
	}
	externals["(github.com/oklog/ulid/v2.ULID).String"] = func(m *Machine, fr *Frame, a []Value) Value {
		arr := a[0].(Array)
		const enc = "0123456789ABCDEFGHJKMNPQRSTVWXYZ"
		var id [16]byte
		for i := range id {
			t := arr[i].(*smt.Term)
			if !t.IsConst() {
				panic(m.unsupported("ULID.String on symbolic id"))
			}
			id[i] = byte(t.U)
		}
		dst := make([]byte, 26)
		dst[0] = enc[(id[0]&224)>>5]
		dst[1] = enc[id[0]&31]
		dst[2] = enc[(id[1]&248)>>3]
		dst[3] = enc[((id[1]&7)<<2)|((id[2]&192)>>6)]
		dst[4] = enc[(id[2]&62)>>1]
		dst[5] = enc[((id[2]&1)<<4)|((id[3]&240)>>4)]
		dst[6] = enc[((id[3]&15)<<1)|((id[4]&128)>>7)]
		dst[7] = enc[(id[4]&124)>>2]
		dst[8] = enc[((id[4]&3)<<3)|((id[5]&224)>>5)]
		dst[9] = enc[id[5]&31]
		dst[10] = enc[(id[6]&248)>>3]
		dst[11] = enc[((id[6]&7)<<2)|((id[7]&192)>>6)]
		dst[12] = enc[(id[7]&62)>>1]
		dst[13] = enc[((id[7]&1)<<4)|((id[8]&240)>>4)]
		dst[14] = enc[((id[8]&15)<<1)|((id[9]&128)>>7)]
		dst[15] = enc[(id[9]&124)>>2]
		dst[16] = enc[((id[9]&3)<<3)|((id[10]&224)>>5)]
		dst[17] = enc[id[10]&31]
		dst[18] = enc[(id[11]&248)>>3]
		dst[19] = enc[((id[11]&7)<<2)|((id[12]&192)>>6)]
		dst[20] = enc[(id[12]&62)>>1]
		dst[21] = enc[((id[12]&1)<<4)|((id[13]&240)>>4)]
		dst[22] = enc[((id[13]&15)<<1)|((id[14]&128)>>7)]
		dst[23] = enc[(id[14]&124)>>2]
		dst[24] = enc[((id[14]&3)<<3)|((id[15]&224)>>5)]
		dst[25] = enc[id[15]&31]
		return Str{S: string(dst)}
	}
}

var _ = types.Typ
