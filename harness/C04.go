package isaacstates

import (
	"sync"

	"github.com/spikeekips/mitum/util"
	"github.com/spikeekips/mitum/util/valuehash"

	"github.com/spikeekips/mitum/base"
	"github.com/spikeekips/mitum/isaac"
	"github.com/spikeekips/mitum/util/verifrt"
)

// C04 Ballotbox emits only sound voteproofs.
//
// Ballots (sign facts of the 4 suffrage nodes and of a foreign node) for 3 stage points with
// two conflicting facts each arrive in every order, from one or two concurrent voters,
// interleaved with Count() and position advances. Every voteproof the box emits is checked:
//   S1 it is for a stage point (and suffrage-confirm flag) a ballot was cast for
//   S2 its sign facts are all for that stage point, from pairwise distinct nodes of the suffrage
//   S3 it passes Voteproof.IsValid and isaac.IsValidVoteproofWithSuffrage (what other nodes apply)
//   S4 its result and majority equal a fresh recount of its sign facts

var verifC04Points = []verifBBPoint{
	{h: 33, r: 0, stage: base.StageINIT},
	{h: 33, r: 0, stage: base.StageINIT, sc: true},
	{h: 33, r: 0, stage: base.StageACCEPT},
}

type verifC04Ballot struct {
	node, point, variant int
}

func (w *verifBBWorld) verifC04Foreign() base.Node {
	return isaac.NewNode(verifBBPub{s: "pub-foreign"}, base.NewStringAddress("node-foreign"))
}

func verifC04CheckVoteproof(w *verifBBWorld, vp base.Voteproof, cast map[string]bool) {
	verifrt.Reach("C04.voteproof-emitted")
	sp := vp.Point()
	sc := isaac.IsSuffrageConfirmBallotFact(vp.Majority())
	// S1: for a draw the flag cannot be read from the majority; then either kind must have been voted
	key := sp.String()
	if vp.Majority() != nil {
		if sc {
			key = "sf-" + key
		}
		verifrt.Assert(cast[key], "C04.S1.voteproof-is-for-a-stage-point-it-was-voting-on")
	} else {
		verifrt.Assert(cast[key] || cast["sf-"+key], "C04.S1.voteproof-is-for-a-stage-point-it-was-voting-on")
	}
	sfs := vp.SignFacts()
	verifrt.Assert(len(sfs) > 0, "C04.S2.voteproof-contains-sign-facts")
	seen := map[string]bool{}
	var set []string
	facts := map[string]base.BallotFact{}
	for _, sf := range sfs {
		fact := sf.Fact().(base.BallotFact)
		verifrt.Assert(fact.Point().Equal(sp), "C04.S2.contains-only-sign-facts-for-that-stage-point")
		verifrt.Assert(!seen[sf.Node().String()], "C04.S2.sign-facts-from-distinct-nodes")
		seen[sf.Node().String()] = true
		verifrt.Assert(w.suf.ExistsPublickey(sf.Node(), sf.Signer()), "C04.S2.sign-facts-from-nodes-of-the-suffrage")
		set = append(set, fact.Hash().String())
		facts[fact.Hash().String()] = fact
	}
	verifrt.Assert(vp.IsValid([]byte("network")) == nil, "C04.S3.passes-voteproof-validation")
	verifrt.Assert(isaac.IsValidVoteproofWithSuffrage(vp, w.suf) == nil, "C04.S3.passes-the-validation-with-suffrage-that-other-nodes-apply")
	if we, ok := vp.(base.HasExpels); ok && len(we.Expels()) > 0 {
		// with expels the recount is the one of the reduced suffrage at 100%: every remaining node
		// signed the majority (S3 runs the real validation of exactly that)
		verifrt.Reach("C04.expel-voteproof-emitted")
		if vp.Result() == base.VoteResultMajority {
			for _, k := range set {
				verifrt.Assert(k == vp.Majority().Hash().String(), "C04.S4.result-equals-a-fresh-recount(expel-voteproof:every-remaining-node-signed-the-majority)")
			}
		}
		return
	}
	// S4: fresh recount with the harness's own tally
	need := vp.Threshold().Threshold(uint(w.suf.Len()))
	count := map[string]uint{}
	var best string
	var bestn, total uint
	for _, k := range set {
		count[k]++
		total++
		if count[k] > bestn {
			best, bestn = k, count[k]
		}
	}
	switch {
	case bestn >= need:
		verifrt.Assert(vp.Result() == base.VoteResultMajority && vp.Majority() != nil && vp.Majority().Hash().String() == best,
			"C04.S4.result-equals-a-fresh-recount(majority)")
	case bestn+(uint(w.suf.Len())-total) < need:
		verifrt.Assert(vp.Result() == base.VoteResultDraw && vp.Majority() == nil, "C04.S4.result-equals-a-fresh-recount(draw)")
	default:
		verifrt.Assert(false, "C04.S4.no-voteproof-while-the-recount-says-not-yet")
	}
}

func verifC04Vote(w *verifBBWorld, b verifC04Ballot) {
	p := verifC04Points[b.point]
	var sf verifBBSF
	if b.node >= len(w.nodes) {
		f := w.verifC04Foreign()
		sf = verifBBSF{node: f.Address(), pub: f.Publickey(), fact: p.fact(b.variant)}
	} else {
		sf = w.signFact(b.node, p, b.variant)
	}
	_, deferred, err := w.box.vote(sf, nil, nil)
	verifrt.Assert(err == nil, "C04.harness.vote-without-error")
	if deferred != nil {
		deferred() // Vote() runs it in a goroutine of its own; here: right away, under the voter's schedule
	}
}

// verifC04NondetBallot: any point, either fact; the signer is (up to renaming of suffrage nodes) the
// next node that has not voted for that point yet, a node that already voted for it, or a foreign node.
func verifC04NondetBallot(nnodes int, next []int) verifC04Ballot {
	b := verifC04Ballot{point: verifrt.NondetChoice("point", len(verifC04Points)), variant: verifrt.NondetChoice("fact", 2)}
	switch verifrt.NondetChoice("signer", 3) {
	case 0:
		verifrt.Assume(next[b.point] < nnodes)
		b.node = next[b.point]
		next[b.point]++
	case 1:
		verifrt.Assume(next[b.point] > 0)
		b.node = 0
	default:
		b.node = nnodes
	}
	return b
}

// VerifC04Sequential: every sequence of N ballots (any node incl. a foreign one and repeats,
// any of the 3 points, either fact), with Count() after it.
func VerifC04Sequential() {
	w := verifBBNewWorld(4, base.Threshold(60))
	cast := map[string]bool{}
	n := verifrt.Bound("ballots", 3, 4)
	next := make([]int, len(verifC04Points))
	for i := 0; i < n; i++ {
		b := verifC04NondetBallot(len(w.nodes), next)
		cast[verifC04Points[b.point].key()] = true
		verifC04Vote(w, b)
		for _, vp := range w.drain() {
			verifC04CheckVoteproof(w, vp, cast)
		}
	}
	_ = w.box.Count()
	for _, vp := range w.drain() {
		verifC04CheckVoteproof(w, vp, cast)
	}
	verifrt.Reach("C04.sequential.done")
}

// VerifC04Concurrent: two voters deliver their ballots concurrently (every interleaving within
// the preemption bound) after a common prefix, a third goroutine may run Count().
func VerifC04Concurrent() {
	w := verifBBNewWorld(4, base.Threshold(60))
	cast := map[string]bool{}
	// prefix: two nodes already voted for one fact of one point, so that the racing ballots decide
	pre := verifrt.NondetChoice("prefix-point", len(verifC04Points))
	for node := 0; node < 2; node++ {
		b := verifC04Ballot{node: node, point: pre, variant: 0}
		cast[verifC04Points[pre].key()] = true
		verifC04Vote(w, b)
	}
	wide := verifrt.Bound("wide", 0, 1) == 1 // thorough: racing ballot a on any point, b also by the same node as a, Count goroutine
	a := verifC04Ballot{node: 2, point: pre, variant: verifrt.NondetChoice("a.fact", 2)}
	b := verifC04Ballot{node: 3, point: verifrt.NondetChoice("b.point", len(verifC04Points)), variant: verifrt.NondetChoice("b.fact", 2)}
	if wide {
		a.point = verifrt.NondetChoice("a.point", len(verifC04Points))
		b.node = 2 + verifrt.NondetChoice("b.node", 2)
	}
	cast[verifC04Points[a.point].key()] = true
	cast[verifC04Points[b.point].key()] = true
	withCount := wide && verifrt.NondetChoice("count-goroutine", 2) == 1
	var wg sync.WaitGroup
	wg.Add(2)
	go func() { defer wg.Done(); verifC04Vote(w, a) }()
	go func() { defer wg.Done(); verifC04Vote(w, b) }()
	if withCount {
		wg.Add(1)
		go func() { defer wg.Done(); _ = w.box.Count() }()
	}
	wg.Wait()
	verifrt.Reach("C04.concurrent.joined")
	n := 0
	for _, vp := range w.drain() {
		n++
		verifC04CheckVoteproof(w, vp, cast)
	}
	verifrt.Assert(n <= 3, "C04.harness.bounded-number-of-voteproofs")
}

// VerifC04AdvanceDuringCount: the position of the box is advanced by somebody else (a voteproof
// from outside, SetLastPoint) exactly while the deciding ballot is being counted — at the moment
// the box asks for the threshold, i.e. after it read its position and before it filters what it
// counted. A voteproof emitted after that advance must still be new with respect to the position
// the box has moved to (it is not a stage point the box is voting on any more otherwise).
func VerifC04AdvanceDuringCount() {
	w := verifBBNewWorld(4, base.Threshold(60))
	cast := map[string]bool{}
	p := verifC04Points[verifrt.NondetChoice("point", len(verifC04Points))]
	cast[p.key()] = true
	for node := 0; node < 2; node++ {
		verifC04Vote(w, verifC04Ballot{node: node, point: verifrt.NondetChoice("xpoint", 1), variant: 0})
	}
	_ = w.drain()
	advTo := []verifBBPoint{{h: 33, r: 0, stage: base.StageACCEPT}, {h: 34, r: 0, stage: base.StageINIT}, {h: 33, r: 1, stage: base.StageINIT}}[verifrt.NondetChoice("advance-to", 3)]
	at := verifrt.NondetChoice("at-threshold-call", 3) // 0: never
	calls := 0
	advanced := false
	var lp isaac.LastPoint
	w.onThreshold = func() {
		calls++
		if at != 0 && calls == at {
			l, err := isaac.NewLastPoint(advTo.stagePoint(), true, false)
			verifrt.Assert(err == nil, "C04.harness.lastpoint")
			if w.box.SetLastPoint(l) {
				advanced, lp = true, l
			}
		}
	}
	// the deciding ballots (the first two votes above were for point 0 = 33/0 INIT)
	verifC04Vote(w, verifC04Ballot{node: 2, point: 0, variant: 0})
	w.onThreshold = nil
	verifrt.Reach("C04.advance.voted")
	for _, vp := range w.drain() {
		verifC04CheckVoteproof(w, vp, map[string]bool{verifC04Points[0].key(): true})
		if advanced {
			verifrt.Reach("C04.advance.emitted-after-advance")
			verifrt.Assert(isaac.IsNewVoteproof(lp, vp), "C04.S1.voteproof-is-for-a-stage-point-it-is-voting-on(not-behind-the-position-the-box-already-moved-to)")
		}
	}
	_ = p
}

// VerifC04Expels: ballots that carry an expel operation of node d (signed by 2..3 other members),
// whose validity range ends just before, at, or after the ballot's height: whatever the box
// emits passes the validation other nodes apply (an expired expel must not get into a voteproof).
func VerifC04Expels() {
	w := verifBBNewWorld(4, base.Threshold(60))
	height := int64(33)
	end := base.Height(height - 1 + int64(verifrt.NondetChoice("expel-end", 3))) // 32, 33, 34
	signs := 2 + verifrt.NondetChoice("expel-signs", 2)
	// node d is expelled (the local node a ignores expels of itself); a, b, c sign and vote
	op := isaac.NewSuffrageExpelOperation(isaac.NewSuffrageExpelFact(w.nodes[3].Address(), base.Height(30), end, "dead"))
	for j := 0; j < signs; j++ {
		verifrt.Assert(op.NodeSign(verifBBPriv{s: "pub-" + string(rune('a'+j))}, base.NetworkID([]byte("network")), w.nodes[j].Address()) == nil, "C04.harness.expel-sign")
	}
	expels := []base.SuffrageExpelOperation{op}
	point := base.RawPoint(height, 0)
	fact := isaac.NewINITBallotFact(point, valuehash.NewSHA256([]byte("previous-block")), valuehash.NewSHA256([]byte("p0")), []util.Hash{op.Fact().Hash()})
	cast := map[string]bool{base.NewStagePoint(point, base.StageINIT).String(): true}
	voters := 2 + verifrt.NondetChoice("voters", 2) // nodes a, b (, c)
	for j := 0; j < voters; j++ {
		sf := verifBBSF{node: w.nodes[j].Address(), pub: w.nodes[j].Publickey(), fact: fact}
		_, deferred, err := w.box.vote(sf, nil, expels)
		verifrt.Assert(err == nil, "C04.harness.vote-without-error")
		if deferred != nil {
			deferred()
		}
	}
	_ = w.box.Count()
	verifrt.Reach("C04.expels.voted")
	for _, vp := range w.drain() {
		verifC04CheckVoteproof(w, vp, cast)
	}
}
