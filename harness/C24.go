package isaacdatabase

import (
	"bytes"
	"io"
	"time"

	"github.com/pkg/errors"
	"github.com/spikeekips/mitum/base"
	"github.com/spikeekips/mitum/isaac"
	leveldbstorage "github.com/spikeekips/mitum/storage/leveldb"
	"github.com/spikeekips/mitum/util"
	"github.com/spikeekips/mitum/util/encoder"
	"github.com/spikeekips/mitum/util/hint"
	"github.com/spikeekips/mitum/util/valuehash"
	"github.com/spikeekips/mitum/util/verifrt"
	leveldbStorage "github.com/syndtr/goleveldb/leveldb/storage"
)

// C24 Ballot and proposal pools are first-writer-wins and consistent.
//
// World: a TempPool over an empty storage; ballots and proposals are harness objects that carry
// an id, stored through the real SetBallot / SetProposal with the real keys and frames (only the
// body encoder is a harness type that numbers the marshalled objects). Sequential entries use
// symbolic 64-bit heights and rounds; the oracle is a first-writer-wins map kept by the harness.
//
// The concurrent entry runs two writers. Its interleavings are forced by the harness itself (so
// that a counterexample re-runs natively with the same interleaving): the injected encoder's
// Marshal - which the pool calls between its existence check and its write - can hold writer 1
// until writer 2 has finished. A slow encoder call is an execution real callers can have.

// ---- harness encoder (identity round trip, with a hook in Marshal) ----

type verifC24Enc struct {
	ht   hint.Hint
	objs []interface{}
	hook func(interface{})
}

func (e *verifC24Enc) Hint() hint.Hint                { return e.ht }
func (e *verifC24Enc) Add(encoder.DecodeDetail) error { return nil }
func (e *verifC24Enc) AddHinter(hint.Hinter) error    { return nil }
func (e *verifC24Enc) Unmarshal([]byte, interface{}) error {
	return errors.Errorf("not supported")
}
func (e *verifC24Enc) StreamEncoder(io.Writer) util.StreamEncoder { return nil }
func (e *verifC24Enc) StreamDecoder(io.Reader) util.StreamDecoder { return nil }
func (e *verifC24Enc) Marshal(v interface{}) ([]byte, error) {
	if e.hook != nil {
		e.hook(v)
	}
	e.objs = append(e.objs, v)
	return []byte{byte(len(e.objs) - 1)}, nil
}

func (e *verifC24Enc) Decode(b []byte) (interface{}, error) {
	if len(b) != 1 || int(b[0]) >= len(e.objs) {
		return nil, errors.Errorf("unknown object")
	}
	return e.objs[b[0]], nil
}

func (e *verifC24Enc) DecodeWithHint(b []byte, _ hint.Hint) (interface{}, error) { return e.Decode(b) }
func (e *verifC24Enc) DecodeWithHintType(b []byte, _ hint.Type) (interface{}, error) {
	return e.Decode(b)
}
func (e *verifC24Enc) DecodeWithFixedHintType(string, int) (interface{}, error) {
	return nil, errors.Errorf("not supported")
}
func (e *verifC24Enc) DecodeSlice([]byte) ([]interface{}, error) {
	return nil, errors.Errorf("not supported")
}

func verifC24Pool() (*TempPool, *verifC24Enc) {
	st, err := leveldbstorage.NewStorage(leveldbStorage.NewMemStorage(), nil)
	verifrt.Assert(err == nil, "C24.harness.storage-opens")
	enc := &verifC24Enc{ht: hint.MustNewHint("verif-enc-v0.0.1")}
	encs := encoder.NewEncoders(enc, enc)
	db, err := newTempPool(st, encs, enc, 0)
	verifrt.Assert(err == nil, "C24.harness.pool-opens")
	return db, enc
}

// ---- harness ballot ----

type verifC24PlainFact struct{ base.Fact }

type verifC24BallotSignFact struct {
	base.BallotSignFact // not used
	sc                  bool
}

func (s verifC24BallotSignFact) Fact() base.Fact {
	if s.sc {
		return isaac.SuffrageConfirmBallotFact{}
	}
	return verifC24PlainFact{}
}

type verifC24Ballot struct {
	base.Ballot // not used: the pool only reads Point() and SignFact().Fact()
	id          int
	point       base.StagePoint
	sc          bool
}

func (b *verifC24Ballot) Point() base.StagePoint        { return b.point }
func (b *verifC24Ballot) SignFact() base.BallotSignFact { return verifC24BallotSignFact{sc: b.sc} }
func (b *verifC24Ballot) IsValid([]byte) error          { return nil }

type verifC24Tuple struct {
	h     int64
	r     uint64
	stage base.Stage
	sc    bool
}

func (t verifC24Tuple) spoint() base.StagePoint {
	return base.NewStagePoint(base.RawPoint(t.h, t.r), t.stage)
}

func verifC24Stage(name string) base.Stage {
	if verifrt.NondetChoice(name, 2) == 1 {
		return base.StageACCEPT
	}
	return base.StageINIT
}

// verifC24Tuples: m pairwise distinct valid (stage point, suffrage-confirm flag) tuples with
// symbolic height and round.
func verifC24Tuples(m int) []verifC24Tuple {
	ts := make([]verifC24Tuple, m)
	for i := range ts {
		h := int64(verifrt.NondetU64("height"))
		r := verifrt.NondetU64("round")
		verifrt.Assume(h >= 0)
		// valid points only (Ballot() validates the point): round 0 at the genesis height
		verifrt.Assume(uint64(h)|verifC24IsZero(r) != 0)
		ts[i] = verifC24Tuple{h: h, r: r, stage: verifC24Stage("stage"), sc: verifrt.NondetChoice("sc", 2) == 1}
		for j := 0; j < i; j++ {
			if ts[j].stage == ts[i].stage && ts[j].sc == ts[i].sc {
				verifrt.Assume(uint64(ts[j].h^h)|(ts[j].r^r) != 0)
			}
		}
	}
	return ts
}

// VerifC24BallotSeq: a sequence of SetBallot over a few (stage point, flag) tuples, then lookups.
func VerifC24BallotSeq() {
	db, _ := verifC24Pool()
	m := verifrt.Bound("tuples", 2, 3)
	n := verifrt.Bound("sets", 3, 4)
	ts := verifC24Tuples(m)
	first := make([]int, m) // id of the first ballot stored per tuple
	for i := range first {
		first[i] = -1
	}
	used := 0
	for i := 0; i < n; i++ {
		c := used + 1
		if c > m {
			c = m
		}
		t := verifrt.NondetChoice("tuple", c)
		if t == used {
			used++
		}
		bl := &verifC24Ballot{id: i, point: ts[t].spoint(), sc: ts[t].sc}
		added, err := db.SetBallot(bl)
		verifrt.Assert(err == nil, "C24.ballot.set-no-error")
		if first[t] < 0 {
			verifrt.Assert(added, "C24.ballot.first-ballot-of-a-(stage-point,flag)-is-stored")
			first[t] = i
		} else {
			verifrt.Reach("C24.ballot.second-writer")
			verifrt.Assert(!added, "C24.ballot.later-ballot-of-the-same-(stage-point,flag)-is-not-stored")
		}
	}
	for t := range ts {
		bl, found, err := db.Ballot(ts[t].spoint().Point, ts[t].stage, ts[t].sc)
		verifrt.Assert(err == nil, "C24.ballot.lookup-no-error")
		if first[t] < 0 {
			verifrt.Reach("C24.ballot.lookup-of-unset-tuple")
			verifrt.Assert(!found, "C24.ballot.nothing-found-for-a-(stage-point,flag)-never-stored")
			continue
		}
		verifrt.Reach("C24.ballot.lookup-of-set-tuple")
		verifrt.Assert(found, "C24.ballot.keeps-the-first-ballot-stored")
		if found {
			b, ok := bl.(*verifC24Ballot)
			verifrt.Assert(ok && b.id == first[t], "C24.ballot.returns-the-first-ballot-unchanged")
		}
	}
}

// ---- harness proposal ----

type verifC24Addr []byte

func (a verifC24Addr) String() string       { return "verif-address" }
func (a verifC24Addr) Bytes() []byte        { return []byte(a) }
func (a verifC24Addr) IsValid([]byte) error { return nil }
func (a verifC24Addr) Equal(b base.Address) bool {
	return b != nil && bytes.Equal(a, b.Bytes())
}

type verifC24ProposalFact struct {
	base.ProposalFact // not used: the pool only reads the methods below
	idx               int
	h                 util.Hash
	point             base.Point
	proposer          verifC24Addr
	prev              util.Hash
}

func (f *verifC24ProposalFact) Hash() util.Hash          { return f.h }
func (f *verifC24ProposalFact) Point() base.Point        { return f.point }
func (f *verifC24ProposalFact) Proposer() base.Address   { return f.proposer }
func (f *verifC24ProposalFact) PreviousBlock() util.Hash { return f.prev }
func (f *verifC24ProposalFact) IsValid([]byte) error     { return nil }

type verifC24Proposal struct {
	base.ProposalSignFact // not used: the pool only reads the methods below
	id                    int
	fact                  *verifC24ProposalFact
}

func (p *verifC24Proposal) Fact() base.Fact                 { return p.fact }
func (p *verifC24Proposal) ProposalFact() base.ProposalFact { return p.fact }
func (p *verifC24Proposal) Point() base.Point               { return p.fact.point }
func (p *verifC24Proposal) IsValid([]byte) error            { return nil }

// sameTriple is 1 when two facts have the same (point, proposer, previous block), else 0 (branch-free).
func verifC24SameTriple(a, b *verifC24ProposalFact) uint64 {
	d := uint64(a.point.Height()^b.point.Height()) | uint64(a.point.Round()^b.point.Round()) |
		uint64(a.proposer[0]^b.proposer[0]) | uint64(a.prev.Bytes()[0]^b.prev.Bytes()[0])
	return verifC24IsZero(d)
}

// verifC24IsZero is 1 for x == 0 and 0 otherwise (branch-free, any 64-bit x).
func verifC24IsZero(x uint64) uint64 {
	return (((x >> 1) | (x & 1)) - 1) >> 63
}

// VerifC24ProposalSeq: a sequence of SetProposal over a few facts, then lookups by hash and by point.
func VerifC24ProposalSeq() {
	db, _ := verifC24Pool()
	m := verifrt.Bound("facts", 2, 3)
	n := verifrt.Bound("sets", 3, 4)
	facts := make([]*verifC24ProposalFact, m)
	for i := range facts {
		h := int64(verifrt.NondetU64("height"))
		verifrt.Assume(h >= 0)
		hb := verifrt.NondetBytes("facthash", 1)
		for j := 0; j < i; j++ {
			verifrt.Assume(hb[0] != facts[j].h.Bytes()[0])
		}
		facts[i] = &verifC24ProposalFact{
			idx:      i,
			h:        valuehash.NewBytes(hb),
			point:    base.RawPoint(h, verifrt.NondetU64("round")),
			proposer: verifC24Addr(verifrt.NondetBytes("proposer", 1)),
			prev:     valuehash.NewBytes(verifrt.NondetBytes("previous", 1)),
		}
	}
	first := make([]int, m)
	for i := range first {
		first[i] = -1
	}
	used := 0
	for i := 0; i < n; i++ {
		c := used + 1
		if c > m {
			c = m
		}
		t := verifrt.NondetChoice("fact", c)
		if t == used {
			used++
		}
		added, err := db.SetProposal(&verifC24Proposal{id: i, fact: facts[t]})
		verifrt.Assert(err == nil, "C24.proposal.set-no-error")
		if first[t] < 0 {
			verifrt.Assert(added, "C24.proposal.first-proposal-of-a-fact-is-stored")
			first[t] = i
		} else {
			verifrt.Reach("C24.proposal.second-writer")
			verifrt.Assert(!added, "C24.proposal.later-proposal-of-the-same-fact-is-not-stored")
		}
	}
	for t := range facts {
		pr, found, err := db.Proposal(facts[t].h)
		verifrt.Assert(err == nil, "C24.proposal.lookup-no-error")
		if first[t] < 0 {
			verifrt.Assert(!found, "C24.proposal.nothing-found-for-a-fact-never-stored")
		} else {
			verifrt.Assert(found, "C24.proposal.keeps-the-first-proposal-of-a-fact")
			if found {
				p, ok := pr.(*verifC24Proposal)
				verifrt.Assert(ok && p.id == first[t], "C24.proposal.keeps-the-first-proposal-of-a-fact")
			}
		}

		// by (point, proposer, previous block) of fact t
		var stored uint64 // 1 when some stored fact has this triple
		for u := range facts {
			if first[u] >= 0 {
				stored |= verifC24SameTriple(facts[t], facts[u])
			}
		}
		pr, found, err = db.ProposalByPoint(facts[t].point, facts[t].proposer, facts[t].prev)
		verifrt.Assert(err == nil, "C24.proposal.lookup-by-point-no-error")
		if !found {
			verifrt.Reach("C24.proposal.by-point-not-found")
			verifrt.Assert(stored == 0, "C24.proposal.lookup-by-point-finds-the-stored-proposal")
			continue
		}
		verifrt.Reach("C24.proposal.by-point-found")
		if first[t] < 0 {
			verifrt.Reach("C24.proposal.by-point-found-through-another-fact-with-the-same-point-proposer-previous-block")
		}
		verifrt.Assert(stored == 1, "C24.proposal.lookup-by-point-finds-only-stored-proposals")
		p, ok := pr.(*verifC24Proposal)
		verifrt.Assert(ok, "C24.proposal.lookup-by-point-returns-a-stored-proposal")
		if ok {
			verifrt.Assert(first[p.fact.idx] == p.id, "C24.proposal.lookup-by-point-returns-that-same-(first)-proposal")
			verifrt.Assert(verifC24SameTriple(p.fact, facts[t]) == 1, "C24.proposal.lookup-by-point-returns-a-proposal-of-that-point-proposer-previous-block")
		}
	}
}

// verifC24Max is max(a,b) of two non-negative values without a branch.
func verifC24Max(a, b int64) int64 {
	lt := uint64(a-b) >> 63 // 1 when a < b
	return a ^ ((a ^ b) & -int64(lt))
}

// VerifC24Clean: cleanBallots / cleanProposals (what the pool's periodic cleaning calls) remove
// only entries at least cleanRemoved...Deep (3) below the newest stored height.
func VerifC24Clean() {
	db, _ := verifC24Pool()
	n := 1 + verifrt.NondetChoice("entries", verifrt.Bound("clean_entries", 3, 4))
	hs := make([]int64, n)
	top := int64(0)
	for i := range hs {
		hs[i] = int64(verifrt.NondetU64("height"))
		verifrt.Assume(hs[i] >= 0)
		top = verifC24Max(top, hs[i])
	}
	deep := int64(3)
	verifrt.Assert(db.cleanRemovedBallotDeep == 3 && db.cleanRemovedProposalDeep == 3, "C24.harness.configured-depth-is-3")

	if verifrt.NondetChoice("pool", 2) == 0 {
		// ballots: entry i has the i-th (stage, flag) combination, round 0
		ts := make([]verifC24Tuple, n)
		for i := range ts {
			st := base.StageINIT
			if i&1 == 1 {
				st = base.StageACCEPT
			}
			ts[i] = verifC24Tuple{h: hs[i], r: 0, stage: st, sc: i&2 == 2}
			added, err := db.SetBallot(&verifC24Ballot{id: i, point: ts[i].spoint(), sc: ts[i].sc})
			verifrt.Assert(err == nil && added, "C24.harness.clean.ballot-stored")
		}
		_, err := db.cleanBallots()
		verifrt.Reach("C24.clean.ballots-cleaned")
		verifrt.Assert(err == nil, "C24.clean.no-error")
		for i := range ts {
			bl, found, err := db.Ballot(ts[i].spoint().Point, ts[i].stage, ts[i].sc)
			verifrt.Assert(err == nil, "C24.clean.lookup-no-error")
			if !found {
				verifrt.Reach("C24.clean.ballot-removed")
				verifrt.Assert(top-hs[i] >= deep, "C24.clean.removes-only-ballots-at-least-the-configured-depth-below-the-newest-height")
				continue
			}
			verifrt.Reach("C24.clean.ballot-kept")
			b, ok := bl.(*verifC24Ballot)
			verifrt.Assert(ok && b.id == i, "C24.clean.kept-ballot-unchanged")
		}
		return
	}

	// proposals: fact i has hash {i}, proposer {1}, previous block {2}, round i
	facts := make([]*verifC24ProposalFact, n)
	for i := range facts {
		facts[i] = &verifC24ProposalFact{
			idx: i, h: valuehash.NewBytes([]byte{byte(i)}),
			point:    base.RawPoint(hs[i], uint64(i)),
			proposer: verifC24Addr{1}, prev: valuehash.NewBytes([]byte{2}),
		}
		added, err := db.SetProposal(&verifC24Proposal{id: i, fact: facts[i]})
		verifrt.Assert(err == nil && added, "C24.harness.clean.proposal-stored")
	}
	_, err := db.cleanProposals()
	verifrt.Reach("C24.clean.proposals-cleaned")
	verifrt.Assert(err == nil, "C24.clean.no-error")
	for i := range facts {
		pr, found, err := db.Proposal(facts[i].h)
		verifrt.Assert(err == nil, "C24.clean.lookup-no-error")
		pr2, found2, err := db.ProposalByPoint(facts[i].point, facts[i].proposer, facts[i].prev)
		verifrt.Assert(err == nil, "C24.clean.lookup-no-error")
		if !found || !found2 {
			verifrt.Reach("C24.clean.proposal-removed")
			verifrt.Assert(top-hs[i] >= deep, "C24.clean.removes-only-proposals-at-least-the-configured-depth-below-the-newest-height")
			continue
		}
		verifrt.Reach("C24.clean.proposal-kept")
		p, ok := pr.(*verifC24Proposal)
		verifrt.Assert(ok && p.id == i, "C24.clean.kept-proposal-unchanged")
		p2, ok := pr2.(*verifC24Proposal)
		verifrt.Assert(ok && p2.id == i, "C24.clean.kept-proposal-unchanged")
	}
}

// ---- concurrent writers ----

type verifC24Op struct {
	key int  // which (stage point, flag) / which fact
	id  int  // id of the ballot / proposal written
	ret bool // what Set... returned
}

// verifC24Linearizable: is there an interleaving of the two writers' operations under which a
// first-writer-wins map gives every operation's result and the final content?
func verifC24Linearizable(a, b []verifC24Op, state [2]int, final [2]int) bool {
	if len(a) == 0 && len(b) == 0 {
		return state == final
	}
	step := func(op verifC24Op, st [2]int) ([2]int, bool) {
		if st[op.key] < 0 {
			st[op.key] = op.id
			return st, op.ret
		}
		return st, !op.ret
	}
	if len(a) > 0 {
		if st, ok := step(a[0], state); ok && verifC24Linearizable(a[1:], b, st, final) {
			return true
		}
	}
	if len(b) > 0 {
		if st, ok := step(b[0], state); ok && verifC24Linearizable(a, b[1:], st, final) {
			return true
		}
	}
	return false
}

// VerifC24Concurrent: two writers, each a short sequence of SetBallot (or SetProposal) over two
// keys. Interleaving: either writer 1 runs to completion before writer 2, or writer 1 is held
// inside the encoder call of one of its operations until writer 2 has finished.
func VerifC24Concurrent() {
	db, enc := verifC24Pool()
	proposals := verifrt.NondetChoice("pool", 2) == 1
	per := verifrt.Bound("ops_per_writer", 1, 2)

	tuples := []verifC24Tuple{
		{h: 7, r: 1, stage: base.StageINIT, sc: false},
		{h: 7, r: 1, stage: base.StageINIT, sc: true},
	}
	facts := []*verifC24ProposalFact{
		{idx: 0, h: valuehash.NewBytes([]byte{0}), point: base.RawPoint(7, 1), proposer: verifC24Addr{1}, prev: valuehash.NewBytes([]byte{2})},
		{idx: 1, h: valuehash.NewBytes([]byte{1}), point: base.RawPoint(7, 2), proposer: verifC24Addr{1}, prev: valuehash.NewBytes([]byte{2})},
	}

	var w [2][]verifC24Op
	objs := map[int]interface{}{}
	for g := 0; g < 2; g++ {
		for i := 0; i < per; i++ {
			id := g*per + i
			key := 0
			if id > 0 {
				key = verifrt.NondetChoice("key", 2)
			}
			w[g] = append(w[g], verifC24Op{key: key, id: id})
			if proposals {
				objs[id] = &verifC24Proposal{id: id, fact: facts[key]}
			} else {
				objs[id] = &verifC24Ballot{id: id, point: tuples[key].spoint(), sc: tuples[key].sc}
			}
		}
	}
	// hold < per: writer 1 waits inside Marshal of its operation number `hold`; hold == per: no overlap
	hold := verifrt.NondetChoice("hold", per+1)

	inMarshal := make(chan struct{})
	resume := make(chan struct{})
	if hold < per {
		held := objs[w[0][hold].id]
		enc.hook = func(v interface{}) {
			if v == held {
				close(inMarshal)
				<-resume
			}
		}
	}
	run := func(g int, done chan struct{}) {
		for i := range w[g] {
			var ret bool
			var err error
			if proposals {
				ret, err = db.SetProposal(objs[w[g][i].id].(*verifC24Proposal))
			} else {
				ret, err = db.SetBallot(objs[w[g][i].id].(*verifC24Ballot))
			}
			verifrt.Assert(err == nil, "C24.concurrent.set-no-error")
			w[g][i].ret = ret
		}
		close(done)
	}
	done1, done2 := make(chan struct{}), make(chan struct{})
	go run(0, done1)
	reached := false
	if hold < per {
		// writer 1 may never reach the encoder for that operation (its key already stored)
		select {
		case <-inMarshal:
			reached = true
		case <-done1:
		}
	} else {
		<-done1
	}
	go run(1, done2)
	if reached {
		// Writer 2 runs while writer 1 is held. Should writer 2 have to wait for writer 1 (a pool
		// that serializes its writers), writer 1 is released after a while instead: under the
		// engine the timer fires only once every goroutine is blocked; natively writer 2 needs
		// microseconds, a missed overlap could only hide a failure, never produce one.
		verifrt.Reach("C24.concurrent.writer-2-started-while-writer-1-was-held")
		select {
		case <-done2:
			verifrt.Observe("C24.concurrent.writers-overlapped")
		case <-time.After(time.Second):
			verifrt.Observe("C24.concurrent.writer-2-waited-for-writer-1")
		}
		close(resume)
		<-done1
	}
	<-done2
	verifrt.Reach("C24.concurrent.returned")

	var final [2]int
	for k := 0; k < 2; k++ {
		final[k] = -1
		if proposals {
			pr, found, err := db.Proposal(facts[k].h)
			verifrt.Assert(err == nil, "C24.concurrent.lookup-no-error")
			if found {
				final[k] = pr.(*verifC24Proposal).id
			}
		} else {
			bl, found, err := db.Ballot(tuples[k].spoint().Point, tuples[k].stage, tuples[k].sc)
			verifrt.Assert(err == nil, "C24.concurrent.lookup-no-error")
			if found {
				final[k] = bl.(*verifC24Ballot).id
			}
		}
	}
	ok := verifC24Linearizable(w[0], w[1], [2]int{-1, -1}, final)
	if proposals {
		verifrt.Assert(ok, "C24.concurrent.proposal-pool-keeps-the-first-proposal-per-fact(results-match-some-order-of-the-calls)")
	} else {
		verifrt.Assert(ok, "C24.concurrent.ballot-pool-keeps-the-first-ballot-per-(stage-point,flag)(results-match-some-order-of-the-calls)")
	}
}
