package fixedtree

import (
	"bytes"

	"github.com/spikeekips/mitum/util/hint"
	"github.com/spikeekips/mitum/util/valuehash"
	"github.com/spikeekips/mitum/util/verifrt"
)

// C12 Merkle fixed tree commits to every node and proofs are sound.
//
// Hash model (engine): sha3.Sum256 is an injective function that never returns the zero
// digest (engine/symgo/ext_c12.go). Natively the real function runs, so every harness
// below derives its hashes by hashing (keys and substituted values are the only inputs).
//
// Oracle for "children": the tree is the array form of a complete binary tree, children
// of i are 2i+1 and 2i+2 (computed here with integer arithmetic, not with the
// math.Log/math.Pow helpers of the code under test).

var verifC12Hint = hint.MustNewHint("verif-tree-v0.0.1")

// verifC12Hash: what a node's hash has to be: H(key || left hash || right hash), absent children omitted.
func verifC12Hash(key string, l, r []byte) valuehash.L32 {
	b := make([]byte, 0, len(key)+len(l)+len(r))
	b = append(b, key...)
	b = append(b, l...)
	b = append(b, r...)
	return valuehash.NewSHA256(b)
}

func verifC12L32(b []byte) valuehash.L32 {
	var a valuehash.L32
	copy(a[:], b)
	return a
}

// verifC12Keys: n non-empty keys of 1..2 symbolic bytes (one length per tree; substituted keys
// choose their length on their own), pairwise distinct if asked.
func verifC12Keys(n int, distinct bool) []string {
	return verifC12KeysL(n, distinct, 2)
}

func verifC12KeysL(n int, distinct bool, lens int) []string {
	klen := 1 + verifrt.NondetChoice("keylen", lens)
	keys := make([]string, n)
	for i := range keys {
		keys[i] = verifrt.NondetString("key", klen)
		if distinct {
			for j := 0; j < i; j++ {
				verifrt.Assume(keys[i] != keys[j])
			}
		}
	}
	return keys
}

// verifC12ConcreteKeys: n distinct concrete 2-byte keys (large trees: the shape is the subject).
func verifC12ConcreteKeys(n int) []string {
	keys := make([]string, n)
	for i := range keys {
		keys[i] = string([]byte{byte(1 + i/250), byte(1 + i%250)})
	}
	return keys
}

func verifC12OtherKey(old string) string {
	k := verifrt.NondetString("newkey", 1+verifrt.NondetChoice("newkeylen", 2))
	verifrt.Assume(k != old)
	return k
}

func verifC12OtherHash(old []byte) valuehash.L32 {
	b := verifrt.NondetBytes("newhash", 32)
	verifrt.Assume(!bytes.Equal(b, old))
	return verifC12L32(b)
}

// verifC12Build builds the tree over keys through the real Writer.
func verifC12Build(keys []string) Tree {
	w, err := NewWriter(verifC12Hint, uint64(len(keys)))
	verifrt.Assert(err == nil, "C12.harness.writer")
	for i := range keys {
		verifrt.Assert(w.Add(uint64(i), NewBaseNode(keys[i])) == nil, "C12.harness.add")
	}
	tr, err := w.Tree()
	verifrt.Assert(err == nil, "C12.writer-builds-a-tree-from-non-empty-keys")
	return tr
}

// verifC12Size picks the tree size: 1..N, or (thorough) one of the listed larger sizes.
func verifC12Size(boundName string, quick, thorough int) int {
	return 1 + verifrt.NondetChoice("size", verifrt.Bound(boundName, quick, thorough))
}

// ---------------------------------------------------------------------------------------
// VerifC12TreeIsValid: EVERY tree of n nodes: each node's hash is either what its key and
// children demand or any other 256-bit value. Tree.IsValid accepts exactly the trees in
// which no node deviates.
func VerifC12TreeIsValid() {
	n := verifC12Size("treesize", 5, 8)
	maxbad := verifrt.Bound("maxwrong", 5, 2)
	keys := verifC12Keys(n, false)
	nodes := make([]Node, n)
	hs := make([][]byte, n)
	nbad := 0
	for i := n - 1; i >= 0; i-- {
		var l, r []byte
		if 2*i+1 < n {
			l = hs[2*i+1]
		}
		if 2*i+2 < n {
			r = hs[2*i+2]
		}
		h := verifC12Hash(keys[i], l, r)
		if nbad < maxbad && verifrt.NondetChoice("wrong", 2) == 1 {
			h = verifC12OtherHash(h[:])
			nbad++
		}
		hs[i] = h.Bytes()
		nodes[i] = BaseNode{key: keys[i], h: h}
	}
	tr, err := NewTree(verifC12Hint, nodes)
	verifrt.Assert(err == nil, "C12.harness.newtree")
	err = tr.IsValid(nil)
	verifrt.Reach("C12.tree.isvalid-returned")
	if nbad > 0 {
		verifrt.Reach("C12.tree.some-node-deviates")
		verifrt.Assert(err != nil, "C12.tree-validates-only-if-every-node's-hash-matches-its-key-and-children")
	} else {
		verifrt.Reach("C12.tree.every-node-matches")
		// the other direction, so that a validator that rejects everything is noticed
		verifrt.Assert(err == nil, "C12.tree-in-which-every-node-matches-validates")
	}
}

// VerifC12TreeMutation: a tree built by the Writer validates; the same tree with one key or one
// hash replaced by a different value does not; building with one key replaced changes the root.
func VerifC12TreeMutation() {
	n := verifC12Size("mutsize", 5, 9)
	keys := verifC12Keys(n, false)
	tr := verifC12Build(keys)
	verifrt.Assert(tr.Len() == n, "C12.harness.tree-size")
	verifrt.Assert(tr.IsValid(nil) == nil, "C12.writer-built-tree-validates")
	m := verifrt.NondetChoice("node", n)
	old := tr.Node(uint64(m))
	nodes := make([]Node, n)
	copy(nodes, tr.Nodes())
	switch verifrt.NondetChoice("field", 2) {
	case 0:
		nk := verifC12OtherKey(old.Key())
		nodes[m] = BaseNode{key: nk, h: old.Hash()}
		mt, err := NewTree(verifC12Hint, nodes)
		verifrt.Assert(err == nil, "C12.harness.newtree")
		verifrt.Reach("C12.mutation.key")
		verifrt.Assert(mt.IsValid(nil) != nil, "C12.changing-any-key-in-the-tree-makes-validation-fail")
		// rebuilt with the changed key: another root
		keys2 := make([]string, n)
		copy(keys2, keys)
		keys2[m] = nk
		tr2 := verifC12Build(keys2)
		verifrt.Reach("C12.mutation.rebuilt")
		verifrt.Assert(!tr2.Root().Equal(tr.Root()), "C12.root-changes-whenever-any-node's-key-changes")
	case 1:
		nodes[m] = BaseNode{key: old.Key(), h: verifC12OtherHash(old.Hash().Bytes())}
		mt, err := NewTree(verifC12Hint, nodes)
		verifrt.Assert(err == nil, "C12.harness.newtree")
		verifrt.Reach("C12.mutation.hash")
		verifrt.Assert(mt.IsValid(nil) != nil, "C12.changing-any-hash-in-the-tree-makes-validation-fail")
	}
}

// VerifC12ProofComplete: for every key of a valid tree the extracted proof verifies.
// Keys are pairwise distinct (Proof.IsValid demands distinct keys; the users of the tree key
// nodes by fact/state hashes).
func VerifC12ProofComplete() {
	n := verifC12Size("proofsize", 6, 12)
	keys := verifC12Keys(n, true)
	tr := verifC12Build(keys)
	k := verifrt.NondetChoice("proved", n)
	p, err := tr.Proof(keys[k])
	verifrt.Assert(err == nil, "C12.proof-extracts-for-every-key-of-a-valid-tree")
	if err != nil {
		return
	}
	verifrt.Reach("C12.proof.extracted")
	verifrt.Assert(p.Prove(keys[k]) == nil, "C12.for-every-key-in-a-valid-tree-the-extracted-proof-verifies")
	// the last node of the proof is the root of the tree
	verifrt.Assert(p.Nodes()[len(p.Nodes())-1].Hash().Equal(tr.Root()), "C12.extracted-proof-ends-at-the-tree-root")
	if n <= verifrt.Bound("proofisvalidsize", 5, 7) {
		verifrt.Assert(p.IsValid(nil) == nil, "C12.extracted-proof-is-wellformed")
		verifrt.Reach("C12.proof.wellformed")
	}
}

// VerifC12ProofShapes: the same for larger trees with concrete keys: sizes around powers of two
// (non-full last levels), every k-th key.
func VerifC12ProofShapes() {
	sizes := []int{15, 16, 17}
	if verifrt.Bound("bigshapes", 0, 1) == 1 {
		sizes = append(sizes, 31, 32, 33, 63, 64, 65)
	}
	n := sizes[verifrt.NondetChoice("shape", len(sizes))]
	keys := verifC12ConcreteKeys(n)
	tr := verifC12Build(keys)
	verifrt.Assert(tr.IsValid(nil) == nil, "C12.writer-built-tree-validates")
	verifrt.Reach("C12.shapes.valid")
	// every key of the last two levels' boundary and a stride over the rest
	stride := verifrt.Bound("stride", 3, 1)
	for k := 0; k < n; k++ {
		if k%stride != 0 && k < n-4 {
			continue
		}
		p, err := tr.Proof(keys[k])
		verifrt.Assert(err == nil, "C12.proof-extracts-for-every-key-of-a-valid-tree")
		if err != nil {
			return
		}
		verifrt.Assert(p.Prove(keys[k]) == nil, "C12.for-every-key-in-a-valid-tree-the-extracted-proof-verifies")
	}
	verifrt.Reach("C12.shapes.proved")
}

// verifC12PathPos: position, inside the proof extracted for tree index idx, of the node
// `level` steps above idx (level 0 = the proved node itself).
func verifC12PathPos(idx, level int) int {
	l := idx
	for t := 0; t < level; t++ {
		l = (l - 1) / 2
	}
	if l == 0 {
		// the root is the last node of the proof; the proof has 2*(height+1)+1 nodes
		h := 0
		for x := idx; x > 0; x = (x - 1) / 2 {
			h++
		}
		return 2 * (h + 1)
	}
	pos := 2 * (level + 1)
	if l%2 == 0 {
		pos++ // right child
	}
	return pos
}

// VerifC12ProofMutation: a proof extracted from a valid tree, with ONE node's key or hash
// replaced by a different value.
//
//   * any hash: the changed proof must not pass (Proof.IsValid or Prove(key) fails).
//   * the key of a node on the authenticated path (the proved node and its ancestors up to the
//     root): the changed proof must not pass; for the proved node this is asked for the key the
//     proof now carries (a verifier asks "is this key in the tree?") as well as for the old key.
//   * the key of a node beside the path (siblings, children of the proved node): only its hash
//     enters the verification, as in every Merkle path; the clause is read as "any key the proof
//     authenticates" (weaker reading), and the insensitivity is recorded with a Reach witness.
func VerifC12ProofMutation() {
	n := verifC12Size("pmutsize", 4, 7)
	keys := verifC12KeysL(n, true, verifrt.Bound("pmutkeylens", 1, 2))
	tr := verifC12Build(keys)
	k := verifrt.NondetChoice("proved", n)
	key := keys[k]
	p, err := tr.Proof(key)
	verifrt.Assert(err == nil, "C12.proof-extracts-for-every-key-of-a-valid-tree")
	if err != nil {
		return
	}
	pn := p.Nodes()
	j := verifrt.NondetChoice("position", len(pn))
	verifrt.Assume(!pn[j].IsEmpty())
	height := 0
	for x := k; x > 0; x = (x - 1) / 2 {
		height++
	}
	onpath := -1
	for t := 0; t <= height; t++ {
		if verifC12PathPos(k, t) == j {
			onpath = t
		}
	}
	verifrt.Assert(pn[verifC12PathPos(k, 0)].Key() == key, "C12.harness.proved-node-position")
	nodes := make([]Node, len(pn))
	copy(nodes, pn)
	if verifrt.NondetChoice("field", 2) == 1 {
		nodes[j] = BaseNode{key: pn[j].Key(), h: verifC12OtherHash(pn[j].Hash().Bytes())}
		q := NewProof(nodes)
		verifrt.Reach("C12.pmut.hash")
		if q.Prove(key) == nil {
			verifrt.Assert(q.IsValid(nil) != nil, "C12.changing-any-hash-in-a-proof-makes-validation-or-proof-verification-fail")
		}
		return
	}
	nk := verifC12OtherKey(pn[j].Key())
	nodes[j] = BaseNode{key: nk, h: pn[j].Hash()}
	q := NewProof(nodes)
	switch {
	case onpath == 0:
		// the verifier still asks for the old key (the new key: VerifC12ProofKeyBinding)
		verifrt.Reach("C12.pmut.key-of-proved-node")
		if q.Prove(key) == nil {
			verifrt.Assert(q.IsValid(nil) != nil, "C12.changing-the-proved-key-in-a-proof-makes-verification-of-the-old-key-fail")
		}
	case onpath > 0:
		verifrt.Reach("C12.pmut.key-of-ancestor")
		if q.Prove(key) == nil {
			verifrt.Assert(q.IsValid(nil) != nil, "C12.changing-an-ancestor's-key-in-a-proof-makes-validation-or-proof-verification-fail")
		}
	default:
		verifrt.Reach("C12.pmut.key-beside-the-path")
		if q.Prove(key) == nil && q.IsValid(nil) == nil {
			verifrt.Reach("C12.observed.key-beside-the-path-is-not-authenticated")
		}
	}
}

// VerifC12ProofKeyBinding: a proof extracted from a valid tree for key K; the key of the proved
// node is replaced by another key K2 (hash untouched). The changed proof must not verify for K2:
// "proofs are sound" = Prove(K2) only passes if the node that carries K2 hashes to its hash.
func VerifC12ProofKeyBinding() {
	n := verifC12Size("bindsize", 4, 9)
	keys := verifC12Keys(n, true)
	tr := verifC12Build(keys)
	k := verifrt.NondetChoice("proved", n)
	p, err := tr.Proof(keys[k])
	verifrt.Assert(err == nil, "C12.proof-extracts-for-every-key-of-a-valid-tree")
	if err != nil {
		return
	}
	pn := p.Nodes()
	j := verifC12PathPos(k, 0)
	verifrt.Assert(pn[j].Key() == keys[k], "C12.harness.proved-node-position")
	nk := verifC12OtherKey(keys[k])
	if verifrt.Bound("bindfresh", 1, 1) == 1 {
		// a key that no node of the tree carries
		for i := range keys {
			verifrt.Assume(nk != keys[i])
		}
	}
	nodes := make([]Node, len(pn))
	copy(nodes, pn)
	nodes[j] = BaseNode{key: nk, h: pn[j].Hash()}
	q := NewProof(nodes)
	verifrt.Reach("C12.bind.changed")
	if q.Prove(nk) == nil {
		verifrt.Assert(q.IsValid(nil) != nil, "C12.changing-the-proved-key-in-a-proof-makes-validation-or-proof-verification-fail(a-key-no-node-of-the-tree-carries-must-not-be-proved)")
	}
}


// VerifC12LongKeys: the same commitments for long keys (the hash preimage is key || left || right,
// whatever the key length): a tree of 3 nodes whose keys are 70 / 100 / 130 bytes (thorough: also
// 200) long, with one symbolic byte somewhere in the key of one node (first, middle, last byte).
// Changing that byte changes the root; putting the changed key into the valid tree (hash kept)
// makes validation fail.
func VerifC12LongKeys() {
	lens := []int{70, 100, 130, 200}
	klen := lens[verifrt.NondetChoice("keylen", verifrt.Bound("longkeylens", 3, 4))]
	n := 3
	m := verifrt.NondetChoice("node", n)
	pos := []int{0, klen / 2, klen - 1}[verifrt.NondetChoice("byte", 3)]
	mk := func(node int, b byte) string {
		k := make([]byte, klen)
		for i := range k {
			k[i] = byte('a' + (i+node)%23)
		}
		k[0] = byte('A' + node) // keys of different nodes differ
		if node == m {
			k[pos] = b
		}
		return string(k)
	}
	b1 := verifrt.NondetU8("b1")
	b2 := verifrt.NondetU8("b2")
	verifrt.Assume(b1 != b2)
	verifrt.Assume(b1 >= 'a' && b1 <= 'z' && b2 >= 'a' && b2 <= 'z')
	keys1 := []string{mk(0, b1), mk(1, b1), mk(2, b1)}
	keys2 := []string{mk(0, b2), mk(1, b2), mk(2, b2)}
	t1 := verifC12Build(keys1)
	t2 := verifC12Build(keys2)
	verifrt.Reach("C12.longkeys.built")
	verifrt.Assert(t1.IsValid(nil) == nil && t2.IsValid(nil) == nil, "C12.writer-built-tree-validates")
	verifrt.Assert(!t1.Root().Equal(t2.Root()), "C12.root-changes-whenever-any-node's-key-changes(long-keys)")
	nodes := make([]Node, n)
	copy(nodes, t1.Nodes())
	nodes[m] = BaseNode{key: keys2[m], h: t1.Node(uint64(m)).Hash()}
	mt, err := NewTree(verifC12Hint, nodes)
	verifrt.Assert(err == nil, "C12.harness.newtree")
	verifrt.Assert(mt.IsValid(nil) != nil, "C12.changing-any-key-in-the-tree-makes-validation-fail(long-keys)")
	// the proof of a long key verifies, and not for the changed key
	p, err := t1.Proof(keys1[m])
	verifrt.Assert(err == nil && p.Prove(keys1[m]) == nil, "C12.for-every-key-in-a-valid-tree-the-extracted-proof-verifies(long-keys)")
}

// VerifC12ValidateMutateValidate: validation is about the tree as it is NOW: a tree that validated,
// then had one node replaced through Tree.Set (key or hash changed), does not validate any more —
// also not a copy of the Tree value taken before the change.
func VerifC12ValidateMutateValidate() {
	n := verifC12Size("vmvsize", 3, 5)
	keys := verifC12Keys(n, false)
	tr := verifC12Build(keys)
	cp := tr // a copy of the value (shares the nodes)
	verifrt.Assert(tr.IsValid(nil) == nil, "C12.writer-built-tree-validates")
	m := verifrt.NondetChoice("node", n)
	old := tr.Node(uint64(m))
	var nn Node
	if verifrt.NondetChoice("field", 2) == 0 {
		nn = BaseNode{key: verifC12OtherKey(old.Key()), h: old.Hash()}
	} else {
		nn = BaseNode{key: old.Key(), h: verifC12OtherHash(old.Hash().Bytes())}
	}
	verifrt.Assert(tr.Set(uint64(m), nn) == nil, "C12.harness.set")
	verifrt.Reach("C12.vmv.mutated")
	verifrt.Assert(tr.IsValid(nil) != nil, "C12.changing-any-key-or-hash-in-the-tree-makes-validation-fail(after-an-earlier-successful-validation)")
	verifrt.Assert(cp.IsValid(nil) != nil, "C12.changing-any-key-or-hash-in-the-tree-makes-validation-fail(seen-through-a-copy-of-the-tree-value)")
}
