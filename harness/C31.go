package hint

import (
	"github.com/spikeekips/mitum/util"
	"github.com/spikeekips/mitum/util/verifrt"
)

// C31 Hint strings are an unambiguous encoding.

var verifC31Versions = []string{"v0.0.1", "v1.2.3", "v2.0.0", "v10.20.30", "v1.0.0-rc1", "v3.1.4-alpha.1", "v2.0.0-v2"}

func verifC31Version(name string) util.Version {
	s := verifC31Versions[verifrt.NondetChoice(name, len(verifC31Versions))]
	v, err := util.ParseVersion(s)
	verifrt.Assert(err == nil, "C31.harness.version-parses")
	return v
}

// verifC31Type: an arbitrary valid type of 2..L bytes (every byte symbolic, validity
// decided by the real Type.IsValid and its regular expression).
func verifC31Type(name string, L int) Type {
	n := 2 + verifrt.NondetChoice(name+".len", L-1)
	t := Type(verifrt.NondetString(name, n))
	verifrt.Assume(t.IsValid(nil) == nil)
	return t
}

// VerifC31RoundTrip: NewHint(t, v).String() parses back (EnsureParseHint, ParseHint,
// UnmarshalText) to the same type and version; whatever is parsed and valid is the
// hint that was printed.
func VerifC31RoundTrip() {
	t := verifC31Type("type", verifrt.Bound("typelen", 6, 8))
	v := verifC31Version("version")
	ht := NewHint(t, v)
	verifrt.Assert(ht.IsValid(nil) == nil, "C31.hint-of-valid-type-and-version-is-valid")
	s := ht.String()
	got := EnsureParseHint(s)
	verifrt.Reach("C31.roundtrip.parsed")
	same := got.Type() == t && got.Version().String() == v.String()
	if got.IsValid(nil) == nil {
		verifrt.Assert(same, "C31.parsing-never-returns-a-valid-hint-that-differs-from-the-printed-one")
	}
	verifrt.Assert(same, "C31.printed-hint-parses-back-to-the-same-type-and-version")
	verifrt.Assert(got.Equal(ht) && got.String() == s, "C31.parsed-hint-equals-and-prints-the-same")
	var u Hint
	verifrt.Assert(u.UnmarshalText(ht.Bytes()) == nil && u.Type() == t && u.Version().String() == v.String(), "C31.text-unmarshal-gives-the-same-hint")
}

// VerifC31ParseHint: the cached, validating parser on the printed string.
func VerifC31ParseHint() {
	t := verifC31Type("type", verifrt.Bound("ptypelen", 4, 6))
	v := verifC31Version("version")
	ht := NewHint(t, v)
	got, err := ParseHint(ht.String())
	verifrt.Reach("C31.parsehint.returned")
	verifrt.Assert(err == nil, "C31.parsehint.accepts-printed-hint")
	if err == nil {
		verifrt.Assert(got.Type() == t && got.Version().String() == v.String(), "C31.parsehint.same-type-and-version")
	}
	// second call is served from the cache and must agree
	got2, err2 := ParseHint(ht.String())
	verifrt.Assert((err2 == nil) == (err == nil) && got2.Equal(got), "C31.parsehint.cache-agrees")
}

// ---- compatible set against a cache-free model ------------------------------

type verifC31Reg struct {
	t     int
	major uint64
	ver   util.Version
	val   int
}

// VerifC31CompatibleSet: histories of Add / Find / FindBytType on a CompatibleSet
// (with its lookup cache) compared with a cache-free model: lookup by hint finds the
// entry of the same type and major version with the highest version registered so far.
func VerifC31CompatibleSet() {
	types := []Type{"alpha-type", "beta-type"}
	vers := []string{"v1.0.5", "v1.2.0", "v2.0.1", "v1.2.0-rc1"}[:verifrt.Bound("setversions", 3, 4)]
	st := NewCompatibleSet[int](8)
	var regs []verifC31Reg
	nops := verifrt.Bound("ops", 4, 4)
	for i := 0; i < nops; i++ {
		ti := verifrt.NondetChoice("type", len(types))
		v := util.MustNewVersion(vers[verifrt.NondetChoice("version", len(vers))])
		ht := NewHint(types[ti], v)
		idx := -1
		for j := range regs {
			if regs[j].t == ti && regs[j].major == v.Major() {
				idx = j
			}
		}
		// the first operation is an Add and the last one a lookup (other histories are prefixes/extensions of these)
		op := 0
		switch {
		case i == 0:
		case i == nops-1:
			op = 1 + verifrt.NondetChoice("op", 2)
		default:
			op = verifrt.NondetChoice("op", 3)
		}
		switch op {
		case 0: // Add
			err := st.Add(ht, 100+i)
			switch {
			case idx < 0:
				verifrt.Assert(err == nil, "C31.set.add-new-type-or-major-succeeds")
				regs = append(regs, verifC31Reg{t: ti, major: v.Major(), ver: v, val: 100 + i})
			case regs[idx].ver.Compare(v) == 0:
				verifrt.Assert(err != nil, "C31.set.adding-the-same-hint-twice-is-an-error")
			default:
				verifrt.Assert(err == nil, "C31.set.add-other-version-succeeds")
				if v.Compare(regs[idx].ver) > 0 {
					regs[idx].ver, regs[idx].val = v, 100+i
				}
			}
		case 1: // Find
			got, found := st.Find(ht)
			verifrt.Reach("C31.set.find")
			verifrt.Assert(found == (idx >= 0), "C31.set.find-finds-exactly-registered-type-and-major")
			if found && idx >= 0 {
				verifrt.Assert(got == regs[idx].val, "C31.set.find-returns-entry-with-highest-registered-version")
			}
		case 2: // FindBytType: highest version of the type
			ght, got, found := st.FindBytType(types[ti])
			best := -1
			for j := range regs {
				if regs[j].t == ti && (best < 0 || regs[j].ver.Compare(regs[best].ver) > 0) {
					best = j
				}
			}
			verifrt.Assert(found == (best >= 0), "C31.set.findbytype-finds-exactly-registered-types")
			if found && best >= 0 {
				verifrt.Assert(got == regs[best].val && ght.Version().Compare(regs[best].ver) == 0, "C31.set.findbytype-returns-highest-version-of-type")
			}
		}
	}
}
