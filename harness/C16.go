package isaacblock

import (
	"time"

	"github.com/spikeekips/mitum/base"
	"github.com/spikeekips/mitum/isaac"
	"github.com/spikeekips/mitum/util"
	"github.com/spikeekips/mitum/util/encoder"
	"github.com/spikeekips/mitum/util/fixedtree"
	"github.com/spikeekips/mitum/util/hint"
	"github.com/spikeekips/mitum/util/valuehash"
	"github.com/spikeekips/mitum/util/verifrt"
)

// C16 Imported blocks are consistent with their manifest - the kernel.
//
// Code under test (all real): base.IsValidVoteproofsWithManifest, IsValidStatesTreeWithManifest,
// IsValidOperationsTreeWithManifest, IsValidProposalWithManifest, driven the way
// isaacblock.IsValidBlockFromLocalFS (the repository's own block validator) and
// BlockImporter.importVoteproofs drive them: IsValidStatesOfBlock / IsValidOperationsOfBlock /
// isValidVoteproofsFromLocalFS are the real callers used here, so every precondition the
// validator establishes first (Tree.IsValid, Voteproof.IsValid(networkID), State.IsValid) holds.
//
// World: the real isaac.Manifest, real isaac INIT/ACCEPT voteproofs with real ballot facts and
// ballot sign facts (signed with a harness key: ideal signatures), real base.BaseState values, a
// real fixedtree (Writer -> Tree), real base.BaseOperation values over a harness fact, the real
// isaac.ProposalFact / ProposalSignFact.
// Hash model: sha3.Sum256 injective (engine).
//
// The decoded block content is handed over directly: the file / compression / JSON pipeline of the
// importer and of the readers is outside the claim.

var verifC16NetworkID = base.NetworkID("verif-c16")

func verifC16Time() time.Time { return time.Unix(1700000000, 0).UTC() }

// ---- keys: an ideal signature scheme ------------------------------------------
// sign(k, msg) = k.id || msg ; verifies exactly for that key and that message.

type verifC16Key struct{ id uint8 }

func (verifC16Key) String() string       { return "verifkey" }
func (k verifC16Key) Bytes() []byte      { return []byte{'k', k.id} }
func (verifC16Key) IsValid([]byte) error { return nil }
func (k verifC16Key) Equal(o base.PKKey) bool {
	ok, is := o.(verifC16Key)
	return is && ok.id == k.id
}
func (k verifC16Key) Publickey() base.Publickey { return k }
func (k verifC16Key) Sign(b []byte) (base.Signature, error) {
	return base.Signature(append([]byte{k.id}, b...)), nil
}
func (k verifC16Key) Verify(b []byte, sig base.Signature) error {
	if len(sig) != len(b)+1 || sig[0] != k.id {
		return base.ErrSignatureVerification.Errorf("verifkey")
	}
	for i := range b {
		if sig[i+1] != b[i] {
			return base.ErrSignatureVerification.Errorf("verifkey")
		}
	}
	return nil
}

func verifC16Node(i int) (base.Address, verifC16Key) {
	return base.NewStringAddress([]string{"n0a", "n1a", "n2a"}[i]), verifC16Key{id: uint8(10 + i)}
}

func verifC16Hash(name string) util.Hash {
	var a valuehash.L32
	copy(a[:], verifrt.NondetBytes(name, 32))
	verifrt.Assume(a != valuehash.L32{}) // a wellformed hash (the zero value is "empty")
	return a
}

// ---- manifest -------------------------------------------------------------------

func verifC16Manifest(height base.Height, proposal, opstree, ststree util.Hash) isaac.Manifest {
	return isaac.NewManifest(height, valuehash.NewSHA256([]byte("previous-block")), proposal, opstree, ststree, nil, verifC16Time())
}

// ---- voteproofs -------------------------------------------------------------------

func verifC16Point(name string) base.Point {
	h := base.Height(verifrt.NondetInt(name + ".height"))
	verifrt.Assume(h >= base.GenesisHeight)
	r := base.Round(verifrt.NondetU64(name + ".round"))
	verifrt.Assume(h != base.GenesisHeight || r == 0) // Point.IsValid: the genesis point has round 0
	return base.NewPoint(h, r)
}

// verifC16SignNetwork: the network id the voteproof helpers sign ballots for (another one than
// verifC16NetworkID makes a voteproof whose signatures do not verify).
var verifC16SignNetwork = verifC16NetworkID

func verifC16INITVoteproof(point base.Point, proposal util.Hash) isaac.INITVoteproof {
	fact := isaac.NewINITBallotFact(point, valuehash.NewSHA256([]byte("previous-block")), proposal, nil)
	sfs := make([]base.BallotSignFact, 2)
	for i := range sfs {
		node, key := verifC16Node(i)
		sf := isaac.NewINITBallotSignFact(fact)
		verifrt.Assert(sf.NodeSign(key, verifC16SignNetwork, node) == nil, "C16.harness.sign")
		sfs[i] = sf
	}
	vp := isaac.NewINITVoteproof(point)
	vp.SetSignFacts(sfs).SetMajority(fact).SetThreshold(base.Threshold(67))
	vp.Finish()
	return vp
}

// verifC16ACCEPTVoteproof: two nodes vote at point; node i votes for new block blocks[i]. majority:
// the fact of node 0 when both voted for the same block (draw: no majority).
func verifC16ACCEPTVoteproof(point base.Point, proposal util.Hash, blocks [2]util.Hash, draw bool) isaac.ACCEPTVoteproof {
	sfs := make([]base.BallotSignFact, 2)
	var first isaac.ACCEPTBallotFact
	for i := range sfs {
		node, key := verifC16Node(i)
		fact := isaac.NewACCEPTBallotFact(point, proposal, blocks[i], nil)
		if i == 0 {
			first = fact
		}
		sf := isaac.NewACCEPTBallotSignFact(fact)
		verifrt.Assert(sf.NodeSign(key, verifC16SignNetwork, node) == nil, "C16.harness.sign")
		sfs[i] = sf
	}
	vp := isaac.NewACCEPTVoteproof(point)
	vp.SetSignFacts(sfs).SetThreshold(base.Threshold(67))
	if !draw {
		vp.SetMajority(first)
	}
	vp.Finish()
	return vp
}

// VerifC16Voteproofs: a manifest of symbolic height; an INIT and an ACCEPT voteproof, each wellformed
// and signed (they pass Voteproof.IsValid(networkID) as the validator and the importer check first),
// with symbolic points; the ACCEPT voteproof is a majority for the manifest's block, a majority for
// any other block hash, or a draw (two nodes voted for different blocks).
// Accepted => for the manifest's height, both for one point, ACCEPT majority whose new block is the
// manifest hash.
func VerifC16Voteproofs() {
	height := base.Height(verifrt.NondetInt("manifest.height"))
	verifrt.Assume(height >= base.GenesisHeight)
	proposal := valuehash.NewSHA256([]byte("proposal-fact"))
	m := verifC16Manifest(height, proposal, nil, nil)

	ipoint := verifC16Point("init")
	apoint := verifC16Point("accept")
	ivp := verifC16INITVoteproof(ipoint, proposal)

	var avp isaac.ACCEPTVoteproof
	variant := verifrt.NondetChoice("accept", 3)
	switch variant {
	case 0: // the block's own ACCEPT voteproof
		avp = verifC16ACCEPTVoteproof(apoint, proposal, [2]util.Hash{m.Hash(), m.Hash()}, false)
	case 1: // a majority for any block hash (the manifest's or another)
		other := verifC16Hash("otherblock")
		avp = verifC16ACCEPTVoteproof(apoint, proposal, [2]util.Hash{other, other}, false)
	default: // a draw: one node for the manifest's block, one for another block
		other := verifC16Hash("otherblock")
		verifrt.Assume(!other.Equal(m.Hash()))
		avp = verifC16ACCEPTVoteproof(apoint, proposal, [2]util.Hash{m.Hash(), other}, true)
	}

	var vps [2]base.Voteproof
	swapped := verifrt.NondetChoice("swapped", 2) == 1
	if swapped {
		vps = [2]base.Voteproof{avp, ivp}
	} else {
		vps = [2]base.Voteproof{ivp, avp}
	}
	verifrt.Assert(ivp.IsValid(verifC16NetworkID) == nil, "C16.harness.init-voteproof-is-wellformed-and-signed")
	verifrt.Assert(avp.IsValid(verifC16NetworkID) == nil, "C16.harness.accept-voteproof-is-wellformed-and-signed")

	// the validator's call (IsValidBlockFromLocalFS -> isValidVoteproofsFromLocalFS); the importer's
	// importVoteproofs does the same two steps
	err := isValidVoteproofsFromLocalFS(verifC16NetworkID, vps, m)
	verifrt.Reach("C16.voteproofs.returned")
	if err != nil {
		verifrt.Reach("C16.voteproofs.rejected")
		return
	}
	verifrt.Reach("C16.voteproofs.accepted")
	verifrt.Assert(!swapped, "C16.voteproofs.accepted-only-as-[init,accept]")
	if swapped {
		return
	}
	verifrt.Assert(ivp.Point().Height() == height && avp.Point().Height() == height,
		"C16.voteproofs-must-be-for-the-manifest's-point(height)")
	verifrt.Assert(ivp.Point().Point.Equal(avp.Point().Point),
		"C16.voteproofs-must-be-for-the-manifest's-point(init-and-accept-of-one-point)")
	maj := avp.BallotMajority()
	verifrt.Assert(avp.Result() == base.VoteResultMajority && maj != nil && maj.NewBlock().Equal(m.Hash()),
		"C16.voteproofs-must-have-an-ACCEPT-majority-for-the-manifest-hash")
	if variant == 0 {
		verifrt.Reach("C16.voteproofs.own-voteproofs-accepted")
	}
}

// ---- states ---------------------------------------------------------------------

type verifC16Value struct {
	b   []byte
	bad bool
}

func (v verifC16Value) HashBytes() []byte { return v.b }
func (v verifC16Value) IsValid([]byte) error {
	if v.bad {
		return util.ErrInvalid.Errorf("verif: invalid state value")
	}
	return nil
}

const verifC16Height = base.Height(33)

func verifC16State(i int, height base.Height) base.State {
	key := string([]byte{'s', 't', byte('a' + i)})
	return base.NewBaseState(height, key, verifC16Value{b: []byte{'v', byte('0' + i)}},
		valuehash.NewSHA256([]byte("previous-state")), nil)
}

func verifC16Tree(ht hint.Hint, nodes []fixedtree.Node) fixedtree.Tree {
	if len(nodes) < 1 {
		return fixedtree.EmptyTree() // what ItemReader.decodeTree returns for a tree file of 0 nodes
	}
	w, err := fixedtree.NewWriter(ht, uint64(len(nodes)))
	verifrt.Assert(err == nil, "C16.harness.tree-writer")
	for i := range nodes {
		verifrt.Assert(w.Add(uint64(i), nodes[i]) == nil, "C16.harness.tree-add")
	}
	tr, err := w.Tree()
	verifrt.Assert(err == nil, "C16.harness.tree")
	return tr
}

// verifC16Root: the tree root the (signed) manifest commits to: the root of the offered tree, any
// other 256-bit value, or none.
func verifC16Root(tr fixedtree.Tree, name string) (root util.Hash, same bool) {
	k := 3
	if tr.Len() < 1 {
		k = 2
	}
	switch verifrt.NondetChoice(name, k) {
	case 0:
		return nil, false
	case 1:
		h := verifC16Hash(name + ".hash")
		return h, tr.Len() > 0 && h.Equal(tr.Root())
	default:
		return tr.Root(), true
	}
}

// VerifC16States: a pool of P distinct states of the block's height. The states tree is the honest
// tree (built by the real fixedtree.Writer, keyed by state hash as the block writer does) of ANY
// sub-list of the pool (so: the block's own tree, a foreign tree, an empty tree); the offered states
// are ANY sub-list of the pool (extra / missing / foreign states), optionally one of them stored at
// another height; the manifest (symbolic height) commits to the offered tree's root, to any other
// root, or to none.
// Accepted by IsValidStatesOfBlock => tree root = manifest root, and tree keys = state hashes.
func VerifC16States() {
	P := verifrt.Bound("states", 3, 5)
	height := base.Height(verifrt.NondetInt("manifest.height"))
	verifrt.Assume(height >= base.GenesisHeight)

	var intree, inlist []int
	for i := 0; i < P; i++ {
		switch verifrt.NondetChoice("member", 4) {
		case 1:
			intree = append(intree, i)
		case 2:
			inlist = append(inlist, i)
		case 3:
			intree = append(intree, i)
			inlist = append(inlist, i)
		}
	}
	otherheight := -1
	if len(inlist) > 0 && verifrt.NondetChoice("otherheight", 2) == 1 {
		otherheight = inlist[len(inlist)-1]
	}
	stateOf := func(i int) base.State {
		if i == otherheight {
			return verifC16State(i, verifC16Height+1)
		}
		return verifC16State(i, verifC16Height)
	}
	nodes := make([]fixedtree.Node, len(intree))
	for k, i := range intree {
		nodes[k] = fixedtree.NewBaseNode(stateOf(i).Hash().String())
	}
	tr := verifC16Tree(base.StateFixedtreeHint, nodes)
	sts := make([]base.State, len(inlist))
	for k, i := range inlist {
		sts[k] = stateOf(i)
	}
	root, sameroot := verifC16Root(tr, "manifest.statestree")
	m := verifC16Manifest(height, valuehash.NewSHA256([]byte("proposal-fact")), nil, root)

	err := IsValidStatesOfBlock(tr, sts, m, verifC16NetworkID, nil)
	verifrt.Reach("C16.states.returned")
	if err != nil {
		verifrt.Reach("C16.states.rejected")
		return
	}
	verifrt.Reach("C16.states.accepted")
	if len(sts) > 0 {
		verifrt.Reach("C16.states.accepted-with-states")
	}
	// "its states must match the manifest's tree root"
	if root == nil {
		verifrt.Assert(len(sts) == 0 && tr.Len() == 0, "C16.states-must-match-the-manifest's-tree-root(manifest-without-states-tree=>no-states)")
	} else {
		verifrt.Assert(tr.Len() > 0 && sameroot, "C16.states-must-match-the-manifest's-tree-root(root-of-the-states-tree-is-the-manifest's)")
	}
	// tree keys = state hashes
	same := len(intree) == len(inlist)
	for k := 0; same && k < len(intree); k++ {
		same = intree[k] == inlist[k]
	}
	verifrt.Assert(same, "C16.states-must-match-the-manifest's-tree-root(tree-keys-are-exactly-the-hashes-of-the-states)")
}

// ---- operations -------------------------------------------------------------------

var (
	verifC16FactHint      = hint.MustNewHint("verif-c16-fact-v0.0.1")
	verifC16OperationHint = hint.MustNewHint("verif-c16-operation-v0.0.1")
)

type verifC16Fact struct{ base.BaseFact }

func verifC16Operation(i int) base.Operation { return verifC16OperationSigned(i, verifC16NetworkID) }

func verifC16OperationSigned(i int, networkID base.NetworkID) base.Operation {
	token := base.Token([]byte{'o', 'p', byte('a' + i)})
	fact := verifC16Fact{BaseFact: base.NewBaseFact(verifC16FactHint, token)}
	fact.SetHash(valuehash.NewSHA256(token))
	op := base.NewBaseOperation(verifC16OperationHint, fact)
	verifrt.Assert(op.Sign(verifC16Key{id: 10}, networkID) == nil, "C16.harness.sign-operation")
	return op
}

// VerifC16Operations: the same for operations: the operations tree is the honest tree (in-state and
// not-in-state nodes as Writer.SetProcessResult makes them) of any sub-list of a pool of signed
// operations, the offered operations any sub-list; manifest root as above.
func VerifC16Operations() {
	P := verifrt.Bound("operations", 3, 5)
	height := base.Height(verifrt.NondetInt("manifest.height"))
	verifrt.Assume(height >= base.GenesisHeight)

	var intree, inlist []int
	for i := 0; i < P; i++ {
		switch verifrt.NondetChoice("member", 4) {
		case 1:
			intree = append(intree, i)
		case 2:
			inlist = append(inlist, i)
		case 3:
			intree = append(intree, i)
			inlist = append(inlist, i)
		}
	}
	nodes := make([]fixedtree.Node, len(intree))
	for k, i := range intree {
		fh := verifC16Operation(i).Fact().Hash()
		if i%2 == 0 {
			nodes[k] = base.NewInStateOperationFixedtreeNode(fh, "")
		} else {
			nodes[k] = base.NewNotInStateOperationFixedtreeNode(fh, "not processed")
		}
	}
	tr := verifC16Tree(base.OperationFixedtreeHint, nodes)
	ops := make([]base.Operation, len(inlist))
	for k, i := range inlist {
		ops[k] = verifC16Operation(i)
	}
	root, sameroot := verifC16Root(tr, "manifest.operationstree")
	m := verifC16Manifest(height, valuehash.NewSHA256([]byte("proposal-fact")), root, nil)

	err := IsValidOperationsOfBlock(tr, ops, m, verifC16NetworkID, nil)
	verifrt.Reach("C16.operations.returned")
	if err != nil {
		verifrt.Reach("C16.operations.rejected")
		return
	}
	verifrt.Reach("C16.operations.accepted")
	if len(ops) > 0 {
		verifrt.Reach("C16.operations.accepted-with-operations")
	}
	if root == nil {
		verifrt.Assert(len(ops) == 0 && tr.Len() == 0, "C16.operations-must-match-the-manifest's-tree-root(manifest-without-operations-tree=>no-operations)")
	} else {
		verifrt.Assert(tr.Len() > 0 && sameroot, "C16.operations-must-match-the-manifest's-tree-root(root-of-the-operations-tree-is-the-manifest's)")
	}
	same := len(intree) == len(inlist)
	for k := 0; same && k < len(intree); k++ {
		same = intree[k] == inlist[k]
	}
	verifrt.Assert(same, "C16.operations-must-match-the-manifest's-tree-root(tree-keys-are-exactly-the-fact-hashes-of-the-operations)")
}

// ---- proposal ---------------------------------------------------------------------

// VerifC16Proposal: a real signed proposal of a symbolic point; the manifest (symbolic height)
// carries the proposal's fact hash or any other hash.
// Accepted => the manifest's proposal is the proposal's fact hash and the heights agree.
func VerifC16Proposal() {
	height := base.Height(verifrt.NondetInt("manifest.height"))
	verifrt.Assume(height >= base.GenesisHeight)
	point := verifC16Point("proposal")
	node, key := verifC16Node(0)
	var previous util.Hash
	if point.Height() != base.GenesisHeight {
		previous = valuehash.NewSHA256([]byte("previous-block"))
	}
	fact := isaac.NewProposalFact(point, node, previous, nil)
	pr := isaac.NewProposalSignFact(fact)
	verifrt.Assert(pr.Sign(key, verifC16NetworkID) == nil, "C16.harness.sign-proposal")
	verifrt.Assert(pr.IsValid(verifC16NetworkID) == nil, "C16.harness.proposal-is-wellformed-and-signed")

	mp := fact.Hash()
	own := verifrt.NondetChoice("manifest.proposal", 2) == 0
	if !own {
		mp = verifC16Hash("manifest.proposal.hash")
	}
	m := verifC16Manifest(height, mp, nil, nil)
	err := base.IsValidProposalWithManifest(pr, m)
	verifrt.Reach("C16.proposal.returned")
	if err != nil {
		verifrt.Reach("C16.proposal.rejected")
		return
	}
	verifrt.Reach("C16.proposal.accepted")
	verifrt.Assert(m.Proposal().Equal(fact.Hash()), "C16.proposal-must-match-the-manifest(fact-hash)")
	verifrt.Assert(point.Height() == height, "C16.proposal-must-match-the-manifest(height)")
}

// ---- beyond the kernel: the importer's content checks --------------------------------

// verifC16Reader stands for an ItemReader whose file decodes to the given content (the decoding
// itself - files, compression, JSON - is not executed).
type verifC16Reader struct {
	t     base.BlockItemType
	one   interface{}
	items []interface{}
}

func (r verifC16Reader) Type() base.BlockItemType       { return r.t }
func (r verifC16Reader) Encoder() encoder.Encoder       { return nil }
func (r verifC16Reader) Reader() *util.CompressedReader { return nil }
func (r verifC16Reader) Decode() (interface{}, error)   { return r.one, nil }
func (r verifC16Reader) DecodeItems(f func(total uint64, index uint64, _ interface{}) error) (uint64, error) {
	for i := range r.items {
		if err := f(uint64(len(r.items)), uint64(i), r.items[i]); err != nil {
			return uint64(i), err
		}
	}
	return uint64(len(r.items)), nil
}

type verifC16BWDB struct {
	sts []base.State
	ops []util.Hash
}

func (db *verifC16BWDB) Close() error                              { return nil }
func (db *verifC16BWDB) Cancel() error                             { return nil }
func (db *verifC16BWDB) BlockMap() (base.BlockMap, error)          { return nil, nil }
func (db *verifC16BWDB) SetBlockMap(base.BlockMap) error           { return nil }
func (db *verifC16BWDB) SetStates(sts []base.State) error          { db.sts = sts; return nil }
func (db *verifC16BWDB) SetOperations(ops []util.Hash) error       { db.ops = ops; return nil }
func (db *verifC16BWDB) SetSuffrageProof(base.SuffrageProof) error { return nil }
func (db *verifC16BWDB) SuffrageState() base.State                 { return nil }
func (db *verifC16BWDB) NetworkPolicy() base.NetworkPolicy         { return nil }
func (db *verifC16BWDB) Write() error                              { return nil }
func (db *verifC16BWDB) TempDatabase() (isaac.TempDatabase, error) { return nil, nil }

// VerifC16ImporterContent: what BlockImporter checks on the decoded content of the states,
// states-tree and operations items (importStates, importStatesTree, importOperations; the
// operations-tree and proposal items go through importOther, which only drains the reader) against
// what the repository's validator checks on the same content (IsValidStatesOfBlock,
// IsValidOperationsOfBlock). Content as in VerifC16States / VerifC16Operations, manifest committing to
// the honest tree of the block's own items.
// The importer hands the items to the block write database => the validator accepts them too.
// (The file pipeline around these functions and Save itself - file renames - are not executed; Save
// adds no content check besides building the suffrage proof.)
func VerifC16ImporterContent() {
	P := verifrt.Bound("import.items", 2, 3)
	var own, offered []int
	for i := 0; i < P; i++ {
		switch verifrt.NondetChoice("member", 4) {
		case 1:
			own = append(own, i)
		case 2:
			offered = append(offered, i)
		case 3:
			own = append(own, i)
			offered = append(offered, i)
		}
	}
	states := verifrt.NondetChoice("states-or-operations", 2) == 0
	// optionally the last offered item is not wellformed (a state whose value is invalid, an operation
	// signed for another network): the one thing the importer does check
	invalid := len(offered) > 0 && verifrt.NondetChoice("invalid-item", 2) == 1
	bw := &verifC16BWDB{}
	im := &BlockImporter{bwdb: bw, networkID: verifC16NetworkID}
	var validator error
	var importer []error
	if states {
		nodes := make([]fixedtree.Node, len(own))
		for k, i := range own {
			nodes[k] = fixedtree.NewBaseNode(verifC16State(i, verifC16Height).Hash().String())
		}
		tr := verifC16Tree(base.StateFixedtreeHint, nodes)
		var root util.Hash
		if tr.Len() > 0 {
			root = tr.Root()
		}
		m := verifC16Manifest(verifC16Height, valuehash.NewSHA256([]byte("proposal-fact")), nil, root)
		bm := NewBlockMap()
		bm.SetManifest(m)
		im.m = bm
		sts := make([]base.State, len(offered))
		items := make([]interface{}, len(offered))
		for k, i := range offered {
			sts[k] = verifC16State(i, verifC16Height)
			if invalid && k == len(offered)-1 {
				sts[k] = base.NewBaseState(verifC16Height, sts[k].Key(), verifC16Value{b: []byte{'v', byte('0' + i)}, bad: true},
					valuehash.NewSHA256([]byte("previous-state")), nil)
			}
			items[k] = sts[k]
		}
		importer = append(importer, im.importStatesTree(verifC16Reader{t: base.BlockItemStatesTree, one: tr}))
		importer = append(importer, im.importStates(verifC16Reader{t: base.BlockItemStates, items: items}))
		validator = IsValidStatesOfBlock(tr, sts, m, verifC16NetworkID, nil)
	} else {
		nodes := make([]fixedtree.Node, len(own))
		for k, i := range own {
			nodes[k] = base.NewInStateOperationFixedtreeNode(verifC16Operation(i).Fact().Hash(), "")
		}
		tr := verifC16Tree(base.OperationFixedtreeHint, nodes)
		var root util.Hash
		if tr.Len() > 0 {
			root = tr.Root()
		}
		m := verifC16Manifest(verifC16Height, valuehash.NewSHA256([]byte("proposal-fact")), root, nil)
		bm := NewBlockMap()
		bm.SetManifest(m)
		im.m = bm
		ops := make([]base.Operation, len(offered))
		items := make([]interface{}, len(offered))
		for k, i := range offered {
			ops[k] = verifC16Operation(i)
			if invalid && k == len(offered)-1 {
				ops[k] = verifC16OperationSigned(i, base.NetworkID("another-network"))
			}
			items[k] = ops[k]
		}
		importer = append(importer, im.importOperations(verifC16Reader{t: base.BlockItemOperations, items: items}))
		validator = IsValidOperationsOfBlock(tr, ops, m, verifC16NetworkID, nil)
	}
	verifrt.Reach("C16.import.checked")
	accepted := true
	for i := range importer {
		if importer[i] != nil {
			accepted = false
		}
	}
	if !accepted {
		verifrt.Reach("C16.import.rejected-by-the-importer")
		verifrt.Assert(invalid, "C16.harness.importer-rejects-only-the-item-that-is-not-wellformed")
		return
	}
	verifrt.Assert(!invalid, "C16.import.an-item-that-is-not-wellformed-is-not-imported")
	verifrt.Reach("C16.import.accepted-by-the-importer")
	if states {
		verifrt.Assert(len(bw.sts) == len(offered), "C16.harness.importer-handed-the-states-to-the-database")
	} else {
		verifrt.Assert(len(bw.ops) == len(offered), "C16.harness.importer-handed-the-operations-to-the-database")
	}
	if validator == nil {
		verifrt.Reach("C16.import.accepted-by-both")
	}
	verifrt.Assert(validator == nil, "C16.imported-block-is-stored-only-if-it-would-also-pass-the-repository's-own-block-validator(items-match-the-manifest's-tree)")
}

// VerifC16ImporterVoteproofs: the real BlockImporter.importVoteproofs on a decoded voteproofs item
// against the validator's check of the same item (isValidVoteproofsFromLocalFS). The item: INIT and
// ACCEPT voteproofs of rounds 0/1 of the manifest's height, the ACCEPT one a majority for the manifest
// or for another block; each of the two signed for the right network or for another one (so that
// Voteproof.IsValid fails for exactly that one). Every schedule of whatever goroutines the importer
// uses for this. The importer lets the item pass => the validator accepts it too.
func VerifC16ImporterVoteproofs() {
	proposal := valuehash.NewSHA256([]byte("proposal-fact"))
	m := verifC16Manifest(verifC16Height, proposal, nil, nil)
	bm := NewBlockMap()
	bm.SetManifest(m)
	im := &BlockImporter{bwdb: &verifC16BWDB{}, networkID: verifC16NetworkID, m: bm}

	other := base.NetworkID("another-network")
	ipoint := base.NewPoint(verifC16Height, base.Round(verifrt.NondetChoice("init.round", 2)))
	apoint := base.NewPoint(verifC16Height, base.Round(verifrt.NondetChoice("accept.round", 2)))
	ibad := verifrt.NondetChoice("init.signed-for-another-network", 2) == 1
	abad := verifrt.NondetChoice("accept.signed-for-another-network", 2) == 1
	if ibad {
		verifC16SignNetwork = other
	}
	ivp := verifC16INITVoteproof(ipoint, proposal)
	verifC16SignNetwork = verifC16NetworkID
	if abad {
		verifC16SignNetwork = other
	}
	block := m.Hash()
	if verifrt.NondetChoice("accept.for-another-block", 2) == 1 {
		block = valuehash.NewSHA256([]byte("another-block"))
	}
	avp := verifC16ACCEPTVoteproof(apoint, proposal, [2]util.Hash{block, block}, false)
	verifC16SignNetwork = verifC16NetworkID
	vps := [2]base.Voteproof{ivp, avp}

	validator := isValidVoteproofsFromLocalFS(verifC16NetworkID, vps, m)
	err := im.importVoteproofs(verifC16Reader{t: base.BlockItemVoteproofs, one: vps})
	verifrt.Reach("C16.import-voteproofs.returned")
	if err != nil {
		verifrt.Reach("C16.import-voteproofs.rejected")
		return
	}
	verifrt.Reach("C16.import-voteproofs.accepted")
	verifrt.Assert(!ibad && !abad, "C16.import.voteproofs-that-are-not-wellformed-and-signed-are-not-imported")
	verifrt.Assert(validator == nil, "C16.imported-block-is-stored-only-if-it-would-also-pass-the-repository's-own-block-validator(voteproofs)")
}
