package launch

import (
	"context"
	"net"
	"time"

	"github.com/spikeekips/mitum/base"
	isaacnetwork "github.com/spikeekips/mitum/isaac/network"
	"github.com/spikeekips/mitum/util"
	"github.com/spikeekips/mitum/util/verifrt"
	"golang.org/x/time/rate"
)

// ---------------------------------------------------------------------------
// C36 Rate limiting picks the highest-precedence rule and enforces it.
//
// Everything is driven through the real entry point RateLimitHandler.Func (what
// rateLimitHandlerFunc/rateLimitHeaderHandlerFunc call for every request): the handler
// name and the client id travel in the context, the node of an address becomes known when a
// handler returns a context carrying isaacnetwork.ContextKeyNodeChallengedNode (AddNode).
//
// "the rule used for a request" is observed at the result of RateLimitHandler.Func: the
// RateLimiterResult that Func puts into the returned context (RateLimiterResultContextKey)
// names the limiter that decided the request as humanizeRateLimiter(limit, burst) =
// "<burst>/<burst/limit as duration>"; every rule of the configured sets has a distinct burst,
// so this text identifies the rule. Nothing is read from the handler's internal pool.

type verifC36Node string // a base.Address

func (a verifC36Node) String() string            { return string(a) }
func (a verifC36Node) Bytes() []byte             { return []byte(a) }
func (verifC36Node) IsValid([]byte) error        { return nil }
func (a verifC36Node) Equal(b base.Address) bool { return b != nil && string(a) == b.String() }

type verifC36Hash string // a util.Hash (the suffrage state hash)

func (h verifC36Hash) String() string         { return string(h) }
func (h verifC36Hash) Bytes() []byte          { return []byte(h) }
func (verifC36Hash) IsValid([]byte) error     { return nil }
func (h verifC36Hash) Equal(b util.Hash) bool { return b != nil && string(h) == b.String() }

const (
	verifC36Handler      = "handler-a"
	verifC36OtherHandler = "handler-b"
	verifC36ClientA      = "client-a" // has a client-id rule (when the client-id set is configured)
	verifC36ClientB      = "client-b" // never has a client-id rule
	verifC36TheNode      = verifC36Node("node-1-sas")
)

// verifC36Cfg: which rule sets are configured and whether they match the requests of the harness.
type verifC36Cfg struct {
	cid    bool // client-id set with a rule for client-a
	net    bool // net set: a non-matching net, then two matching nets (the first must win)
	node   bool // node set with a rule for the node
	netx   bool // net set configured, but only with a net that does not match (with !net)
	nodex  bool // node set configured, but only with a rule for another node (with !node)
	suf    bool // the node is in the consensus nodes (suffrage set is always configured)
	defmap bool // default map has a rule for the handler; otherwise it only knows another handler => built-in default
}

type verifC36Rules struct {
	cid, net1, net2, netx, node, suf, defmap, other RateLimiterRule
}

// verifC36NewRules: rules with distinct bursts. interval = the time one token takes.
func verifC36NewRules(interval time.Duration, base int) verifC36Rules {
	mk := func(burst int) RateLimiterRule {
		return NewRateLimiterRule(interval*time.Duration(burst), burst)
	}
	return verifC36Rules{
		cid: mk(base + 1), net1: mk(base + 2), net2: mk(base + 3), netx: mk(base + 4),
		node: mk(base + 5), suf: mk(base + 6), defmap: mk(base + 7), other: mk(base + 8),
	}
}

func verifC36UDPAddr() *net.UDPAddr {
	return &net.UDPAddr{IP: net.IP{10, 0, 0, 7}, Port: 4321}
}

func verifC36Setup(cfg verifC36Cfg, rs verifC36Rules) *RateLimitHandler {
	rules := NewRateLimiterRules()
	rules.SetIsInConsensusNodesFunc(func() (util.Hash, func(base.Address) bool, error) {
		return verifC36Hash("suffrage-state-1"), func(a base.Address) bool {
			return cfg.suf && a != nil && a.String() == verifC36TheNode.String()
		}, nil
	})
	sr := rs.suf
	_ = rules.SetSuffrageRuleSet(NewSuffrageRateLimiterRuleSet(NewRateLimiterRuleMap(&sr, nil)))
	if cfg.cid {
		cr := rs.cid
		_ = rules.SetClientIDRuleSet(NewClientIDRateLimiterRuleSet(map[string]RateLimiterRuleMap{
			verifC36ClientA: NewRateLimiterRuleMap(&cr, nil),
		}))
	}
	if cfg.netx && !cfg.net {
		nx := rs.netx
		ns := NewNetRateLimiterRuleSet()
		ns.Add(&net.IPNet{IP: net.IP{192, 168, 0, 0}, Mask: net.IPMask{255, 255, 255, 0}}, NewRateLimiterRuleMap(&nx, nil))
		verifrt.Assert(ns.IsValid(nil) == nil, "C36.setup.net-set-valid")
		_ = rules.SetNetRuleSet(ns)
	}
	if cfg.nodex && !cfg.node {
		nr := rs.other
		_ = rules.SetNodeRuleSet(NewNodeRateLimiterRuleSet(map[string]RateLimiterRuleMap{
			"node-2-sas": NewRateLimiterRuleMap(&nr, nil),
		}))
	}
	if cfg.net {
		nx, n1, n2 := rs.netx, rs.net1, rs.net2
		ns := NewNetRateLimiterRuleSet()
		ns.Add(&net.IPNet{IP: net.IP{192, 168, 0, 0}, Mask: net.IPMask{255, 255, 255, 0}}, NewRateLimiterRuleMap(&nx, nil))
		ns.Add(&net.IPNet{IP: net.IP{10, 0, 0, 0}, Mask: net.IPMask{255, 0, 0, 0}}, NewRateLimiterRuleMap(&n1, nil))
		ns.Add(&net.IPNet{IP: net.IP{10, 0, 0, 0}, Mask: net.IPMask{255, 255, 255, 0}}, NewRateLimiterRuleMap(&n2, nil))
		verifrt.Assert(ns.IsValid(nil) == nil, "C36.setup.net-set-valid")
		_ = rules.SetNetRuleSet(ns)
	}
	if cfg.node {
		nr := rs.node
		_ = rules.SetNodeRuleSet(NewNodeRateLimiterRuleSet(map[string]RateLimiterRuleMap{
			verifC36TheNode.String(): NewRateLimiterRuleMap(&nr, nil),
		}))
	}
	if cfg.defmap {
		_ = rules.SetDefaultRuleMap(NewRateLimiterRuleMap(nil, map[string]RateLimiterRule{
			verifC36Handler: rs.defmap, verifC36OtherHandler: rs.other,
		}))
	} else {
		_ = rules.SetDefaultRuleMap(NewRateLimiterRuleMap(nil, map[string]RateLimiterRule{
			verifC36OtherHandler: rs.other,
		}))
	}
	verifrt.Assert(rules.IsValid(nil) == nil, "C36.setup.rules-valid")

	args := NewRateLimitHandlerArgs()
	args.Rules = rules
	h, err := NewRateLimitHandler(args)
	verifrt.Assert(err == nil, "C36.setup.NewRateLimitHandler")
	return h
}

// verifC36Expected: the documented precedence for one request.
func verifC36Expected(cfg verifC36Cfg, rs verifC36Rules, handler, clientID string, nodeKnown bool) (RateLimiterRule, string) {
	switch {
	case cfg.cid && clientID == verifC36ClientA:
		return rs.cid, "clientid"
	case cfg.net:
		return rs.net1, "net"
	case nodeKnown && cfg.node:
		return rs.node, "node"
	case nodeKnown && cfg.suf:
		return rs.suf, "suffrage"
	case handler == verifC36OtherHandler:
		return rs.other, "defaultmap"
	case cfg.defmap:
		return rs.defmap, "defaultmap"
	default:
		return defaultRateLimiter, "default"
	}
}

type verifC36Result struct {
	called  bool // the wrapped handler ran (= request allowed)
	err     error
	limiter string // RateLimiterResult.Limiter: the rule that decided, "<burst>/<duration>"
	rtype   string // RateLimiterResult.RulesetType (only shown, not asserted)
	allowed bool
	hasRes  bool
}

func verifC36RuleName(r RateLimiterRule) string { return humanizeRateLimiter(r.Limit, r.Burst) }

// verifC36Request sends one request through RateLimitHandler.Func.
// clientID: 0 = header without client id (no context value), 1 = client-a, 2 = client-b, 3 = "" (empty id in the header).
func verifC36Request(h *RateLimitHandler, addr net.Addr, handler string, clientID int, learnNode bool) verifC36Result {
	ctx := context.WithValue(context.Background(), RateLimiterLimiterNameContextKey, handler)
	switch clientID {
	case 1:
		ctx = context.WithValue(ctx, RateLimiterClientIDContextKey, verifC36ClientA)
	case 2:
		ctx = context.WithValue(ctx, RateLimiterClientIDContextKey, verifC36ClientB)
	case 3:
		ctx = context.WithValue(ctx, RateLimiterClientIDContextKey, "")
	}
	var r verifC36Result
	rctx, err := h.Func(ctx, addr, func(ctx context.Context) (context.Context, error) {
		r.called = true
		if learnNode {
			return context.WithValue(ctx, isaacnetwork.ContextKeyNodeChallengedNode, base.Address(verifC36TheNode)), nil
		}
		return ctx, nil
	})
	r.err = err
	if rctx != nil {
		if f, ok := rctx.Value(RateLimiterResultContextKey).(func() RateLimiterResult); ok {
			res := f()
			r.hasRes, r.rtype, r.allowed, r.limiter = true, res.RulesetType, res.Allowed, res.Limiter
		}
	}
	return r
}

func verifC36ClientIDString(c int) string {
	switch c {
	case 1:
		return verifC36ClientA
	case 2:
		return verifC36ClientB
	}
	return ""
}

func verifC36Config() verifC36Cfg {
	return verifC36ConfigX(false)
}

// verifC36ConfigX: with nonmatching, the net and node sets have a third possibility: configured,
// but with nothing that matches the requests (only another net / only another node).
func verifC36ConfigX(nonmatching bool) verifC36Cfg {
	k := 2
	if nonmatching {
		k = 3
	}
	n, d := verifrt.NondetChoice("cfg.net-set", k), verifrt.NondetChoice("cfg.node-set", k)
	return verifC36Cfg{
		cid:    verifrt.NondetChoice("cfg.clientid-set", 2) == 1,
		net:    n == 1,
		netx:   n == 2,
		node:   d == 1,
		nodex:  d == 2,
		suf:    verifrt.NondetChoice("cfg.node-in-suffrage", 2) == 1,
		defmap: verifrt.NondetChoice("cfg.defaultmap-has-handler", 2) == 1,
	}
}

func verifC36CheckRule(r verifC36Result, want RateLimiterRule, wantType, label string) {
	verifrt.Assert(r.hasRes, "C36.setup.result-in-context")
	verifrt.Assert(r.err == nil && r.called && r.allowed, "C36.setup.request-within-burst-is-allowed")
	verifrt.Observe("rule", label, "want", wantType, verifC36RuleName(want), "got", r.rtype, r.limiter)
	// the label names the class of a wrong choice (wanted rule kind, used rule kind), so that the
	// known cached-limiter classes can be told from any other wrong choice
	class := ""
	if r.limiter != verifC36RuleName(want) {
		class = "(want=" + wantType + ",got=" + r.rtype + ")"
	}
	verifrt.Assert(r.limiter == verifC36RuleName(want),
		"C36."+label+".uses-clientid-rule-else-first-matching-net-else-node-else-suffrage-else-default-map-else-built-in"+class)
}

// VerifC36FirstRequest: the first request on an (addr, handler) pair (no cached limiter), for
// every configuration, every client id, node known (learnt through a request on another
// handler of the same address) or not.
func VerifC36FirstRequest() {
	cfg := verifC36ConfigX(true)
	rs := verifC36NewRules(time.Second, 10)
	h := verifC36Setup(cfg, rs)
	if h == nil {
		return
	}
	addr := verifC36UDPAddr()
	nodeKnown := verifrt.NondetChoice("node-known", 2) == 1
	if nodeKnown {
		w := verifC36Request(h, addr, verifC36OtherHandler, 0, true)
		want, wt := verifC36Expected(cfg, rs, verifC36OtherHandler, "", false)
		verifC36CheckRule(w, want, wt, "first-request(other-handler)")
	}
	c := verifrt.NondetChoice("client", verifrt.Bound("client-kinds", 3, 4))
	r := verifC36Request(h, addr, verifC36Handler, c, false)
	verifrt.Reach("C36.first.returned")
	want, wt := verifC36Expected(cfg, rs, verifC36Handler, verifC36ClientIDString(c), nodeKnown)
	verifrt.Reach("C36.first.expected-" + wt)
	verifC36CheckRule(r, want, wt, "first-request")
}

// VerifC36NextRequests: R requests on the same (addr, handler) pair with independently chosen
// client ids; the node of the address may become known after any of them. "for each request":
// every request must be decided under the highest-precedence rule matching *that* request.
func VerifC36NextRequests() {
	cfg := verifC36Config()
	if verifrt.Bound("next-defaultmap-varies", 0, 1) == 0 {
		// quick: the default map always knows the handler (the built-in default is covered by VerifC36FirstRequest)
		verifrt.Assume(cfg.defmap)
	}
	rs := verifC36NewRules(time.Second, 10)
	h := verifC36Setup(cfg, rs)
	if h == nil {
		return
	}
	addr := verifC36UDPAddr()
	R := verifrt.Bound("requests", 2, 3)
	nodeKnown := false
	// the node of the address may already be known from a request on another handler
	if verifrt.NondetChoice("node-known-before", 2) == 1 {
		w := verifC36Request(h, addr, verifC36OtherHandler, 0, true)
		want, wt := verifC36Expected(cfg, rs, verifC36OtherHandler, "", false)
		verifC36CheckRule(w, want, wt, "first-request(other-handler)")
		nodeKnown = true
	}
	for i := 0; i < R; i++ {
		nc := verifrt.Bound("client-kinds", 3, 4) // 4: also an empty client id in the header
		if !cfg.cid {
			nc = 2 // without a client-id set only "has an id or not" can matter
		}
		c := verifrt.NondetChoice("client", nc)
		learn := false
		if !nodeKnown && i < R-1 {
			learn = verifrt.NondetChoice("handler-learns-node", 2) == 1
		}
		r := verifC36Request(h, addr, verifC36Handler, c, learn)
		want, wt := verifC36Expected(cfg, rs, verifC36Handler, verifC36ClientIDString(c), nodeKnown)
		label := "first-request"
		if i > 0 {
			label = "later-request"
			verifrt.Reach("C36.next.expected-" + wt)
		}
		verifC36CheckRule(r, want, wt, label)
		if learn {
			nodeKnown = true
		}
	}
	verifrt.Reach("C36.next.returned")
}

// ---------------------------------------------------------------------------
// token bucket: k allowed in a window w  =>  k <= burst + rate*w

type verifC36Event struct {
	before, after time.Time
	allowed       bool
	limit         rate.Limit // the rule that decided the request (as reported in the result)
	burst         int
}

// verifC36RuleOf maps the rule text of a result back to the configured rule.
func verifC36RuleOf(name string, known []RateLimiterRule) (RateLimiterRule, bool) {
	for i := range known {
		if verifC36RuleName(known[i]) == name {
			return known[i], true
		}
	}
	return RateLimiterRule{}, false
}

// verifC36CheckWindows: for every window [i..j] of the stream and every rule (limit, burst) that
// decided at least one request in it: the number of requests allowed under that rule is at most
// burst + limit*w, w measured from just before request i to just after request j (so w is never
// shorter than the time the limiter saw). Slack: 1e-9 relative (rate*w is one float multiplication).
func verifC36CheckWindows(ev []verifC36Event, label string) {
	for i := range ev {
		for j := i; j < len(ev); j++ {
			w := ev[j].after.Sub(ev[i].before).Seconds()
			for k := i; k <= j; k++ {
				// count under the rule of event k (once per distinct rule: only at its first occurrence in the window)
				first := true
				for p := i; p < k; p++ {
					if ev[p].limit == ev[k].limit && ev[p].burst == ev[k].burst {
						first = false
					}
				}
				if !first {
					continue
				}
				n := 0
				for p := k; p <= j; p++ {
					if ev[p].allowed && ev[p].limit == ev[k].limit && ev[p].burst == ev[k].burst {
						n++
					}
				}
				bound := float64(ev[k].burst) + float64(ev[k].limit)*w
				verifrt.Assert(float64(n) <= bound*(1+1e-9), label)
			}
		}
	}
}

func verifC36Gap(interval time.Duration) time.Duration {
	switch verifrt.NondetChoice("gap", 3) {
	case 1:
		return interval * 6 / 10 // less than one token
	case 2:
		return interval * 13 / 10 // a bit more than one token
	}
	return 0
}

// VerifC36Bucket: a stream of N requests that all resolve to the same rule (same hint), with
// controlled gaps; kinds: 0 client-id rule, 1 net rule, 2 default-map rule, 3 node rule,
// 4 suffrage rule (3 and 4 after a warm-up request that makes the node known).
func VerifC36Bucket() {
	interval := 100 * time.Millisecond
	kind := verifrt.NondetChoice("kind", verifrt.Bound("kinds", 3, 5))
	base := verifrt.NondetChoice("burst", verifrt.Bound("bursts", 2, 3)) // bursts start at base+1
	rs := verifC36NewRules(interval, base)
	cfg := verifC36Cfg{defmap: true}
	client := 0
	theRule := NewRateLimiterRule(interval*time.Duration(base+1), base+1) // base+1 tokens, one per interval
	switch kind {
	case 0:
		cfg.cid, client = true, 1
		rs.cid = theRule
	case 1:
		cfg.net = true
		rs.net1 = theRule
	case 2:
		rs.defmap = theRule
	case 3:
		cfg.node = true
		rs.node = theRule
	case 4:
		cfg.suf = true
		rs.suf = theRule
	}
	h := verifC36Setup(cfg, rs)
	if h == nil {
		return
	}
	addr := verifC36UDPAddr()
	if kind >= 3 {
		_ = verifC36Request(h, addr, verifC36OtherHandler, 0, true)
	}
	N := verifrt.Bound("stream", 4, 6)
	ev := make([]verifC36Event, 0, N)
	for i := 0; i < N; i++ {
		if i > 0 {
			if d := verifC36Gap(interval); d > 0 {
				time.Sleep(d)
			}
		}
		var e verifC36Event
		e.before = time.Now()
		r := verifC36Request(h, addr, verifC36Handler, client, false)
		e.after = time.Now()
		verifrt.Assert(r.called == (r.err == nil) && r.called == r.allowed, "C36.setup.handler-runs-iff-allowed")
		verifrt.Assert(r.limiter == verifC36RuleName(theRule), "C36.setup.stream-resolves-to-the-one-rule")
		e.allowed, e.limit, e.burst = r.called, theRule.Limit, theRule.Burst
		if i == 0 {
			verifrt.Assert(r.called, "C36.bucket.first-request-of-a-full-bucket-is-allowed")
		}
		if !r.called {
			verifrt.Reach("C36.bucket.some-request-denied")
		}
		ev = append(ev, e)
	}
	verifrt.Reach("C36.bucket.returned")
	verifC36CheckWindows(ev, "C36.bucket.allowed-in-window<=burst+rate*window")
}

// VerifC36BucketMixed: a stream from one address whose requests do not all carry the same
// client id (client-a has a client-id rule, the others fall to the default map), no gaps.
// Reading used: for a stream that resolves to more than one rule, the bound is claimed per
// rule: the requests the limiter decided under rule R (as reported by the limiter itself)
// never exceed R.burst + R.rate*window.
func VerifC36BucketMixed() {
	interval := time.Second
	rs := verifC36NewRules(interval, 10)
	cfg := verifC36Cfg{cid: true, defmap: true}
	rs.cid = NewRateLimiterRule(interval, 1)
	rs.defmap = NewRateLimiterRule(interval*2, 2)
	h := verifC36Setup(cfg, rs)
	if h == nil {
		return
	}
	addr := verifC36UDPAddr()
	N := verifrt.Bound("mixed-stream", 4, 6)
	ev := make([]verifC36Event, 0, N)
	for i := 0; i < N; i++ {
		c := verifrt.NondetChoice("client", 2) // 0: no client id, 1: client-a
		var e verifC36Event
		e.before = time.Now()
		r := verifC36Request(h, addr, verifC36Handler, c, false)
		e.after = time.Now()
		rule, ok := verifC36RuleOf(r.limiter, []RateLimiterRule{rs.cid, rs.defmap})
		verifrt.Assert(ok, "C36.setup.mixed-stream-decided-under-a-configured-rule")
		e.allowed, e.limit, e.burst = r.called, rule.Limit, rule.Burst
		ev = append(ev, e)
	}
	verifrt.Reach("C36.mixed.returned")
	verifC36CheckWindows(ev, "C36.mixed.allowed-under-a-rule-in-window<=burst+rate*window")
}

// VerifC36NodeLearnt: enforcement across a change of the applicable rule on one live limiter, with
// the two special rules: the default map's rule for the handler and the node's rule are each
// finite (2 tokens, one per interval), "nolimit" (rate.Inf) or "0" (nothing allowed). The node of
// the address becomes known through one of the requests (as the node challenge does); before it the
// default-map rule applies, after it the node rule. Per request: the rule that decided is the
// highest-precedence one; per window and rule: allowed <= burst + rate*window (nothing under "0";
// no bound under "nolimit").
func VerifC36NodeLearnt() {
	interval := 100 * time.Millisecond
	mk := func(kind int, burst int) RateLimiterRule {
		switch kind {
		case 1:
			return NoLimitRateLimiterRule()
		case 2:
			return LimitRateLimiterRule()
		}
		return NewRateLimiterRule(interval*time.Duration(burst), burst)
	}
	rs := verifC36NewRules(interval, 10)
	dk, nk := verifrt.NondetChoice("defaultmap-rule-kind", 3), verifrt.NondetChoice("node-rule-kind", 3)
	rs.defmap, rs.node = mk(dk, 2), mk(nk, 3)
	cfg := verifC36Cfg{defmap: true, node: true}
	h := verifC36Setup(cfg, rs)
	if h == nil {
		return
	}
	addr := verifC36UDPAddr()
	N := verifrt.Bound("learnt-stream", 4, 6)
	learnAt := verifrt.NondetChoice("learn-at", 2) // the request whose handler makes the node known
	known := false
	ev := make([]verifC36Event, 0, N)
	for i := 0; i < N; i++ {
		if i > 0 {
			if d := verifC36Gap(interval); d > 0 {
				time.Sleep(d)
			}
		}
		want, wt := rs.defmap, "defaultmap"
		if known {
			want, wt = rs.node, "node"
		}
		var e verifC36Event
		e.before = time.Now()
		r := verifC36Request(h, addr, verifC36Handler, 0, i == learnAt)
		e.after = time.Now()
		verifrt.Assert(r.hasRes, "C36.setup.result-in-context")
		verifrt.Assert(r.called == (r.err == nil) && r.called == r.allowed, "C36.setup.handler-runs-iff-allowed")
		if i == learnAt && !r.called {
			// the request that would have made the node known was refused: the node stays unknown
			verifrt.Reach("C36.learnt.learning-request-refused")
			learnAt = i + 1
		} else if i == learnAt {
			known = true
		}
		class := ""
		if r.limiter != verifC36RuleName(want) {
			class = "(want=" + wt + ",got=" + r.rtype + ")"
		}
		verifrt.Assert(r.limiter == verifC36RuleName(want),
			"C36.learnt.uses-clientid-rule-else-first-matching-net-else-node-else-suffrage-else-default-map-else-built-in"+class)
		e.allowed, e.limit, e.burst = r.called, want.Limit, want.Burst
		if want.Limit == rate.Inf {
			verifrt.Reach("C36.learnt.request-under-nolimit-rule")
		} else {
			if want.Limit == 0 {
				verifrt.Reach("C36.learnt.request-under-the-0-rule")
			}
			ev = append(ev, e)
		}
	}
	verifrt.Reach("C36.learnt.returned")
	verifC36CheckWindows(ev, "C36.learnt.allowed-under-a-rule-in-window<=burst+rate*window")
}
