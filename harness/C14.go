package base

import (
	"context"
	"sync"
	"time"

	"github.com/spikeekips/mitum/util"
	"github.com/spikeekips/mitum/util/valuehash"
	"github.com/spikeekips/mitum/util/verifrt"
)

// C14 Block-map chain validation accepts exactly linked chains.
//
// BatchIsValidMaps(prev, to, batchlimit, fetch, callback) runs with the real BatchWork /
// BaseJobWorker under the engine's scheduler: the order in which the fetched maps reach
// IsValidMaps is the order in which the scheduler lets the jobs of a batch run.
// A fetched map is a harness block map whose manifest has a symbolic hash, a symbolic previous
// hash and a height that is either the requested one or an arbitrary 64-bit value
// ("wrong height"; at most `wrong` answers per run).

type verifC14Manifest struct {
	h    Height
	hash util.Hash
	prev util.Hash
}

func (m verifC14Manifest) Hash() util.Hash         { return m.hash }
func (verifC14Manifest) IsValid([]byte) error      { return nil }
func (m verifC14Manifest) Height() Height          { return m.h }
func (m verifC14Manifest) Previous() util.Hash     { return m.prev }
func (verifC14Manifest) Proposal() util.Hash       { return nil }
func (verifC14Manifest) OperationsTree() util.Hash { return nil }
func (verifC14Manifest) StatesTree() util.Hash     { return nil }
func (verifC14Manifest) Suffrage() util.Hash       { return nil }
func (verifC14Manifest) ProposedAt() (t time.Time) { return t }

type verifC14Map struct {
	NodeSign
	m  verifC14Manifest
	id int // index of the fetch that answered with this map (0 = the given previous map)
}

func (m verifC14Map) Manifest() Manifest                    { return m.m }
func (verifC14Map) Item(BlockItemType) (BlockMapItem, bool) { return nil, false }
func (verifC14Map) Items(func(BlockMapItem) bool)           {}

const verifC14HashLen = 1

func verifC14Hash(name string) util.Hash {
	return valuehash.NewBytes(verifrt.NondetBytes(name, verifC14HashLen))
}

// verifC14Diff is zero iff the two hashes are equal (no branching).
func verifC14Diff(a, b util.Hash) uint64 {
	var d uint64
	ab, bb := a.Bytes(), b.Bytes()
	for i := 0; i < verifC14HashLen; i++ {
		d |= uint64(ab[i] ^ bb[i])
	}
	return d
}

// symbolic: every hash / previous hash is symbolic. Otherwise ("single break") the maps carry the
// concrete hashes of one linked chain, except one optional broken link (a symbolic previous hash)
// and the wrong-height answers (symbolic hash and previous hash).
func verifC14Run(n, limit, maxWrong int, symbolic bool) {
	// the given previous map: none (the range starts at the genesis height) or a map at a height
	var prev BlockMap
	prevheight := Height(41)
	var prevhash util.Hash
	switch verifrt.NondetChoice("prev", verifrt.Bound("prevkinds", 2, 3)) {
	case 1:
		prevheight = NilHeight
	case 2:
		prevheight = GenesisHeight
	}
	chainhash := func(i int) util.Hash { return valuehash.NewBytes([]byte{byte(10 + i)}) }
	if prevheight != NilHeight {
		if symbolic {
			prevhash = verifC14Hash("prev.hash")
		} else {
			prevhash = chainhash(0)
		}
		prev = verifC14Map{m: verifC14Manifest{h: prevheight, hash: prevhash, prev: verifC14Hash("prev.prev")}}
	}
	broken := 0
	if !symbolic {
		broken = verifrt.NondetChoice("brokenlink", n+1) // 0: none
		if broken != 0 {
			maxWrong = 0 // a single break: either a broken link or a wrong-height answer
		}
	}
	to := prevheight + Height(int64(n))

	// the answers of the remote, one per requested height prevheight+1 .. to
	answers := make([]verifC14Map, n+1)
	nwrong := 0
	for i := 1; i <= n; i++ {
		h := prevheight + Height(int64(i))
		wrong := false
		if nwrong < maxWrong && verifrt.NondetChoice("wrongheight", 2) == 1 {
			nwrong++
			wrong = true
			h = Height(int64(verifrt.NondetInt("height")))
		}
		switch {
		case symbolic || wrong:
			answers[i] = verifC14Map{id: i, m: verifC14Manifest{h: h, hash: verifC14Hash("hash"), prev: verifC14Hash("previous")}}
		case i == broken:
			answers[i] = verifC14Map{id: i, m: verifC14Manifest{h: h, hash: chainhash(i), prev: verifC14Hash("broken.previous")}}
		default:
			answers[i] = verifC14Map{id: i, m: verifC14Manifest{h: h, hash: chainhash(i), prev: chainhash(i - 1)}}
		}
	}

	// "linked chain" on the answers as fetched: bad == 0 iff every answer has the requested height
	// and its previous hash is the hash of the map below it (the given previous map for the first;
	// the first map of a chain that starts at the genesis height has nothing below it).
	var bad uint64
	for i := 1; i <= n; i++ {
		bad |= uint64(answers[i].m.h.Int64()) ^ uint64((prevheight + Height(int64(i))).Int64())
		switch {
		case i > 1:
			bad |= verifC14Diff(answers[i].m.prev, answers[i-1].m.hash)
		case prev != nil:
			bad |= verifC14Diff(answers[i].m.prev, prevhash)
		}
	}

	var lock sync.Mutex
	var delivered []verifC14Map
	fetched := make([]int, n+1)

	err := BatchIsValidMaps(
		context.Background(),
		prev,
		to,
		int64(limit),
		func(_ context.Context, height Height) (BlockMap, error) {
			i := int((height - prevheight).Int64())
			verifrt.Assert(i >= 1 && i <= n, "C14.only-heights-of-the-range-are-fetched")
			lock.Lock()
			fetched[i]++
			lock.Unlock()
			return answers[i], nil
		},
		func(m BlockMap) error {
			lock.Lock()
			delivered = append(delivered, m.(verifC14Map)) //nolint:forcetypeassert //...
			lock.Unlock()
			return nil
		},
	)
	verifrt.Reach("C14.returned")

	if err != nil {
		verifrt.Reach("C14.rejected")
		// <= : a linked chain is accepted
		verifrt.Assert(bad != 0, "C14.validation-succeeds-when-every-map-points-to-the-previous-map's-hash")
		return
	}
	verifrt.Reach("C14.accepted")
	if nwrong > 0 {
		verifrt.Reach("C14.accepted-with-a-wrong-height-answer")
	}
	if n > limit {
		verifrt.Reach("C14.accepted-several-batches")
	}
	// => : the maps that were validated and handed to the callback form the chain
	// prev -> prevheight+1 -> ... -> to. Maps are placed by their OWN manifest height (so answers
	// that arrive under the wrong request but form the chain, e.g. two swapped answers, count as
	// a linked chain: the weaker reading).
	// every height first (deterministic: does not depend on the arrival order) ...
	at := make([]*verifC14Map, n+1)
	for k := 1; k <= n; k++ {
		want := prevheight + Height(int64(k))
		for j := range delivered {
			if delivered[j].m.h == want {
				at[k] = &delivered[j]
			}
		}
		verifrt.Assert(at[k] != nil, "C14.success-only-if-every-height-up-to-`to`-has-a-validated-map")
		if at[k] == nil {
			return
		}
	}
	// ... then the links (n delivered maps cover n heights: exactly one map per height)
	verifrt.Assert(len(delivered) == n, "C14.every-fetched-map-was-handed-to-the-callback-once")
	below := prevhash // hash of the map one height below (nil: nothing below the genesis map)
	for k := 1; k <= n; k++ {
		if below != nil {
			verifrt.Assert(at[k].m.prev.Equal(below), "C14.success-only-if-every-map-points-to-the-previous-map's-hash")
		}
		below = at[k].m.hash
	}
}

// VerifC14Chain: chains of 1..N maps, every batch limit 1..N, every arrival order, at most one
// answer with a wrong height; hashes and previous hashes of every map symbolic.
func VerifC14Chain() {
	N := verifrt.Bound("chain", 3, 4)
	n := 1 + verifrt.NondetChoice("n", N)
	limit := 1 + verifrt.NondetChoice("limit", N)
	verifC14Run(n, limit, 1, true)
}

// VerifC14SingleBreak: longer chains with a single break: one linked chain of concrete hashes
// with at most one break: a broken link (symbolic previous hash) or a wrong-height answer
// (symbolic height, hash and previous hash).
func VerifC14SingleBreak() {
	N := verifrt.Bound("bchain", 4, 5)
	n := 1 + verifrt.NondetChoice("n", N)
	limit := 1 + verifrt.NondetChoice("limit", N)
	verifC14Run(n, limit, 1, false)
}

// VerifC14Swapped: up to two answers with arbitrary heights (covers swapped maps, duplicated
// maps and two independent height breaks) on shorter chains, every hash symbolic.
func VerifC14Swapped() {
	N := verifrt.Bound("schain", 3, 3)
	n := 2 + verifrt.NondetChoice("n", N-1)
	limit := 1 + verifrt.NondetChoice("limit", N)
	verifC14Run(n, limit, 2, true)
}
