package util

import (
	"bytes"
	"io"

	"github.com/spikeekips/mitum/util/verifrt"
)

// ---------------------------------------------------------------------------
// C29 Length-prefixed framing round-trips and rejects bad input.

func verifC29BE(b []byte) uint64 {
	var v uint64
	for i := 0; i < 8; i++ {
		v = v<<8 | uint64(b[i])
	}
	return v
}

// verifC29Tiles asserts that (m, left) is exactly what the input b announces:
// the count field equals len(m), and the items followed by left tile b[8:].
func verifC29Tiles(b []byte, m [][]byte, left []byte, pfx string) {
	verifrt.Assert(len(b) >= 8, pfx+".success-needs-count-field")
	if len(b) < 8 {
		return
	}
	cnt := verifC29BE(b)
	verifrt.Assert(uint64(len(m)) == cnt, pfx+".success-returns-announced-number-of-items(no-dropped-or-invented-data)")
	pos := 8
	for i := range m {
		verifrt.Assert(pos+8 <= len(b), pfx+".item-length-field-inside-input")
		if pos+8 > len(b) {
			return
		}
		l := verifC29BE(b[pos:])
		verifrt.Assert(uint64(len(m[i])) == l, pfx+".item-length-equals-length-field")
		pos += 8
		verifrt.Assert(pos+len(m[i]) <= len(b), pfx+".item-inside-input")
		if pos+len(m[i]) > len(b) {
			return
		}
		verifrt.Assert(bytes.Equal(m[i], b[pos:pos+len(m[i])]), pfx+".item-bytes-equal-input")
		pos += len(m[i])
	}
	verifrt.Assert(bytes.Equal(left, b[pos:]), pfx+".left-is-the-rest-of-input")
}

// VerifC29BufferHostile: an arbitrary buffer of up to L symbolic bytes.
// No panic; success only if the items and the rest tile the input exactly.
func VerifC29BufferHostile() {
	L := verifrt.Bound("L", 26, 42)
	K := uint64(verifrt.Bound("K", 3, 4))
	n := verifrt.NondetChoice("len", L+1)
	b := verifrt.NondetBytes("b", n)
	if n >= 8 {
		cnt := verifC29BE(b)
		// counts in (K, 32767] would only allocate a longer list that the <=L input cannot fill: outside the bound
		verifrt.Assume(cnt <= K || cnt > 32767)
	}
	m, left, err := ReadLengthedBytesSlice(b)
	verifrt.Reach("C29.buffer.returned")
	if err == nil {
		verifrt.Reach("C29.buffer.success")
		verifC29Tiles(b, m, left, "C29.buffer")
	} else {
		verifrt.Reach("C29.buffer.error")
	}
}

// VerifC29BufferRoundTrip: every list of up to N items of up to M bytes written
// with WriteLengthedSlice reads back identically with ReadLengthedBytesSlice,
// with a symbolic tail that must come back as left.
func VerifC29BufferRoundTrip() {
	N := verifrt.Bound("N", 3, 4)
	M := verifrt.Bound("M", 3, 4)
	k := verifrt.NondetChoice("items", N+1)
	m := make([][]byte, k)
	for i := range m {
		l := verifrt.NondetChoice("itemlen", M+1)
		m[i] = verifrt.NondetBytes("item", l)
	}
	tail := verifrt.NondetBytes("tail", verifrt.NondetChoice("taillen", 3))
	enc, err := NewLengthedBytesSlice(m)
	verifrt.Assert(err == nil, "C29.roundtrip.write-succeeds")
	if err != nil {
		return
	}
	in := append(append([]byte{}, enc...), tail...)
	got, left, err := ReadLengthedBytesSlice(in)
	verifrt.Reach("C29.roundtrip.read")
	verifrt.Assert(err == nil, "C29.roundtrip.read-succeeds")
	if err != nil {
		return
	}
	verifrt.Assert(len(got) == len(m), "C29.roundtrip.same-number-of-items")
	if len(got) != len(m) {
		return
	}
	for i := range m {
		verifrt.Assert(bytes.Equal(got[i], m[i]), "C29.roundtrip.items-identical")
	}
	verifrt.Assert(bytes.Equal(left, tail), "C29.roundtrip.left-identical")
}

// verifC29Reader delivers data in arbitrary chunks (at most `splits` short reads),
// and may or may not report io.EOF together with the last bytes.
type verifC29Reader struct {
	data   []byte
	pos    int
	splits int
	eofTogether bool
}

func (r *verifC29Reader) Read(p []byte) (int, error) {
	rem := len(r.data) - r.pos
	if rem == 0 {
		return 0, io.EOF
	}
	n := len(p)
	if n > rem {
		n = rem
	}
	if n > 1 && r.splits > 0 {
		c := verifrt.NondetChoice("chunk", n) // 0 => full, k => k bytes
		if c != 0 {
			n = c
			r.splits--
		}
	}
	copy(p, r.data[r.pos:r.pos+n])
	r.pos += n
	if r.pos == len(r.data) && r.eofTogether {
		return n, io.EOF
	}
	return n, nil
}

// VerifC29StreamRoundTrip: the same through ReadLengthedSlice over a chunked stream.
func VerifC29StreamRoundTrip() {
	N := verifrt.Bound("SN", 2, 3)
	M := verifrt.Bound("SM", 2, 3)
	k := verifrt.NondetChoice("items", N+1)
	m := make([][]byte, k)
	for i := range m {
		l := verifrt.NondetChoice("itemlen", M+1)
		m[i] = verifrt.NondetBytes("item", l)
	}
	w := bytes.NewBuffer(nil)
	err := WriteLengthedSlice(w, m)
	verifrt.Assert(err == nil, "C29.stream.write-succeeds")
	if err != nil {
		return
	}
	enc := w.Bytes()
	r := &verifC29Reader{data: enc, splits: verifrt.Bound("splits", 1, 2), eofTogether: verifrt.NondetChoice("eof", 2) == 1}
	read, got, err := ReadLengthedSlice(r)
	verifrt.Reach("C29.stream.read")
	verifrt.Assert(err == nil, "C29.stream.read-succeeds")
	if err != nil {
		return
	}
	verifrt.Assert(read == uint64(len(enc)), "C29.stream.consumed-exactly-the-encoding")
	verifrt.Assert(len(got) == len(m), "C29.stream.same-number-of-items")
	if len(got) != len(m) {
		return
	}
	for i := range m {
		verifrt.Assert(bytes.Equal(got[i], m[i]), "C29.stream.items-identical")
	}
}

// VerifC29StreamHostile: arbitrary bytes into ReadLengthedSlice: no panic; success
// only if the announced items tile the consumed prefix of the stream.
func VerifC29StreamHostile() {
	L := verifrt.Bound("SL", 20, 28)
	K := uint64(verifrt.Bound("SK", 2, 3))
	n := verifrt.NondetChoice("len", L+1)
	b := verifrt.NondetBytes("b", n)
	// precondition on the allocation sizes the input announces (see DESIGN C29): each
	// length field is either small enough to be satisfiable by the input or above the limits.
	if n >= 8 {
		cnt := verifC29BE(b)
		verifrt.Assume(cnt <= K || cnt > 32767)
		pos := 8
		for i := uint64(0); i < cnt && i <= K; i++ {
			if pos+8 > n {
				break
			}
			l := verifC29BE(b[pos:])
			verifrt.Assume(l <= uint64(L) || l > 2147483647)
			if l > uint64(L) || pos+8+int(l) > n {
				break
			}
			pos += 8 + int(l)
		}
	}
	r := &verifC29Reader{data: b, splits: verifrt.Bound("hsplits", 0, 1), eofTogether: verifrt.NondetChoice("eof", 2) == 1}
	read, got, err := ReadLengthedSlice(r)
	verifrt.Reach("C29.streamhostile.returned")
	if err != nil {
		return
	}
	verifrt.Reach("C29.streamhostile.success")
	verifrt.Assert(read <= uint64(n), "C29.streamhostile.read-count-within-input")
	verifrt.Assert(n >= 8, "C29.streamhostile.success-needs-count-field")
	if n < 8 {
		return
	}
	verifC29Tiles(b[:read], got, nil, "C29.streamhostile")
}
