package isaac

import (
	"time"

	"github.com/spikeekips/mitum/base"
	"github.com/spikeekips/mitum/util/verifrt"
)

// C06 Consensus progress is monotonic — one step from an arbitrary position.
//
// "Position" = (height, round, stage, suffrage-confirm flag) plus the majority flag.
// Preconditions (what callers pass after validation): heights >= 0, stage INIT or
// ACCEPT, suffrage-confirm only at INIT (NewLastPoint enforces it).

func verifC06Stage(name string) base.Stage {
	if verifrt.NondetChoice(name, 2) == 0 {
		return base.StageINIT
	}
	return base.StageACCEPT
}

func verifC06StageNum(s base.Stage) int {
	if s == base.StageACCEPT {
		return 3
	}
	return 1
}

type verifC06Pos struct {
	h     int64
	r     uint64
	stage base.Stage
	maj   bool
	sc    bool
}

func verifC06NondetPos(pfx string) verifC06Pos {
	p := verifC06Pos{
		h: int64(verifrt.NondetInt(pfx + ".height")), r: verifrt.NondetU64(pfx + ".round"),
		stage: verifC06Stage(pfx + ".stage"), maj: verifrt.NondetBool(pfx + ".majority"), sc: verifrt.NondetBool(pfx + ".sc"),
	}
	verifrt.Assume(p.h >= 0)
	if p.stage != base.StageINIT {
		verifrt.Assume(!p.sc)
	}
	return p
}

func (p verifC06Pos) stagePoint() base.StagePoint {
	return base.NewStagePoint(base.RawPoint(p.h, p.r), p.stage)
}

func (p verifC06Pos) lastPoint() LastPoint {
	l, err := NewLastPoint(p.stagePoint(), p.maj, p.sc)
	verifrt.Assert(err == nil, "C06.harness.valid-position-constructs")
	return l
}

// earlier: o is at the same height as l and at an earlier (round, stage).
func verifC06Earlier(o, l verifC06Pos) bool {
	if o.h != l.h {
		return false
	}
	if o.r != l.r {
		return o.r < l.r
	}
	return verifC06StageNum(o.stage) < verifC06StageNum(l.stage)
}

func verifC06SamePosition(o, l verifC06Pos) bool {
	return o.h == l.h && o.r == l.r && o.stage == l.stage && o.sc == l.sc
}

// VerifC06Before: LastPoint.Before / IsNewBallot (what SetLastPoint and ballot
// admission use), for every current and offered position over full 64-bit ranges.
func VerifC06Before() {
	l := verifC06NondetPos("last")
	o := verifC06NondetPos("offered")
	last := l.lastPoint()
	acc := last.Before(o.stagePoint(), o.sc)
	verifrt.Reach("C06.before.decided")
	verifrt.Assert(IsNewBallot(last, o.stagePoint(), o.sc) == acc, "C06.ballot-admission-is-the-same-predicate")
	if acc {
		verifrt.Reach("C06.before.accepted")
		verifrt.Assert(o.h >= l.h, "C06.position-never-moves-to-a-lower-height")
		if verifC06Earlier(o, l) {
			verifrt.Reach("C06.before.accepted-earlier")
			verifrt.Assert(o.sc && !l.maj, "C06.earlier-round-or-stage-only-for-suffrage-confirm-while-current-not-majority")
		}
		verifrt.Assert(!verifC06SamePosition(o, l), "C06.same-position-never-taken-twice")
	}
	if o.h < l.h {
		verifrt.Assert(!acc, "C06.lower-height-ballot-rejected")
	}
	// liveness side of the same rule (so that a check that rejects everything is noticed):
	if o.h > l.h {
		verifrt.Assert(acc, "C06.higher-height-accepted")
	}
}

// VerifC06NewVoteproof: IsNewVoteproofbyPoint (voteproof admission).
func VerifC06NewVoteproof() {
	l := verifC06NondetPos("last")
	o := verifC06NondetPos("offered")
	last := l.lastPoint()
	acc := IsNewVoteproofbyPoint(last, o.stagePoint(), o.maj, o.sc)
	verifrt.Reach("C06.newvoteproof.decided")
	if acc {
		verifrt.Assert(o.h >= l.h, "C06.voteproof.position-never-moves-to-a-lower-height")
		if verifC06Earlier(o, l) {
			verifrt.Assert(o.sc && !l.maj, "C06.voteproof.earlier-round-or-stage-only-for-suffrage-confirm-while-current-not-majority")
		}
		if verifC06SamePosition(o, l) {
			verifrt.Reach("C06.newvoteproof.same-position-accepted")
			verifrt.Assert(!l.maj && o.maj, "C06.voteproof.same-position-only-when-majority-replaces-non-majority")
		}
	}
	if o.h < l.h {
		verifrt.Assert(!acc, "C06.lower-height-voteproof-rejected")
	}
	if o.h > l.h {
		verifrt.Assert(acc, "C06.voteproof.higher-height-accepted")
	}
}

// ---- last-voteproofs store -------------------------------------------------

func verifC06Voteproof(p verifC06Pos) base.Voteproof {
	bvp := baseVoteproof{point: p.stagePoint(), finishedAt: time.Unix(1700000000, 0)}
	if p.stage == base.StageINIT {
		if p.maj {
			if p.sc {
				bvp.majority = SuffrageConfirmBallotFact{}
			} else {
				bvp.majority = INITBallotFact{}
			}
		}
		return INITVoteproof{baseVoteproof: bvp}
	}
	if p.maj {
		bvp.majority = ACCEPTBallotFact{}
	}
	return ACCEPTVoteproof{baseVoteproof: bvp}
}

func verifC06PosOfVoteproof(vp base.Voteproof) verifC06Pos {
	sp := vp.Point()
	return verifC06Pos{h: sp.Height().Int64(), r: sp.Round().Uint64(), stage: sp.Stage(),
		maj: vp.Result() == base.VoteResultMajority, sc: IsSuffrageConfirmBallotFact(vp.Majority())}
}

// VerifC06LastVoteproofs: sequences of Set on the last-voteproofs store; after
// every step the newest voteproof (Last().Cap()) obeys the same rules relative to
// the one before the step.
func VerifC06LastVoteproofs() {
	n := verifrt.Bound("sets", 3, 4)
	h := NewLastVoteproofsHandler()
	var cur *verifC06Pos
	for i := 0; i < n; i++ {
		// the store keys its cache by the printed stage point, so heights and rounds are
		// concrete here: 2 heights x 2 rounds x 2 stages x {not majority, majority, suffrage-confirm majority}
		o := verifC06Pos{h: int64(33 + verifrt.NondetChoice("vp.height", 2)), r: uint64(verifrt.NondetChoice("vp.round", 2)), stage: verifC06Stage("vp.stage")}
		switch verifrt.NondetChoice("vp.kind", 3) {
		case 1:
			o.maj = true
		case 2:
			o.maj, o.sc = true, true
			verifrt.Assume(o.stage == base.StageINIT)
		}
		vp := verifC06Voteproof(o)
		isnew := h.IsNew(vp)
		ok := h.Set(vp)
		verifrt.Reach("C06.lastvoteproofs.set")
		capvp := h.Last().Cap()
		if cur == nil {
			verifrt.Assert(ok && isnew, "C06.lastvoteproofs.first-voteproof-accepted")
		}
		if capvp == nil {
			verifrt.Assert(false, "C06.lastvoteproofs.store-not-empty-after-set")
			return
		}
		now := verifC06PosOfVoteproof(capvp)
		if cur != nil {
			l := *cur
			if !isnew {
				// reading used: "moves" are the updates judged new; a voteproof the store itself judged
				// not new (it may still fill a missing INIT/ACCEPT voteproof of the stored point) leaves
				// the position where it was
				verifrt.Assert(now == l, "C06.lastvoteproofs.position-moves-only-by-a-voteproof-judged-new")
			}
			verifrt.Assert(now.h >= l.h, "C06.lastvoteproofs.never-lower-height")
			if o.h < l.h {
				verifrt.Assert(!isnew, "C06.lastvoteproofs.lower-height-not-new")
			}
			if verifC06Earlier(now, l) {
				// the step that moved the store back must be the acceptance of a suffrage-confirm
				// result while the position before was not a majority (the newest voteproof of the
				// store may then be an older one of that earlier round)
				verifrt.Assert(ok && o.sc && !l.maj, "C06.lastvoteproofs.earlier-only-by-taking-suffrage-confirm-while-not-majority")
			}
		}
		cur = &now
	}
}
