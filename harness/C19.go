package isaacdatabase

import (
	"context"

	"github.com/spikeekips/mitum/base"
	"github.com/spikeekips/mitum/isaac"
	"github.com/spikeekips/mitum/util/verifrt"
)

// C19 Database reads agree with the committed chain.
//
// Kernel: the real Center over real TempLeveldb databases (made by the real LeveldbBlockWrite)
// and the real LeveldbPermanent, all over one leveldb storage (ordered-map model); see
// DB_common.go for the world and for the model ("simply keeps all committed blocks").
//
// A history is a sequence of steps; after EVERY step every read of isaac.Database is compared
// with the model (verifDBCheckReads): State, BlockMap (every height up to one above the last),
// LastBlockMap, SuffrageProof (every suffrage height up to one above the last),
// SuffrageProofByBlockHeight (every block height up to one above the last), LastSuffrageProof,
// ExistsInStateOperation, ExistsKnownOperation, LastNetworkPolicy.
//
// Steps:
//   write   the next block (height = last+1) is written by a LeveldbBlockWrite the way
//           isaac/block.Writer does and merged with Center.MergeBlockWriteDatabase. The block's
//           shape is chosen: plain states only / a suffrage change (next suffrage height, with
//           its proof) / a network policy change.
//   merge   one Center.mergePermanent step (what the Center's ticker does): the oldest temp
//           database is merged into the permanent database when there are at least two.
//   remove  Center.RemoveBlocks(h) for a chosen h.
//   reopen  the permanent database and the Center are constructed anew over the storage
//           (node restart).
// Block 0 is the genesis block (suffrage height 0 and a network policy), as in a real chain.

type verifC19Hist struct {
	w      *verifDBWorld
	chain  []*verifDBBlock // committed
	all    []*verifDBBlock // every block ever written
	inperm int             // number of blocks merged into the permanent database
	gen    int
	groups int // read groups compared by check (0: all), see DB_common.go
}

func (h *verifC19Hist) write(shape int) {
	height := base.Height(len(h.chain))
	var blk *verifDBBlock
	switch {
	case height == 0:
		blk = verifDBNewBlock(height, h.gen, 0, true, []byte{'a'})
	case shape == 0:
		blk = verifDBNewBlock(height, h.gen, -1, false, []byte{'a'})
	case shape == 1:
		sh := 0
		for _, c := range h.chain {
			if c.proof != nil {
				sh = int(c.proof.SuffrageHeight()) + 1
			}
		}
		blk = verifDBNewBlock(height, h.gen, sh, false, []byte{'b'})
	default:
		blk = verifDBNewBlock(height, h.gen, -1, true, []byte{'a', 'b'})
	}
	h.gen++
	err := h.w.writeBlock(blk, false)
	verifrt.Assert(err == nil, "C19.harness.block-write-and-merge-succeed")
	h.chain = append(h.chain, blk)
	h.all = append(h.all, blk)
}

func (h *verifC19Hist) merge() {
	merged, err := h.w.center.mergePermanent(context.Background())
	verifrt.Assert(err == nil, "C19.harness.merge-into-permanent-succeeds")
	want := len(h.chain)-h.inperm >= 2
	verifrt.Assert(merged == want, "C19.harness.merges-the-oldest-temp-when-two-or-more-are-held")
	if merged {
		h.inperm++
		verifrt.Reach("C19.step.merged-into-permanent")
	}
}

func (h *verifC19Hist) remove(height base.Height) {
	removed, err := h.w.center.RemoveBlocks(height)
	verifrt.Assert(err == nil, "C19.harness.remove-blocks-succeeds")
	// only blocks still held in temp databases can be removed
	want := int(height) >= h.inperm && int(height) < len(h.chain)
	verifrt.Assert(removed == want, "C19.remove.removes-exactly-when-the-height-is-held-in-a-temp-database")
	if removed {
		h.chain = h.chain[:height]
		verifrt.Reach("C19.step.blocks-removed")
	}
}

func (h *verifC19Hist) check() {
	g := h.groups
	if g == 0 {
		g = verifDBGroupAll
	}
	verifDBCheckReadGroups(h.w.center, h.chain, h.all, "C19", g)
	verifDBCheckBytesReads(h.w, h.chain, h.all, "C19", g)
}

// VerifC19History: every history of up to `steps` steps after the genesis block.
func VerifC19History() {
	cache := 0
	if verifrt.NondetChoice("statecache", 2) == 1 {
		cache = 4
	}
	h := &verifC19Hist{w: verifDBNewWorld(cache)}
	h.check()
	h.write(0)
	h.check()
	steps := verifrt.Bound("steps", 3, 4)
	reopened := false
	for i := 0; i < steps; i++ {
		lastStep := i == steps-1
		op := verifrt.NondetChoice("step", 6)
		// steps that change nothing are only explored as the last step of a history
		switch op {
		case 0, 1, 2:
			h.write(op)
		case 3:
			verifrt.Assume(lastStep || len(h.chain)-h.inperm >= 2)
			h.merge()
		case 4:
			// remove from the last block or from the one before it (or above the last: no-op)
			d := verifrt.NondetChoice("remove-from", 3)
			verifrt.Assume(lastStep || d > 0)
			h.remove(base.Height(len(h.chain) - d))
		case 5:
			verifrt.Assume(!reopened)
			h.w.open()
			verifrt.Reach("C19.step.reopened")
		}
		reopened = op == 5
		h.check()
	}
	if h.inperm > 0 && len(h.chain) > h.inperm+1 {
		verifrt.Reach("C19.history.blocks-in-permanent-and-in-two-temps")
	}
}

// VerifC19MergedChain: a longer chain than VerifC19History reaches: blocks 1..n of chosen shapes
// are committed, then m <= n merge steps move the oldest blocks into the permanent database
// (reads compared after every step), then the node restarts (reads compared again). Each path
// compares one group of reads (see DB_common.go), so that a wrong answer in one group does not
// hide the others.
func VerifC19MergedChain() {
	cache := 0
	if verifrt.NondetChoice("statecache", 2) == 1 {
		cache = 4
	}
	h := &verifC19Hist{w: verifDBNewWorld(cache)}
	// one group of reads per path: basic / proofs by suffrage height / proofs by block height /
	// bytes / proof bytes by suffrage height
	h.groups = 1 << verifrt.NondetChoice("read-group", verifDBNGroups)
	h.write(0)
	n := verifrt.Bound("blocks", 3, 4)
	for i := 0; i < n; i++ {
		h.write(verifrt.NondetChoice("shape", 3))
	}
	h.check()
	m := verifrt.NondetChoice("merges", n+1)
	for i := 0; i < m; i++ {
		h.merge()
		h.check()
	}
	if m >= 2 {
		verifrt.Reach("C19.chain.two-or-more-blocks-in-permanent-below-the-temps")
	}
	h.w.open()
	h.check()
	verifrt.Reach("C19.chain.checked-after-reopen")
}

// VerifC19ConcurrentReads: "Concurrent reads during merges never see a state older than one
// already returned" - and, once everything has finished, reads still agree with the model.
//
// Start: block 0 (state "sa"@0) in the permanent database, block 1 (no "sa") in a temp database;
// the permanent database has its state cache (production default: isaac.DefaultStateCacheSize).
// A reader reads State("sa") `reads` times. Meanwhile a second goroutine commits block 2 (with
// "sa"@2) and block 3 and runs the Center's merge step twice (what the Center's ticker goroutine
// does), which moves blocks 1 and 2 into the permanent database.
func VerifC19ConcurrentReads() {
	cache := 4 // quick: the permanent state cache is on (production default); thorough: also off
	if verifrt.NondetChoice("statecache-off", 1+verifrt.Bound("cacheoff", 0, 1)) == 1 {
		cache = 0
	}
	h := &verifC19Hist{w: verifDBNewWorld(cache)}
	h.write(0) // genesis: suffrage, policy, "sa"
	h.write(1) // suffrage change, "sb"
	h.merge()  // block 0 -> permanent
	b0 := h.chain[0]

	nreads := verifrt.Bound("reads", 1, 3)
	seen := make([]base.Height, 0, nreads)
	reader := func() {
		for i := 0; i < nreads; i++ {
			st, found, err := h.w.center.State("sa")
			verifrt.Assert(err == nil && found, "C19.concurrent.state-of-a-committed-key-is-found")
			if err != nil || !found {
				return
			}
			seen = append(seen, st.Height())
		}
	}
	// the committing side reads too (as a node does after it saved a block): right after its
	// commit of block 2
	seen2 := make([]base.Height, 0, 1)
	mutator := func() {
		h.write(0) // block 2: "sa"@2
		st, found, err := h.w.center.State("sa")
		verifrt.Assert(err == nil && found, "C19.concurrent.state-of-a-committed-key-is-found")
		if err == nil && found {
			seen2 = append(seen2, st.Height())
		}
		h.write(1) // block 3
		h.merge()  // block 1 -> permanent
		h.merge()  // block 2 -> permanent
	}
	// the preemption bound counts forced switches away from a running goroutine; the goroutine
	// started first runs first, so both orders are explored
	done := make(chan struct{})
	if verifrt.NondetChoice("reader-starts-first", 2) == 1 {
		go func() {
			defer close(done)
			mutator()
		}()
		reader()
	} else {
		go func() {
			defer close(done)
			reader()
		}()
		mutator()
	}
	<-done

	for i := range seen {
		verifrt.Assert(seen[i] == b0.height || seen[i] == 2, "C19.concurrent.returned-state-is-a-committed-one")
		if i > 0 {
			verifrt.Assert(seen[i] >= seen[i-1], "C19.concurrent-reads-never-see-a-state-older-than-one-already-returned")
		}
	}
	if len(seen) > 0 && seen[0] == b0.height {
		verifrt.Reach("C19.concurrent.reader-saw-the-old-state")
	}
	if len(seen) > 0 && seen[len(seen)-1] == 2 {
		verifrt.Reach("C19.concurrent.reader-saw-the-new-state")
	}
	// a read that starts after all the others have returned
	st, found, err := h.w.center.State("sa")
	verifrt.Assert(err == nil && found, "C19.concurrent.state-of-a-committed-key-is-found")
	if err == nil && found {
		for _, x := range append(append([]base.Height{}, seen...), seen2...) {
			verifrt.Assert(st.Height() >= x, "C19.concurrent-reads-never-see-a-state-older-than-one-already-returned")
		}
		if len(seen2) > 0 && seen2[0] == 2 {
			verifrt.Reach("C19.concurrent.late-read-compared-with-an-earlier-read-of-the-new-state")
		}
	}
	verifrt.Reach("C19.concurrent.finished")
	// quiescent: every read of block maps, states, operations and the policy agrees with the model
	// again (the suffrage proof reads do not depend on the schedule; they are compared in the
	// sequential entries)
	h.groups = verifDBGroupBasic
	h.check()
}

var _ isaac.Database = (*Center)(nil)
