package isaacstates

import (
	"github.com/spikeekips/mitum/base"
	"github.com/spikeekips/mitum/isaac"
	"github.com/spikeekips/mitum/util"
	"github.com/spikeekips/mitum/util/valuehash"
)

// Shared harness world for the ballotbox checks (C04, C05): a suffrage of 4 nodes with
// harness keys (signature checking is not what the ballotbox does), real isaac ballot
// facts, and a sign-fact type that carries node, key and fact.

type verifBBPub struct{ s string }

func (p verifBBPub) String() string                      { return p.s }
func (p verifBBPub) Bytes() []byte                       { return []byte(p.s) }
func (p verifBBPub) IsValid([]byte) error                { return nil }
func (p verifBBPub) Equal(o base.PKKey) bool             { return o != nil && o.String() == p.s }
func (p verifBBPub) Verify([]byte, base.Signature) error { return nil }

type verifBBSF struct {
	node base.Address
	pub  base.Publickey
	fact base.BallotFact
}

func (s verifBBSF) HashBytes() []byte {
	return util.ConcatBytesSlice(s.node.Bytes(), s.fact.Hash().Bytes())
}
func (s verifBBSF) IsValid([]byte) error       { return nil }
func (s verifBBSF) Fact() base.Fact            { return s.fact }
func (s verifBBSF) Signs() []base.Sign         { return nil }
func (s verifBBSF) NodeSigns() []base.NodeSign { return nil }
func (s verifBBSF) Node() base.Address         { return s.node }
func (s verifBBSF) Signer() base.Publickey     { return s.pub }

type verifBBWorld struct {
	nodes []base.Node
	suf   base.Suffrage
	box   *Ballotbox
	th    base.Threshold
	// onThreshold runs whenever the box asks for the threshold (a point in the middle of counting)
	onThreshold func()
}

func verifBBNewWorld(n int, th base.Threshold) *verifBBWorld {
	w := &verifBBWorld{th: th}
	for i := 0; i < n; i++ {
		w.nodes = append(w.nodes, isaac.NewNode(verifBBPub{s: "pub-" + string(rune('a'+i))}, base.NewStringAddress("node-"+string(rune('a'+i)))))
	}
	suf, err := isaac.NewSuffrage(w.nodes)
	if err != nil {
		panic(err)
	}
	w.suf = suf
	w.box = NewBallotbox(w.nodes[0].Address(), func() base.Threshold {
		if w.onThreshold != nil {
			w.onThreshold()
		}
		return w.th
	},
		func(base.Height) (base.Suffrage, bool, error) { return w.suf, true, nil })
	return w
}

// verifBBPoint: a small concrete universe of stage points.
type verifBBPoint struct {
	h     int64
	r     uint64
	stage base.Stage
	sc    bool
}

func (p verifBBPoint) stagePoint() base.StagePoint {
	return base.NewStagePoint(base.RawPoint(p.h, p.r), p.stage)
}

func (p verifBBPoint) key() string {
	k := p.stagePoint().String()
	if p.sc {
		k = "sf-" + k
	}
	return k
}

// fact builds the real ballot fact of this point; variant selects between two conflicting facts.
func (p verifBBPoint) fact(variant int) base.BallotFact {
	prev := valuehash.NewSHA256([]byte("previous-block"))
	prop := valuehash.NewSHA256([]byte{'p', byte('0' + variant)})
	switch {
	case p.sc:
		return isaac.NewSuffrageConfirmBallotFact(p.stagePoint().Point, prev, prop, []util.Hash{valuehash.NewSHA256([]byte("expel-fact"))})
	case p.stage == base.StageINIT:
		return isaac.NewINITBallotFact(p.stagePoint().Point, prev, prop, nil)
	default:
		return isaac.NewACCEPTBallotFact(p.stagePoint().Point, prop, valuehash.NewSHA256([]byte{'b', byte('0' + variant)}), nil)
	}
}

func (w *verifBBWorld) signFact(node int, p verifBBPoint, variant int) verifBBSF {
	return verifBBSF{node: w.nodes[node].Address(), pub: w.nodes[node].Publickey(), fact: p.fact(variant)}
}

// drain takes the voteproofs emitted so far.
func (w *verifBBWorld) drain() []base.Voteproof {
	var vps []base.Voteproof
	for {
		select {
		case vp := <-w.box.vpch:
			vps = append(vps, vp)
		default:
			return vps
		}
	}
}

// verifBBPriv: harness private key (ideal scheme: the signature names the key; Verify is not
// what the code under test does in these checks).
type verifBBPriv struct{ s string }

func (p verifBBPriv) String() string              { return "priv-" + p.s }
func (p verifBBPriv) Bytes() []byte               { return []byte("priv-" + p.s) }
func (p verifBBPriv) IsValid([]byte) error        { return nil }
func (p verifBBPriv) Equal(o base.PKKey) bool     { return o != nil && o.String() == p.String() }
func (p verifBBPriv) Publickey() base.Publickey   { return verifBBPub{s: p.s} }
func (p verifBBPriv) Sign(b []byte) (base.Signature, error) {
	return base.Signature(util.ConcatBytesSlice([]byte("signed-by-"+p.s+":"), valuehash.NewSHA256(b).Bytes())), nil
}
