package isaac

import (
	"time"

	"github.com/spikeekips/mitum/base"
	"github.com/spikeekips/mitum/util"
	"github.com/spikeekips/mitum/util/valuehash"
	"github.com/spikeekips/mitum/util/verifrt"
)

// C03 Agreement: no two conflicting voteproofs for one stage point.
//
// For a suffrage of n nodes and a threshold t >= 67, TWO voteproofs for the same stage point
// with different majority facts are built and run through the real validation
// (Voteproof.IsValid and isaac.IsValidVoteproofWithSuffrage: suffrage membership, expel
// operations, reduced suffrage, recount). Each node has a role in each voteproof: votes for the
// voteproof's majority fact, is absent, or is expelled by it. All role assignments are explored
// up to renaming of nodes; the expel operations of one voteproof all carry the same number of
// node signs (0..n-1 distinct suffrage nodes other than the expelled one — fewer signs only
// make acceptance harder, which signer it is does not enter validation beyond membership).
// A node that votes in both voteproofs signed two different facts for the stage point
// (equivocator). Assertion: both accepted with different majorities  =>  equivocators > f,
// f = NumberOfFaultyNodes(n, t) (the real function).
//
// Keys are a harness scheme (signature checks are assumed to hold: unforgeability).

type verifC03Pub struct{ s string }

func (p verifC03Pub) String() string                      { return p.s }
func (p verifC03Pub) Bytes() []byte                       { return []byte(p.s) }
func (p verifC03Pub) IsValid([]byte) error                { return nil }
func (p verifC03Pub) Equal(o base.PKKey) bool             { return o != nil && o.String() == p.s }
func (p verifC03Pub) Verify([]byte, base.Signature) error { return nil }

type verifC03Priv struct{ s string }

func (p verifC03Priv) String() string            { return "priv-" + p.s }
func (p verifC03Priv) Bytes() []byte             { return []byte("priv-" + p.s) }
func (p verifC03Priv) IsValid([]byte) error      { return nil }
func (p verifC03Priv) Equal(o base.PKKey) bool   { return o != nil && o.String() == p.String() }
func (p verifC03Priv) Publickey() base.Publickey { return verifC03Pub{s: p.s} }
func (p verifC03Priv) Sign(b []byte) (base.Signature, error) {
	return base.Signature(util.ConcatBytesSlice([]byte("signed-by-"+p.s+":"), valuehash.NewSHA256(b).Bytes())), nil
}

type verifC03SF struct {
	node   base.Address
	pub    base.Publickey
	fact   base.BallotFact
	forged bool // the signature does not verify (ideal scheme: a sign fact nobody signed)
}

func (s verifC03SF) HashBytes() []byte {
	return util.ConcatBytesSlice(s.node.Bytes(), s.fact.Hash().Bytes())
}
func (s verifC03SF) IsValid([]byte) error {
	if s.forged {
		return util.ErrInvalid.Errorf("signature verification failed")
	}
	return nil
}
func (s verifC03SF) Fact() base.Fact            { return s.fact }
func (s verifC03SF) Signs() []base.Sign         { return nil }
func (s verifC03SF) NodeSigns() []base.NodeSign { return nil }
func (s verifC03SF) Node() base.Address         { return s.node }
func (s verifC03SF) Signer() base.Publickey     { return s.pub }

const (
	verifC03Absent = iota
	verifC03Votes
	verifC03Expelled
)

var verifC03Network = base.NetworkID([]byte("network"))

type verifC03World struct {
	n     int
	nodes []base.Node
	suf   base.Suffrage
	point base.Point
}

func verifC03NewWorld(n int) *verifC03World {
	w := &verifC03World{n: n, point: base.RawPoint(33, 0)}
	for i := 0; i < n; i++ {
		id := string(rune('a' + i))
		w.nodes = append(w.nodes, NewNode(verifC03Pub{s: "key-" + id}, base.NewStringAddress("node-"+id)))
	}
	suf, err := NewSuffrage(w.nodes)
	verifrt.Assert(err == nil, "C03.harness.suffrage")
	w.suf = suf
	return w
}

// voteproof builds an INIT voteproof (plain, or with expels) for the majority fact `variant`.
func (w *verifC03World) voteproof(roles []int, signs int, variant int, th base.Threshold) base.Voteproof {
	return w.voteproofForged(roles, signs, variant, th, 0)
}

// voteproofForged: as voteproof; forged > 0 makes the sign fact of the forged-th voter one whose
// signature does not verify.
func (w *verifC03World) voteproofForged(roles []int, signs int, variant int, th base.Threshold, forged int) base.Voteproof {
	var expels []base.SuffrageExpelOperation
	var expelfacts []util.Hash
	for i, r := range roles {
		if r != verifC03Expelled {
			continue
		}
		op := NewSuffrageExpelOperation(NewSuffrageExpelFact(w.nodes[i].Address(), base.Height(30), base.Height(40), "dead"))
		signed := 0
		for j := 0; j < w.n && signed < signs; j++ {
			if j == i {
				continue
			}
			id := string(rune('a' + j))
			verifrt.Assert(op.NodeSign(verifC03Priv{s: "key-" + id}, verifC03Network, w.nodes[j].Address()) == nil, "C03.harness.expel-sign")
			signed++
		}
		expels = append(expels, op)
		expelfacts = append(expelfacts, op.Fact().Hash())
	}
	prop := valuehash.NewSHA256([]byte{'p', byte('0' + variant)})
	fact := NewINITBallotFact(w.point, valuehash.NewSHA256([]byte("previous")), prop, expelfacts)
	var sfs []base.BallotSignFact
	for i, r := range roles {
		if r == verifC03Votes {
			sfs = append(sfs, verifC03SF{node: w.nodes[i].Address(), pub: w.nodes[i].Publickey(), fact: fact, forged: len(sfs)+1 == forged})
		}
	}
	bvp := baseVoteproof{
		BaseHinter: INITVoteproof{}.BaseHinter, point: base.NewStagePoint(w.point, base.StageINIT),
		id: "vp", finishedAt: time.Unix(1700000000, 0), majority: fact, sfs: sfs, threshold: th,
	}
	if len(expels) == 0 {
		vp := NewINITVoteproof(w.point)
		vp.baseVoteproof.finishedAt, vp.baseVoteproof.majority, vp.baseVoteproof.sfs, vp.baseVoteproof.threshold = bvp.finishedAt, bvp.majority, bvp.sfs, th
		return vp
	}
	vp := NewINITExpelVoteproof(w.point)
	vp.baseVoteproof.finishedAt, vp.baseVoteproof.majority, vp.baseVoteproof.sfs, vp.baseVoteproof.threshold = bvp.finishedAt, bvp.majority, bvp.sfs, th
	_ = vp.SetExpels(expels)
	return vp
}

func (w *verifC03World) accepted(vp base.Voteproof) bool {
	if len(vp.SignFacts()) == 0 {
		return false
	}
	if vp.IsValid(verifC03Network) != nil {
		return false
	}
	return IsValidVoteproofWithSuffrage(vp, w.suf) == nil
}

// VerifC03Agreement explores every pair of voteproof shapes.
func VerifC03Agreement() {
	ns := []int{3, 4, 5}
	n := ns[verifrt.NondetChoice("n", verifrt.Bound("sizes", 2, 3))]
	t10s := []int{670, 750, 1000, 675, 700, 800}
	t10 := t10s[verifrt.NondetChoice("threshold", verifrt.Bound("thresholds", 3, 6))]
	th := base.Threshold(float64(t10) / 10)
	w := verifC03NewWorld(n)
	// roles up to renaming of nodes: the pair (role in vp1, role in vp2) is non-decreasing along the nodes
	r1 := make([]int, n)
	r2 := make([]int, n)
	prev := 0
	k1, k2 := 0, 0
	maxExpels := verifrt.Bound("maxexpels", 2, 3)
	for i := 0; i < n; i++ {
		c := prev + verifrt.NondetChoice("role", 9-prev)
		prev = c
		r1[i], r2[i] = c/3, c%3
		if r1[i] == verifC03Expelled {
			k1++
		}
		if r2[i] == verifC03Expelled {
			k2++
		}
	}
	verifrt.Assume(k1 <= maxExpels && k2 <= maxExpels)
	s1, s2 := 0, 0
	if k1 > 0 {
		s1 = verifrt.NondetChoice("signs1", n)
	}
	if k2 > 0 {
		s2 = verifrt.NondetChoice("signs2", n)
	}
	vp1 := w.voteproof(r1, s1, 0, th)
	vp2 := w.voteproof(r2, s2, 1, th)
	a1 := w.accepted(vp1)
	if !a1 {
		return
	}
	a2 := w.accepted(vp2)
	verifrt.Reach("C03.first-voteproof-accepted")
	if !a2 {
		return
	}
	verifrt.Reach("C03.both-voteproofs-accepted")
	equivocators := 0
	for i := 0; i < n; i++ {
		if r1[i] == verifC03Votes && r2[i] == verifC03Votes {
			equivocators++
		}
	}
	f := base.NumberOfFaultyNodes(uint(n), th)
	q := th.Threshold(uint(n))
	class := "(plain-voteproofs)"
	switch {
	case uint(k1) > uint(n)-q || uint(k2) > uint(n)-q:
		class = "(a-voteproof-expels-more-nodes-than-n-minus-the-required-count)"
	case k1 > 0 || k2 > 0:
		class = "(voteproofs-with-expels)"
	}
	verifrt.Assert(equivocators > f, "C03.two-accepted-voteproofs-with-different-majority-facts-need-more-than-f-equivocators"+class)
}

// VerifC03SingleVoteproof: soundness of acceptance itself for one voteproof: an accepted majority
// voteproof has its majority fact signed by at least the required count of the (reduced) suffrage,
// never by an expelled node, and (with expels) every expel carries node signs.
func VerifC03SingleVoteproof() {
	ns := []int{3, 4, 5}
	n := ns[verifrt.NondetChoice("n", verifrt.Bound("sizes1", 3, 3))]
	t10s := []int{670, 750, 1000}
	th := base.Threshold(float64(t10s[verifrt.NondetChoice("threshold", len(t10s))]) / 10)
	w := verifC03NewWorld(n)
	r := make([]int, n)
	prev, k, votes := 0, 0, 0
	for i := 0; i < n; i++ {
		c := prev + verifrt.NondetChoice("role", 3-prev)
		prev = c
		r[i] = c
		if c == verifC03Expelled {
			k++
		}
		if c == verifC03Votes {
			votes++
		}
	}
	s := 0
	if k > 0 {
		s = verifrt.NondetChoice("signs", n)
	}
	// full validation includes the signatures: at most one of the sign facts (any position) is
	// one whose signature does not verify
	forged := 0
	if votes > 0 {
		forged = verifrt.NondetChoice("forged", votes+1)
	}
	vp := w.voteproofForged(r, s, 0, th, forged)
	if !w.accepted(vp) {
		return
	}
	verifrt.Reach("C03.single.accepted")
	verifrt.Assert(forged == 0, "C03.single.accepted-by-full-validation(signatures)-has-no-sign-fact-whose-signature-fails")
	q := th.Threshold(uint(n))
	if k == 0 {
		verifrt.Assert(uint(votes) >= q, "C03.single.plain-majority-voteproof-has-the-required-count-of-votes")
	} else {
		verifrt.Assert(votes == n-k, "C03.single.expel-voteproof-is-voted-by-every-remaining-node")
		verifrt.Assert(s >= 1, "C03.single.expels-carry-node-signs")
	}
}
