package isaac

import (
	"github.com/pkg/errors"
	"context"
	"time"

	"github.com/spikeekips/mitum/base"
	"github.com/spikeekips/mitum/util"
	"github.com/spikeekips/mitum/util/valuehash"
	"github.com/spikeekips/mitum/util/verifrt"
)

// C07 Proposer selection is deterministic and picks a suffrage member.
//
// Mechanism under test (real code): BaseProposalSelector.getNodes (sorts what the
// suffrage lookup returned) followed by BlockBasedProposerSelector.Select, and,
// in VerifC07Selector, the whole BaseProposalSelector.Select around them.
//
// World: a suffrage of n nodes whose addresses are real base.StringAddress values
// over symbolic, pairwise distinct strings (so the listing handed to the selector is
// an arbitrary permutation of an arbitrary address set), a point with symbolic
// height (>= 0) and round, a previous-block hash of 32 symbolic bytes.

// verifC07Addresses: n pairwise distinct addresses; symbolic strings (any set in any order), or,
// where the listing order is varied explicitly, a fixed set with prefix-related and
// case-differing members.
func verifC07Addresses(n int, symbolic bool) []base.Address {
	as := make([]base.Address, n)
	if !symbolic {
		for i := range as {
			as[i] = base.NewStringAddress([]string{"abc", "ab", "aBc", "b-1", "abd", "Zz9"}[i])
		}
		return as
	}
	strs := make([]string, n)
	for i := range as {
		l := 3
		if i == 0 && n <= 3 { // one address of another length (prefix cases)
			l += verifrt.NondetChoice("addrlen", verifrt.Bound("addrlens", 1, 2))
		}
		strs[i] = verifrt.NondetString("addr", l)
		for j := 0; j < i; j++ {
			verifrt.Assume(strs[i] != strs[j]) // a suffrage has unique members (C17)
		}
		as[i] = base.NewStringAddress(strs[i])
	}
	return as
}

func verifC07Nodes(as []base.Address) []base.Node {
	ns := make([]base.Node, len(as))
	for i := range as {
		ns[i] = NewNode(nil, as[i])
	}
	return ns
}

func verifC07Point() base.Point {
	h := int64(verifrt.NondetInt("height"))
	verifrt.Assume(h >= 0)
	return base.RawPoint(h, verifrt.NondetU64("round"))
}

func verifC07Hash() util.Hash {
	return valuehash.NewBytes(verifrt.NondetBytes("previousblock", 32))
}

// verifC07Pick is what every node does: look the suffrage nodes up (getNodes sorts
// them), then ask the block based selector.
func verifC07Pick(listing []base.Node, point base.Point, prev util.Hash, pfx string) base.Node {
	var ps *BaseProposalSelector
	cp := make([]base.Node, len(listing)) // every node holds its own listing
	copy(cp, listing)
	nodes, found, err := ps.getNodes(point.Height(), func(base.Height) ([]base.Node, bool, error) {
		return cp, true, nil
	})
	verifrt.Assert(err == nil && found && len(nodes) == len(listing), pfx+".suffrage-nodes-returned-unchanged-in-number")
	sel, err := NewBlockBasedProposerSelector().Select(context.Background(), point, nodes, prev)
	verifrt.Assert(err == nil && sel != nil, pfx+".a-proposer-is-selected-for-a-non-empty-suffrage")
	return sel
}

func verifC07IsMember(sel base.Node, listing []base.Node) bool {
	for i := range listing {
		if sel.Address().Equal(listing[i].Address()) {
			return true
		}
	}
	return false
}

// VerifC07AnyListing: the listing is an arbitrary permutation (addresses are symbolic and
// unordered); the reference is the same set listed in one canonical order that depends on
// the set only (ascending address, computed by the harness). Equal to the reference for
// every listing  =>  equal for any two listings of the same suffrage.
func VerifC07AnyListing() {
	n := 1 + verifrt.NondetChoice("n", verifrt.Bound("n", 4, 5))
	as := verifC07Addresses(n, true)
	listing := verifC07Nodes(as)
	// canonical listing of the same set
	ref := make([]base.Node, n)
	copy(ref, listing)
	for i := 1; i < n; i++ {
		for j := i; j > 0 && ref[j].Address().String() < ref[j-1].Address().String(); j-- {
			ref[j], ref[j-1] = ref[j-1], ref[j]
		}
	}
	point, prev := verifC07Point(), verifC07Hash()

	a := verifC07Pick(listing, point, prev, "C07.listing")
	verifrt.Reach("C07.anylisting.selected")
	verifrt.Assert(verifC07IsMember(a, listing), "C07.selected-proposer-is-a-member-of-that-suffrage")
	b := verifC07Pick(ref, point, prev, "C07.reference")
	verifrt.Assert(a.Address().Equal(b.Address()), "C07.same-proposer-whatever-order-the-suffrage-nodes-are-listed-in")
	if n > 1 && !listing[0].Address().Equal(ref[0].Address()) {
		verifrt.Reach("C07.anylisting.listing-differs-from-reference")
	}
}

// VerifC07TwoListings: the statement literally: two nodes hold the same suffrage in two
// different orders (explicit permutation) and select for the same point and block.
func VerifC07TwoListings() {
	n := 1 + verifrt.NondetChoice("n", verifrt.Bound("n2", 3, 3))
	as := verifC07Addresses(n, verifrt.Bound("n2.symbolic", 0, 1) == 1)
	l1 := verifC07Nodes(as)
	// explicit permutation by selection
	l2 := make([]base.Node, 0, n)
	rest := make([]base.Node, n)
	copy(rest, l1)
	for len(rest) > 0 {
		k := 0
		if len(rest) > 1 {
			k = verifrt.NondetChoice("perm", len(rest))
		}
		l2 = append(l2, rest[k])
		rest = append(rest[:k:k], rest[k+1:]...)
	}
	point, prev := verifC07Point(), verifC07Hash()
	a := verifC07Pick(l1, point, prev, "C07.two.first")
	b := verifC07Pick(l2, point, prev, "C07.two.second")
	verifrt.Reach("C07.twolistings.selected")
	verifrt.Assert(a.Address().Equal(b.Address()), "C07.two-nodes-select-the-same-proposer-for-the-same-point-block-and-suffrage")
	verifrt.Assert(verifC07IsMember(a, l1) && verifC07IsMember(b, l1), "C07.two.selected-proposer-is-a-member-of-that-suffrage")
}

// ---- the whole proposal selector --------------------------------------------

type verifC07Proposal struct {
	base.ProposalSignFact
	point    base.Point
	proposer base.Address
}

func (p verifC07Proposal) Point() base.Point { return p.point }

// verifC07Pool answers every request with a proposal of the asked proposer and logs
// who was asked.
type verifC07Pool struct {
	asked []base.Address
}

func (*verifC07Pool) Proposal(util.Hash) (base.ProposalSignFact, bool, error) { return nil, false, nil }
func (*verifC07Pool) ProposalBytes(util.Hash) (string, []byte, []byte, bool, error) {
	return "", nil, nil, false, nil
}

func (p *verifC07Pool) ProposalByPoint(point base.Point, proposer base.Address, _ util.Hash) (base.ProposalSignFact, bool, error) {
	p.asked = append(p.asked, proposer)
	return verifC07Proposal{point: point, proposer: proposer}, true, nil
}
func (*verifC07Pool) SetProposal(base.ProposalSignFact) (bool, error) { return true, nil }

func verifC07Select(listing []base.Node, point base.Point, prev util.Hash, pfx string) base.Address {
	cp := make([]base.Node, len(listing))
	copy(cp, listing)
	pool := &verifC07Pool{}
	args := NewBaseProposalSelectorArgs()
	args.Pool = pool
	args.ProposerSelectFunc = NewBlockBasedProposerSelector().Select
	args.GetNodesFunc = func(base.Height) ([]base.Node, bool, error) { return cp, true, nil }
	local := base.NewBaseLocalNode(NodeHint, verifC07Priv{}, listing[0].Address())
	ps := NewBaseProposalSelector(local, args)
	pr, err := ps.Select(context.Background(), point, prev, time.Second)
	verifrt.Assert(err == nil && pr != nil, pfx+".a-proposal-is-selected")
	if err != nil || pr == nil {
		return nil
	}
	verifrt.Assert(len(pool.asked) == 1, pfx+".the-selected-proposer-answered-at-once")
	vp, ok := pr.(verifC07Proposal)
	if !ok || len(pool.asked) < 1 {
		return nil
	}
	verifrt.Assert(vp.proposer.Equal(pool.asked[0]), pfx+".returned-proposal-is-of-the-asked-proposer")
	return vp.proposer
}

type verifC07Priv struct{ base.Privatekey }

func (verifC07Priv) Publickey() base.Publickey { return nil }

// VerifC07Selector: BaseProposalSelector.Select on two nodes holding the suffrage in
// different orders: the proposal both accept comes from the same proposer, a member.
func VerifC07Selector() {
	n := 1 + verifrt.NondetChoice("n", verifrt.Bound("n3", 3, 3))
	as := verifC07Addresses(n, verifrt.Bound("n3.symbolic", 0, 1) == 1)
	l1 := verifC07Nodes(as)
	l2 := make([]base.Node, n)
	// second listing: rotation by a chosen amount, optionally reversed
	rot := 0
	if n > 1 {
		rot = verifrt.NondetChoice("rot", n)
	}
	rev := n > 2 && verifrt.Bound("rev", 0, 1) == 1 && verifrt.NondetChoice("rev", 2) == 1
	for i := range l2 {
		k := (i + rot) % n
		if rev {
			k = n - 1 - k
		}
		l2[i] = l1[k]
	}
	point, prev := verifC07Point(), verifC07Hash()
	a := verifC07Select(l1, point, prev, "C07.selector.first")
	b := verifC07Select(l2, point, prev, "C07.selector.second")
	verifrt.Reach("C07.selector.selected")
	if a == nil || b == nil {
		return
	}
	verifrt.Assert(a.Equal(b), "C07.selector.both-nodes-take-the-proposal-of-the-same-proposer")
	member := false
	for i := range as {
		if as[i].Equal(a) {
			member = true
		}
	}
	verifrt.Assert(member, "C07.selector.proposer-is-a-member-of-that-suffrage")
}

// ---- after an unreachable proposer -------------------------------------------------

// verifC07FlakyPool: nothing stored locally; requests to the node `dead` fail.
type verifC07FlakyPool struct {
	verifC07Pool
}

func (p *verifC07FlakyPool) ProposalByPoint(base.Point, base.Address, util.Hash) (base.ProposalSignFact, bool, error) {
	return nil, false, nil
}

// VerifC07AfterUnreachableProposer: a node holds its suffrage nodes in one slice (what
// Suffrage.Nodes() hands out) and uses it for every selection. In one round the selected
// proposer cannot be reached (the node falls back to the others). Afterwards the node still
// selects, for later rounds, the same proposer as a node that had no failure, and its suffrage
// listing still holds exactly the suffrage members.
func VerifC07AfterUnreachableProposer() {
	n := 3 + verifrt.NondetChoice("n", verifrt.Bound("unreachable.n", 2, 3))
	as := verifC07Addresses(n, false)
	held := verifC07Nodes(as) // the slice this node keeps and hands to every selection
	point := base.RawPoint(33, 0)
	// one symbolic byte of the previous block hash decides the selection (sum of bytes mod n)
	hb := make([]byte, 32)
	hb[31] = verifrt.NondetU8("previousblock.lastbyte")
	prev := valuehash.NewBytes(hb)
	dead := verifC07Pick(held, point, prev, "C07.unreachable.reference").Address()
	pool := &verifC07FlakyPool{}
	args := NewBaseProposalSelectorArgs()
	args.Pool = pool
	args.ProposerSelectFunc = NewBlockBasedProposerSelector().Select
	args.GetNodesFunc = func(base.Height) ([]base.Node, bool, error) { return held, true, nil }
	args.MinProposerWait = 100 * time.Millisecond
	args.RequestProposalInterval = 60 * time.Millisecond
	args.TimeoutRequest = func() time.Duration { return 10 * time.Millisecond }
	args.RequestFunc = func(_ context.Context, p base.Point, proposer base.Node, _ util.Hash) (base.ProposalSignFact, bool, error) {
		if proposer.Address().Equal(dead) {
			return nil, false, errors.Errorf("unreachable")
		}
		return verifC07Proposal{point: p, proposer: proposer.Address()}, true, nil
	}
	local := base.NewBaseLocalNode(NodeHint, verifC07Priv{}, base.NewStringAddress("observer"))
	ps := NewBaseProposalSelector(local, args)
	pr, err := ps.Select(context.Background(), point, prev, 100*time.Millisecond)
	verifrt.Reach("C07.unreachable.first-round-done")
	verifrt.Assert(err == nil && pr != nil, "C07.unreachable.a-proposal-of-another-member-is-taken")
	// the held listing still is the suffrage
	verifrt.Assert(len(held) == n, "C07.unreachable.listing-keeps-its-size")
	for i := range as {
		cnt := 0
		for j := range held {
			if held[j].Address().Equal(as[i]) {
				cnt++
			}
		}
		verifrt.Assert(cnt == 1, "C07.selected-proposer-is-a-member(the-node's-suffrage-listing-still-holds-every-member-exactly-once-after-a-failed-request)")
	}
	// later rounds: same proposer as a node without the failure
	for r := uint64(1); r <= uint64(verifrt.Bound("unreachable.rounds", 2, 3)); r++ {
		p := base.RawPoint(33, r)
		want := verifC07Pick(verifC07Nodes(as), p, prev, "C07.unreachable.other-node")
		nodes, found, err := ps.getNodes(p.Height(), args.GetNodesFunc)
		verifrt.Assert(err == nil && found, "C07.unreachable.nodes")
		got, err := NewBlockBasedProposerSelector().Select(context.Background(), p, nodes, prev)
		verifrt.Assert(err == nil && got != nil && got.Address().Equal(want.Address()),
			"C07.every-node-selects-the-same-proposer(also-a-node-that-could-not-reach-a-proposer-before)")
	}
}
