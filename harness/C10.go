package isaacoperation

import (
	"bytes"
	"context"
	"sort"
	"sync"
	"time"

	"github.com/pkg/errors"
	"github.com/spikeekips/mitum/base"
	"github.com/spikeekips/mitum/isaac"
	isaacblock "github.com/spikeekips/mitum/isaac/block"
	"github.com/spikeekips/mitum/util"
	"github.com/spikeekips/mitum/util/fixedtree"
	"github.com/spikeekips/mitum/util/hint"
	"github.com/spikeekips/mitum/util/valuehash"
	"github.com/spikeekips/mitum/util/verifrt"
)

// C10 Block production is deterministic.
//
// All data is concrete here (operations are chosen from a menu), so every digest is the
// real SHA3-256 digest; what the engine explores is the order in which things happen:
// the arrival order of process results at the state mergers, the goroutine schedule of the
// job workers, the worker size.
//
// Uses the world, keys and operation builders of C17.go (same package).

type verifC10World struct {
	*verifC17World
	policyState base.State
}

func (w *verifC10World) getState(key string) (base.State, bool, error) {
	if key == isaac.NetworkPolicyStateKey {
		return w.policyState, true, nil
	}
	return w.verifC17World.getState(key)
}

const verifC10Height = base.Height(33)

// verifC10NewWorld: height 33, suffrage height 5, members m0..m2, candidates c0, c1,
// threshold 60 (two of three members), the default network policy.
func verifC10NewWorld() *verifC10World {
	w := &verifC17World{h: verifC10Height, sufHeight: 5, t10: 600, threshold: 60}
	for i := 0; i < 3; i++ {
		k := verifC17Key{id: uint8(10 + i)}
		w.mkeys = append(w.mkeys, k)
		w.mstarts = append(w.mstarts, base.Height(3+i))
		w.members = append(w.members, isaac.NewSuffrageNodeStateValue(isaac.NewNode(k, verifC17MemberAddr(i)), base.Height(3+i)))
	}
	for i := 0; i < 2; i++ {
		k := verifC17Key{id: uint8(40 + i)}
		w.ckeys = append(w.ckeys, k)
		w.cands = append(w.cands, isaac.NewSuffrageCandidateStateValue(isaac.NewNode(k, verifC17CandAddr(i)), base.Height(7+i), 1000))
	}
	prev := valuehash.NewSHA256([]byte("previous state"))
	w.sufState = base.NewBaseState(verifC10Height-1, isaac.SuffrageStateKey, isaac.NewSuffrageNodesStateValue(w.sufHeight, w.members), prev, nil)
	w.candState = base.NewBaseState(verifC10Height-1, isaac.SuffrageCandidateStateKey, isaac.NewSuffrageCandidatesStateValue(w.cands), prev, nil)
	return &verifC10World{
		verifC17World: w,
		policyState:   base.NewBaseState(verifC10Height-2, isaac.NetworkPolicyStateKey, isaac.NewNetworkPolicyStateValue(isaac.DefaultNetworkPolicy()), prev, nil),
	}
}

const verifC10MenuSize = 10

// verifC10Menu: the built-in operations, valid and invalid ones.
func verifC10Menu(w *verifC10World, which int, token string) base.Operation {
	m := func(i int) verifC17Sign { return verifC17Sign{node: verifC17MemberAddr(i), key: w.mkeys[i]} }
	c := func(i int) verifC17Sign { return verifC17Sign{node: verifC17CandAddr(i), key: w.ckeys[i]} }
	var d *verifC17Desc
	switch which {
	case 0: // join of candidate 0
		d = &verifC17Desc{kind: verifC17Join, target: verifC17CandAddr(0), start: w.cands[0].Start(), signs: []verifC17Sign{m(0), m(1), m(2), c(0)}}
	case 1: // join of candidate 1
		d = &verifC17Desc{kind: verifC17Join, target: verifC17CandAddr(1), start: w.cands[1].Start(), signs: []verifC17Sign{m(1), m(2), c(1)}}
	case 2: // member 0 leaves
		d = &verifC17Desc{kind: verifC17Disjoin, target: verifC17MemberAddr(0), start: w.mstarts[0], signs: []verifC17Sign{m(0)}}
	case 3: // member 1 expelled
		d = &verifC17Desc{kind: verifC17Expel, target: verifC17MemberAddr(1), start: 1, end: 1000, signs: []verifC17Sign{m(0), m(2)}}
	case 4, 5, 8: // candidate registration: two new nodes; 8: a node that is a candidate already (refused with a reason)
		var addr base.Address = base.NewStringAddress("y0a")
		key := verifC17Key{id: 70}
		if which == 5 {
			addr, key = base.NewStringAddress("y1a"), verifC17Key{id: 71}
		}
		if which == 8 {
			addr, key = verifC17CandAddr(0), w.ckeys[0]
		}
		op := NewSuffrageCandidate(NewSuffrageCandidateFact(base.Token(token), addr, key))
		err := op.SetNodeSigns(verifC17NodeSigns([]verifC17Sign{{node: addr, key: key}}))
		if err == nil {
			err = op.IsValid(verifC17NetworkID)
		}
		verifrt.Assert(err == nil, "C10.harness.menu-operations-are-valid")
		return op
	case 6, 9: // network policy change (9: another one; only one per block is taken)
		policy := isaac.DefaultNetworkPolicy()
		policy.SetMaxOperationsInProposal(uint64(100 + which))
		op := NewNetworkPolicy(NewNetworkPolicyFact(base.Token(token), policy))
		err := op.SetNodeSigns(verifC17NodeSigns([]verifC17Sign{m(0), m(1), m(2)}))
		if err == nil {
			err = op.IsValid(verifC17NetworkID)
		}
		verifrt.Assert(err == nil, "C10.harness.menu-operations-are-valid")
		return op
	default: // 7: join of candidate 0 with too few member signs (refused with a reason)
		d = &verifC17Desc{kind: verifC17Join, target: verifC17CandAddr(0), start: w.cands[0].Start(), signs: []verifC17Sign{m(0), c(0)}}
	}
	verifrt.Assert(verifC17Build(d, token), "C10.harness.menu-operations-are-valid")
	return d.op
}

// verifC10ChooseOps: nops operations with increasing menu numbers.
func verifC10ChooseOps(w *verifC10World, nops, menu int) []base.Operation {
	var ops []base.Operation
	last := -1
	for i := 0; i < nops && last < menu-1; i++ {
		which := last + 1 + verifrt.NondetChoice("op", menu-last-1)
		last = which
		ops = append(ops, verifC10Menu(w, which, []string{"t0", "t1", "t2", "t3"}[i]))
	}
	return ops
}

func verifC10NewProcessor(w *verifC10World, ht hint.Hint) (base.OperationProcessor, error) {
	switch ht.Type() {
	case SuffrageCandidateHint.Type():
		return NewSuffrageCandidateProcessor(w.h, w.getState, nil, nil, isaac.DefaultNetworkPolicy().SuffrageCandidateLifespan())
	case SuffrageJoinHint.Type():
		return NewSuffrageJoinProcessor(w.h, w.threshold, w.getState, nil, nil)
	case isaac.SuffrageExpelOperationHint.Type():
		return NewSuffrageExpelProcessor(w.h, w.getState, nil, nil)
	case SuffrageDisjoinHint.Type():
		return NewSuffrageDisjoinProcessor(w.h, w.getState, nil, nil)
	case NetworkPolicyHint.Type():
		return NewNetworkPolicyProcessor(w.h, w.threshold, w.getState, nil, nil)
	}
	return nil, nil
}

// verifC10Result is what one processed operation hands to the block writer.
type verifC10Result struct {
	index    uint64
	facthash util.Hash
	stvs     []base.StateMergeValue
}

// verifC10PreAndProcess: PreProcess in block order (sequential in the proposal processor),
// then Process; the process results are what the worker goroutines deliver in any order.
func verifC10PreAndProcess(w *verifC10World, ops []base.Operation) []verifC10Result {
	oprs := map[string]base.OperationProcessor{}
	var out []verifC10Result
	pctx := context.Background()
	for i := range ops {
		op := ops[i]
		p, found := oprs[op.Hint().String()]
		if !found {
			var err error
			p, err = verifC10NewProcessor(w, op.Hint())
			verifrt.Assert(err == nil && p != nil, "C10.harness.processor-created")
			oprs[op.Hint().String()] = p
		}
		nctx, reason, err := p.PreProcess(pctx, op, w.getState)
		pctx = nctx
		verifrt.Assert(err == nil, "C10.harness.preprocess-no-error")
		if reason != nil {
			continue
		}
		stvs, reason, err := p.Process(pctx, op, w.getState)
		verifrt.Assert(err == nil && reason == nil && len(stvs) > 0, "C10.harness.process-gives-state-values")
		out = append(out, verifC10Result{index: uint64(i), facthash: op.Fact().Hash(), stvs: stvs})
	}
	return out
}

type verifC10Closed struct {
	key    string
	index  uint64
	total  uint64
	hash   []byte
	value  []byte
	nstate int
}

// verifC10Fold feeds the results to one merger per key in the given order and closes them in
// key order: what DefaultStatesMerger does, without goroutines.
func verifC10Fold(w *verifC10World, results []verifC10Result) []verifC10Closed {
	mergers := map[string]base.StateValueMerger{}
	for _, r := range results {
		for _, stv := range r.stvs {
			m, found := mergers[stv.Key()]
			if !found {
				st, _, _ := w.getState(stv.Key())
				m = stv.Merger(w.h, st)
				mergers[stv.Key()] = m
			}
			verifrt.Assert(m.Merge(stv.Value(), r.facthash) == nil, "C10.harness.merge-no-error")
		}
	}
	keys := make([]string, 0, len(mergers))
	for k := range mergers {
		keys = append(keys, k)
	}
	sort.Strings(keys)
	var out []verifC10Closed
	for i, k := range keys {
		st, err := mergers[k].CloseValue()
		if st == nil || errors.Is(err, base.ErrIgnoreStateValue) {
			continue
		}
		verifrt.Assert(err == nil, "C10.harness.close-no-error")
		out = append(out, verifC10Closed{key: k, index: uint64(i), total: uint64(len(keys)), hash: st.Hash().Bytes(), value: st.Value().HashBytes(), nstate: len(st.Operations())})
	}
	return out
}

func verifC10SameClosed(a, b []verifC10Closed) bool {
	if len(a) != len(b) {
		return false
	}
	for i := range a {
		if a[i].key != b[i].key || a[i].index != b[i].index || a[i].total != b[i].total ||
			!bytes.Equal(a[i].hash, b[i].hash) || !bytes.Equal(a[i].value, b[i].value) {
			return false
		}
	}
	return true
}

func verifC10Permute[T any](xs []T) ([]T, bool) {
	var perm []T
	rest := append([]T(nil), xs...)
	moved := false
	for len(rest) > 0 {
		k := 0
		if len(rest) > 1 {
			k = verifrt.NondetChoice("perm", len(rest))
		}
		if k != 0 {
			moved = true
		}
		perm = append(perm, rest[k])
		rest = append(rest[:k:k], rest[k+1:]...)
	}
	return perm, moved
}

// VerifC10MergeOrder (kernel ii): the state value mergers (suffrage, candidates, network
// policy) give the same new states whatever order the process results arrive in.
func VerifC10MergeOrder() {
	w := verifC10NewWorld()
	ops := verifC10ChooseOps(w, verifrt.Bound("ops", 3, 4), verifrt.Bound("menu", 6, 8))
	results := verifC10PreAndProcess(w, ops)
	if len(results) < 2 {
		return
	}
	ref := verifC10Fold(w, results)
	perm, moved := verifC10Permute(results)
	if !moved {
		return
	}
	got := verifC10Fold(w, perm)
	verifrt.Reach("C10.mergeorder.compared")
	verifrt.Assert(verifC10SameClosed(ref, got), "C10.same-states(states-tree-root-and-suffrage-hash)-whatever-order-the-process-results-arrive-in")
	if len(ref) > 1 {
		verifrt.Reach("C10.mergeorder.several-state-keys")
	}
}

// VerifC10StatesMerger (kernel i): the real DefaultStatesMerger, SetStates called from one
// goroutine per operation (as the job worker does), then CloseStates with some worker size:
// the states handed out with their (index, total) equal the sequential fold.
func VerifC10StatesMerger() {
	verifC10StatesMerger(verifrt.Bound("smops", 2, 2), verifrt.Bound("smmenu", 5, 6))
}

// VerifC10StatesMergerPreempted: the same with a forced preemption at any scheduling point, over
// the operations that change the same state key (the two joins; thorough: joins, disjoin, expel).
func VerifC10StatesMergerPreempted() {
	verifC10StatesMerger(2, verifrt.Bound("smpmenu", 2, 4))
}

func verifC10StatesMerger(nops, menu int) {
	w := verifC10NewWorld()
	ops := verifC10ChooseOps(w, nops, menu)
	results := verifC10PreAndProcess(w, ops)
	if len(results) < 2 {
		return
	}
	ref := verifC10Fold(w, results)
	workers := int64(1 + verifrt.NondetChoice("workers", len(results)))
	sm := isaacblock.NewDefaultStatesMerger(w.h, w.getState, workers)
	var wg sync.WaitGroup
	for i := range results {
		r := results[i]
		wg.Add(1)
		go func() {
			defer wg.Done()
			verifrt.Assert(sm.SetStates(context.Background(), r.index, r.stvs, r.facthash) == nil, "C10.statesmerger.setstates-no-error")
		}()
	}
	wg.Wait()
	var l sync.Mutex
	var got []verifC10Closed
	var announced uint64
	err := sm.CloseStates(context.Background(),
		func(keyscount uint64) error { announced = keyscount; return nil },
		func(st base.State, total, index uint64) error {
			l.Lock()
			defer l.Unlock()
			got = append(got, verifC10Closed{key: st.Key(), index: index, total: total, hash: st.Hash().Bytes(), value: st.Value().HashBytes()})
			return nil
		})
	verifrt.Reach("C10.statesmerger.closed")
	verifrt.Assert(err == nil, "C10.statesmerger.close-no-error")
	sort.Slice(got, func(i, j int) bool { return got[i].index < got[j].index })
	verifrt.Assert(verifC10SameClosed(ref, got), "C10.same-states-with-the-same-tree-positions-whatever-the-worker-count-and-schedule")
	if len(ref) > 0 {
		verifrt.Assert(announced == ref[0].total, "C10.statesmerger.same-number-of-state-keys")
	}
}

// VerifC10TreeOrder (kernel iii): fixedtree.Writer gives the same tree whatever order the
// nodes are added in (some positions are never filled: ignored operations / states).
func VerifC10TreeOrder() {
	size := 1 + verifrt.NondetChoice("size", verifrt.Bound("treesize", 4, 6))
	type item struct {
		index uint64
		node  fixedtree.Node
	}
	var items []item
	for i := 0; i < size; i++ {
		if verifrt.NondetChoice("filled", 2) == 1 {
			items = append(items, item{uint64(i), fixedtree.NewBaseNode([]string{"ka", "kb", "kc", "kd", "ke", "kf"}[i])})
		}
	}
	if len(items) < 2 {
		return
	}
	build := func(its []item) (fixedtree.Tree, error) {
		wr, err := fixedtree.NewWriter(base.StateFixedtreeHint, uint64(size))
		verifrt.Assert(err == nil, "C10.harness.tree-writer")
		for _, it := range its {
			verifrt.Assert(wr.Add(it.index, it.node) == nil, "C10.tree.add-no-error")
		}
		return wr.Tree()
	}
	ref, err := build(items)
	verifrt.Assert(err == nil, "C10.tree.no-error")
	perm, moved := verifC10Permute(items)
	if !moved {
		return
	}
	got, err := build(perm)
	verifrt.Reach("C10.treeorder.compared")
	verifrt.Assert(err == nil, "C10.tree.no-error-in-another-order")
	if err != nil {
		return
	}
	verifrt.Assert(ref.Root().Equal(got.Root()), "C10.same-tree-root-whatever-order-the-nodes-are-added-in")
	verifrt.Assert(ref.Len() == got.Len() && ref.Len() == len(items), "C10.tree.same-nodes")
}

// ---- the whole proposal processor -------------------------------------------

// verifC10DelayBound: under the engine, bounds the number of times per path that a goroutine
// other than the oldest enabled one is resumed when the running goroutine blocks or exits
// (engine stub ext_c10.go). Natively nothing.
func verifC10DelayBound(n int) {}

type verifC10FSWriter struct{}

func (verifC10FSWriter) SetProposal(context.Context, base.ProposalSignFact) error          { return nil }
func (verifC10FSWriter) SetOperation(context.Context, uint64, uint64, base.Operation) error { return nil }
func (verifC10FSWriter) SetOperationsTree(context.Context, fixedtree.Tree) error           { return nil }
func (verifC10FSWriter) SetState(context.Context, uint64, uint64, base.State) error        { return nil }
func (verifC10FSWriter) SetStatesTree(context.Context, fixedtree.Tree) error               { return nil }
func (verifC10FSWriter) SetManifest(context.Context, base.Manifest) error                  { return nil }
func (verifC10FSWriter) SetINITVoteproof(context.Context, base.INITVoteproof) error        { return nil }
func (verifC10FSWriter) SetACCEPTVoteproof(context.Context, base.ACCEPTVoteproof) error    { return nil }
func (verifC10FSWriter) Save(context.Context) (base.BlockMap, error)                       { return nil, nil }
func (verifC10FSWriter) Cancel() error                                                     { return nil }

type verifC10DB struct{ isaac.BlockWriteDatabase }

func (verifC10DB) SetStates([]base.State) error    { return nil }
func (verifC10DB) SetOperations([]util.Hash) error { return nil }
func (verifC10DB) Cancel() error                   { return nil }

type verifC10IVP struct {
	base.INITVoteproof
	expels []base.SuffrageExpelOperation
}

func (vp verifC10IVP) Expels() []base.SuffrageExpelOperation { return vp.expels }
func (verifC10IVP) IsExpelVoteproof() bool                   { return true }

type verifC10Block struct {
	w        *verifC10World
	proposal base.ProposalSignFact
	previous base.Manifest
	ops      map[string]base.Operation
	ivp      base.INITVoteproof
}

func verifC10NewBlock(w *verifC10World, all []base.Operation) *verifC10Block {
	b := &verifC10Block{w: w, ops: map[string]base.Operation{}}
	var ophs [][2]util.Hash
	var expels []base.SuffrageExpelOperation
	for _, op := range all {
		if e, ok := op.(base.SuffrageExpelOperation); ok { // expels travel in the INIT voteproof
			expels = append(expels, e)
			continue
		}
		ophs = append(ophs, [2]util.Hash{op.Hash(), op.Fact().Hash()})
		b.ops[op.Hash().String()] = op
	}
	prevm := isaac.NewManifest(verifC10Height-1, valuehash.NewSHA256([]byte("pp")), valuehash.NewSHA256([]byte("pr")), nil, nil,
		w.sufState.Hash(), time.Unix(1700000000, 0).UTC())
	b.previous = prevm
	b.proposal = isaac.NewProposalSignFact(isaac.NewProposalFact(base.RawPoint(int64(verifC10Height), 0), verifC17MemberAddr(0), prevm.Hash(), ophs))
	b.ivp = verifC10IVP{expels: expels}
	return b
}

func (b *verifC10Block) process(workers int64) (base.Manifest, error) {
	args := isaac.NewDefaultProposalProcessorArgs()
	args.MaxWorkerSize = workers
	args.GetStateFunc = b.w.getState
	args.GetOperationFunc = func(_ context.Context, oph, _ util.Hash) (base.Operation, error) {
		if op, found := b.ops[oph.String()]; found {
			return op, nil
		}
		return nil, isaac.ErrOperationNotFoundInProcessor.Errorf("verif")
	}
	args.NewOperationProcessorFunc = func(_ base.Height, ht hint.Hint, _ base.GetStateFunc) (base.OperationProcessor, error) {
		return verifC10NewProcessor(b.w, ht)
	}
	args.NewWriterFunc = func(proposal base.ProposalSignFact, getStateFunc base.GetStateFunc) (isaac.BlockWriter, error) {
		return isaacblock.NewWriter(proposal, getStateFunc, verifC10DB{}, nil, verifC10FSWriter{}, workers), nil
	}
	pp, err := isaac.NewDefaultProposalProcessor(b.proposal, b.previous, args)
	if err != nil {
		return nil, err
	}
	return pp.Process(context.Background(), b.ivp)
}

// VerifC10Pipeline: DefaultProposalProcessor.Process over the real block Writer (file and
// database writers are no-ops) with worker size 1 and with a larger worker size, under the
// explored goroutine schedules: the same manifest.
func VerifC10Pipeline() {
	w := verifC10NewWorld()
	nops, menu := 2, verifrt.Bound("ppmenu", 4, 7)
	if verifrt.Bound("pptriples", 0, 1) == 1 && verifrt.NondetChoice("triples", 2) == 1 {
		nops, menu = 3, verifrt.Bound("pptriplesmenu", 5, 5)
	}
	ops := verifC10ChooseOps(w, nops, menu)
	if len(ops) < 2 {
		return
	}
	b := verifC10NewBlock(w, ops)
	verifC10DelayBound(0) // the reference run: one worker, the default schedule
	ref, err := b.process(1)
	verifrt.Assert(err == nil && ref != nil, "C10.pipeline.processed-with-one-worker")
	if err != nil || ref == nil {
		return
	}
	workers := int64(2 + verifrt.NondetChoice("workers", verifrt.Bound("ppworkers", 1, 1)))
	verifC10DelayBound(verifrt.Bound("ppdelays", 1, 2))
	got, err := b.process(workers)
	verifrt.Reach("C10.pipeline.compared")
	verifrt.Assert(err == nil && got != nil, "C10.pipeline.processed-with-more-workers")
	if err != nil || got == nil {
		return
	}
	same := func(x, y util.Hash) bool {
		if x == nil || y == nil {
			return x == nil && y == nil
		}
		return x.Equal(y)
	}
	verifrt.Assert(same(ref.OperationsTree(), got.OperationsTree()), "C10.same-operations-tree-root-whatever-the-worker-count-and-schedule")
	verifrt.Assert(same(ref.StatesTree(), got.StatesTree()), "C10.same-states-tree-root-whatever-the-worker-count-and-schedule")
	verifrt.Assert(same(ref.Suffrage(), got.Suffrage()), "C10.same-suffrage-hash-whatever-the-worker-count-and-schedule")
	verifrt.Assert(same(ref.Hash(), got.Hash()), "C10.same-manifest-whatever-the-worker-count-and-schedule")
	if ref.StatesTree() != nil {
		verifrt.Reach("C10.pipeline.states-changed")
	}
}
