package quicstream

import (
	"context"
	"io"
)

// VerifC30ReadPrefix exposes readPrefix (what PrefixHandler does before it hands the stream
// to the header handler) to the C30 harness in network/quicstream/header.
func VerifC30ReadPrefix(ctx context.Context, r io.Reader) (HandlerPrefix, error) {
	return readPrefix(ctx, r)
}
