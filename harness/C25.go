package leveldbstorage

import (
	"bytes"

	"github.com/spikeekips/mitum/util/verifrt"
	"github.com/syndtr/goleveldb/leveldb"
	leveldbStorage "github.com/syndtr/goleveldb/leveldb/storage"
	leveldbutil "github.com/syndtr/goleveldb/leveldb/util"
)

// C25 Prefix storage isolates prefixes.
//
// World: one raw storage holding N entries with arbitrary (symbolic) full keys of
// 1..4 bytes and pairwise distinct keys; a PrefixStorage over a symbolic prefix of
// 1..2 bytes (0xff tails included). One operation through the prefix, then the whole
// raw storage is compared with what a plain map would hold.

type verifC25Entry struct {
	key []byte
	val []byte
}

func verifC25World() (*Storage, []verifC25Entry) {
	st, err := NewStorage(leveldbStorage.NewMemStorage(), nil)
	verifrt.Assert(err == nil, "C25.harness.storage-opens")
	n := verifrt.NondetChoice("entries", verifrt.Bound("entries", 3, 3)+1)
	es := make([]verifC25Entry, n)
	for i := range es {
		l := 1 + verifrt.NondetChoice("keylen", verifrt.Bound("keylen", 3, 4))
		es[i].key = verifrt.NondetBytes("key", l)
		es[i].val = []byte{byte(0x10 + i)}
		for j := 0; j < i; j++ {
			verifrt.Assume(!bytes.Equal(es[i].key, es[j].key))
		}
		verifrt.Assert(st.Put(es[i].key, es[i].val, nil) == nil, "C25.harness.raw-put")
	}
	return st, es
}

func verifC25Prefix() []byte {
	l := 1 + verifrt.NondetChoice("prefixlen", 2)
	return verifrt.NondetBytes("prefix", l)
}

// verifC25Unchanged asserts that the raw entry e is still stored with its value.
func verifC25Unchanged(st *Storage, e verifC25Entry, label string) {
	b, found, err := st.Get(e.key)
	verifrt.Assert(err == nil && found && bytes.Equal(b, e.val), label)
}

func verifC25Gone(st *Storage, e verifC25Entry, label string) {
	_, found, err := st.Get(e.key)
	verifrt.Assert(err == nil && !found, label)
}

func verifC25RawCount(st *Storage) int {
	n := 0
	_ = st.Iter(nil, func(_, _ []byte) (bool, error) { n++; return true, nil }, true)
	return n
}

// VerifC25PointOps: Get / Exists / Put / Delete through the prefix.
func VerifC25PointOps() {
	st, es := verifC25World()
	p := verifC25Prefix()
	pst := NewPrefixStorage(st, p)
	k := verifrt.NondetBytes("k", 1+verifrt.NondetChoice("klen", 2))
	full := append(append([]byte{}, p...), k...)
	// which raw entry (if any) is the addressed one
	hit := -1
	for i := range es {
		if bytes.Equal(es[i].key, full) {
			hit = i
		}
	}
	switch verifrt.NondetChoice("op", 4) {
	case 0:
		b, found, err := pst.Get(k)
		verifrt.Reach("C25.get")
		verifrt.Assert(err == nil, "C25.get.no-error")
		verifrt.Assert(found == (hit >= 0), "C25.get.found-exactly-when-key-under-prefix-stored")
		if hit >= 0 && found {
			verifrt.Assert(bytes.Equal(b, es[hit].val), "C25.get.value-of-prefixed-key")
		}
	case 1:
		found, err := pst.Exists(k)
		verifrt.Reach("C25.exists")
		verifrt.Assert(err == nil && found == (hit >= 0), "C25.exists.exactly-when-key-under-prefix-stored")
	case 2:
		v := []byte{0xee}
		verifrt.Assert(pst.Put(k, v, nil) == nil, "C25.put.no-error")
		verifrt.Reach("C25.put")
		for i := range es {
			if i != hit {
				verifC25Unchanged(st, es[i], "C25.put.other-keys-unchanged")
			}
		}
		b, found, err := st.Get(full)
		verifrt.Assert(err == nil && found && bytes.Equal(b, v), "C25.put.writes-prefixed-key")
		want := len(es)
		if hit < 0 {
			want++
		}
		verifrt.Assert(verifC25RawCount(st) == want, "C25.put.no-other-key-created")
	case 3:
		verifrt.Assert(pst.Delete(k, nil) == nil, "C25.delete.no-error")
		verifrt.Reach("C25.delete")
		for i := range es {
			if i != hit {
				verifC25Unchanged(st, es[i], "C25.delete.other-keys-unchanged")
			} else {
				verifC25Gone(st, es[i], "C25.delete.removes-prefixed-key")
			}
		}
	}
}

// VerifC25Iter: iteration through the prefix (optionally with a start/limit range)
// visits exactly the stored keys under the prefix (inside the range), stripped, in order.
func VerifC25Iter() {
	st, es := verifC25World()
	p := verifC25Prefix()
	pst := NewPrefixStorage(st, p)
	var r *leveldbutil.Range
	var start, limit []byte
	switch verifrt.NondetChoice("range", 3) {
	case 1:
		start = verifrt.NondetBytes("start", 1)
		r = &leveldbutil.Range{Start: start}
	case 2:
		start = verifrt.NondetBytes("start", 1)
		limit = verifrt.NondetBytes("limit", 1)
		r = &leveldbutil.Range{Start: start, Limit: limit}
	}
	asc := verifrt.NondetChoice("asc", 2) == 1
	inside := func(e verifC25Entry) bool {
		if !bytes.HasPrefix(e.key, p) {
			return false
		}
		sub := e.key[len(p):]
		if len(sub) == 0 {
			// the bare prefix itself is a key of the prefix range; the property speaks about keys under the prefix
			return r == nil
		}
		if start != nil && bytes.Compare(sub, start) < 0 {
			return false
		}
		if limit != nil && bytes.Compare(sub, limit) >= 0 {
			return false
		}
		return true
	}
	want := 0
	for i := range es {
		if inside(es[i]) {
			want++
		}
	}
	var seen [][]byte
	err := pst.Iter(r, func(k, v []byte) (bool, error) {
		seen = append(seen, k)
		full := append(append([]byte{}, p...), k...)
		ok := false
		for i := range es {
			if bytes.Equal(es[i].key, full) {
				ok = inside(es[i]) && bytes.Equal(v, es[i].val)
			}
		}
		verifrt.Assert(ok, "C25.iter.visits-only-stored-keys-under-the-prefix-and-range")
		return true, nil
	}, asc)
	verifrt.Reach("C25.iter")
	verifrt.Assert(err == nil, "C25.iter.no-error")
	verifrt.Assert(len(seen) == want, "C25.iter.visits-every-key-under-the-prefix-and-range")
	for i := 1; i < len(seen); i++ {
		c := bytes.Compare(seen[i-1], seen[i])
		verifrt.Assert((asc && c < 0) || (!asc && c > 0), "C25.iter.in-key-order")
	}
}

// VerifC25Remove: PrefixStorage.Remove / RemoveByPrefix and a batch through the prefix.
func VerifC25Remove() {
	st, es := verifC25World()
	p := verifC25Prefix()
	pst := NewPrefixStorage(st, p)
	switch verifrt.NondetChoice("op", 2) {
	case 0:
		verifrt.Assert(pst.Remove() == nil, "C25.remove.no-error")
		verifrt.Reach("C25.remove")
		left := 0
		for i := range es {
			if bytes.HasPrefix(es[i].key, p) {
				verifC25Gone(st, es[i], "C25.remove.deletes-every-key-under-the-prefix")
			} else {
				left++
				verifC25Unchanged(st, es[i], "C25.remove.keeps-keys-outside-the-prefix")
			}
		}
		verifrt.Assert(verifC25RawCount(st) == left, "C25.remove.nothing-else-changed")
	case 1:
		k1 := verifrt.NondetBytes("bk1", 1)
		k2 := verifrt.NondetBytes("bk2", 1)
		b := pst.NewBatch()
		b.Put(k1, []byte{0xaa})
		b.Delete(k2)
		verifrt.Assert(pst.Batch(b, nil) == nil, "C25.batch.no-error")
		verifrt.Reach("C25.batch")
		f1 := append(append([]byte{}, p...), k1...)
		f2 := append(append([]byte{}, p...), k2...)
		for i := range es {
			switch {
			case bytes.Equal(es[i].key, f2):
				verifC25Gone(st, es[i], "C25.batch.delete-removes-prefixed-key")
			case bytes.Equal(es[i].key, f1):
			default:
				verifC25Unchanged(st, es[i], "C25.batch.other-keys-unchanged")
			}
		}
		if !bytes.Equal(f1, f2) {
			v, found, err := st.Get(f1)
			verifrt.Assert(err == nil && found && bytes.Equal(v, []byte{0xaa}), "C25.batch.put-writes-prefixed-key")
		}
	}
}

// VerifC25BatchRemove: BatchRemove(range, limit) deletes exactly the keys in the range,
// for every batch limit.
func VerifC25BatchRemove() {
	st, es := verifC25World()
	var r *leveldbutil.Range
	var start, limit []byte
	switch verifrt.NondetChoice("range", 4) {
	case 1:
		start = verifrt.NondetBytes("start", 1+verifrt.NondetChoice("startlen", 2))
		r = &leveldbutil.Range{Start: start}
	case 2:
		limit = verifrt.NondetBytes("limit", 1+verifrt.NondetChoice("limitlen", 2))
		r = &leveldbutil.Range{Limit: limit}
	case 3:
		start = verifrt.NondetBytes("start", 1)
		limit = verifrt.NondetBytes("limit", 1+verifrt.NondetChoice("limitlen", 2))
		r = &leveldbutil.Range{Start: start, Limit: limit}
	}
	lim := 1 + verifrt.NondetChoice("batchlimit", 3)
	removed, err := BatchRemove(st, r, lim)
	verifrt.Reach("C25.batchremove")
	verifrt.Assert(err == nil, "C25.batchremove.no-error")
	want := 0
	for i := range es {
		in := true
		if start != nil && bytes.Compare(es[i].key, start) < 0 {
			in = false
		}
		if limit != nil && bytes.Compare(es[i].key, limit) >= 0 {
			in = false
		}
		if in {
			want++
			verifC25Gone(st, es[i], "C25.batchremove.deletes-every-key-in-range")
		} else {
			verifC25Unchanged(st, es[i], "C25.batchremove.keeps-keys-outside-range")
		}
	}
	verifrt.Assert(removed == want, "C25.batchremove.reports-number-removed")
}

var _ = leveldb.ErrNotFound
