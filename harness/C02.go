package base

import "github.com/spikeekips/mitum/util/verifrt"

// VerifC02Threshold: Threshold(n) is the least integer >= n*t/100, compared in
// exact integer arithmetic (t = t10/10). One threshold value per path
// (NondetChoice) so the FP constant t/100 folds; n is symbolic.
func VerifC02Threshold() {
	lo := verifrt.Bound("t10lo", 510, 510)
	hi := verifrt.Bound("t10hi", 1000, 1000)
	N := verifrt.Bound("N", 100000, 1048576) // must stay <= 2^21 so that n*t10 fits 32 bits
	t10 := uint32(lo + verifrt.NondetChoice("t10", hi-lo+1))
	n := verifrt.NondetU32("n")
	verifrt.Assume(n >= 1)
	verifrt.Assume(n <= uint32(N))
	t := Threshold(float64(t10) / 10)
	got := t.Threshold(uint(n))
	verifrt.Reach("C02.compared")
	verifrt.Assert(got >= 1, "C02.threshold-at-least-one")
	verifrt.Assert(got <= uint(n), "C02.threshold-at-most-n")
	g := uint32(got)
	exact := n * t10 // n*t/100 scaled by 1000; < 2^31
	verifrt.Assert(g*1000 >= exact, "C02.threshold-not-below-ceiling")
	verifrt.Assert((g-1)*1000 < exact, "C02.threshold-not-above-ceiling")
}
