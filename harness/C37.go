package quicmemberlist

import (
	"net"
	"sync"

	"github.com/spikeekips/mitum/base"
	"github.com/spikeekips/mitum/util/logging"
	"github.com/spikeekips/mitum/util/verifrt"
)

// ---------------------------------------------------------------------------
// C37 Memberlist member table stays consistent.
//
// Histories of join / re-join / leave events over NODES node addresses with ADDRS
// udp addresses each, replayed against the real membersPool (and, in the last entry,
// against Memberlist.whenJoined/whenLeft, the two functions the memberlist events
// delegate calls). After every event the table is compared with a set model
// (present[a] = "a was joined and has not left since").
//
// The four entries look at the same histories and differ only in WHAT they observe,
// so that a failure names the clause of the statement that is broken.

type verifC37Address string

func (a verifC37Address) String() string       { return string(a) }
func (a verifC37Address) Bytes() []byte        { return []byte(a) }
func (a verifC37Address) IsValid([]byte) error { return nil }
func (a verifC37Address) Equal(b base.Address) bool {
	if b == nil {
		return false
	}
	return string(a) == b.String()
}

const (
	verifC37Nodes = 2
	verifC37Addrs = 2 // per node
)

type verifC37World struct {
	nodes   []base.Address
	addrs   []*net.UDPAddr // addr k belongs to node k / verifC37Addrs
	present []bool
	gen     []int // how many times addr k was joined (the member object of the latest join)
	owner   []int // the node the latest join of addr k was announced under
}

func verifC37NewWorld() *verifC37World {
	w := &verifC37World{}
	names := []string{"node0-mca", "node1-mca", "node2-mca"}
	for n := 0; n < verifC37Nodes; n++ {
		w.nodes = append(w.nodes, verifC37Address(names[n]))
		for a := 0; a < verifC37Addrs; a++ {
			// distinct ports on two hosts; an IPv4 address in 4-byte form
			w.addrs = append(w.addrs, &net.UDPAddr{IP: net.IP{10, 0, 0, byte(1 + n)}, Port: 4000 + 10*(a+1)}) // ports differ in more than the last digit: util.ShardedMap ignores the last character of a key, such ids would share a shard lock
		}
	}
	w.present = make([]bool, len(w.addrs))
	w.gen = make([]int, len(w.addrs))
	w.owner = make([]int, len(w.addrs))
	for k := range w.owner {
		w.owner[k] = k / verifC37Addrs
	}
	return w
}

// nodeOf: the node addr k currently belongs to (an address can join again under another node)
func (w *verifC37World) nodeOf(k int) int { return w.owner[k] }

// member builds the Member a join event of addr k carries (what newMemberFromMemberlist
// produces from a memberlist.Node: name, udp addr, node address in the meta).
func (w *verifC37World) member(k int) Member {
	names := []string{"m0", "m1", "m2", "m3", "m4", "m5"}
	return BaseMember{
		name: names[k],
		addr: w.addrs[k],
		meta: memberMeta{address: w.nodes[w.nodeOf(k)]},
	}
}

func (w *verifC37World) countNode(n int) int {
	c := 0
	for k := range w.present {
		if w.present[k] && w.nodeOf(k) == n {
			c++
		}
	}
	return c
}

func (w *verifC37World) count() int {
	c := 0
	for k := range w.present {
		if w.present[k] {
			c++
		}
	}
	return c
}

func (w *verifC37World) indexOf(addr *net.UDPAddr) int {
	for k := range w.addrs {
		if w.addrs[k] == addr { // members carry the world's own *net.UDPAddr
			return k
		}
	}
	return -1
}

const (
	verifC37ObsPresence = iota
	verifC37ObsLookup
	verifC37ObsNodeLists
)

// check compares the pool with the model.
func (w *verifC37World) check(m *membersPool, obs int) {
	switch obs {
	case verifC37ObsPresence:
		for k := range w.addrs {
			verifrt.Assert(m.Exists(w.addrs[k]) == w.present[k], "C37.presence.reported-present-exactly-when-joined-and-not-yet-left(Exists)")
		}
		verifrt.Assert(m.Len() == w.count(), "C37.presence.number-of-members-equals-number-of-present-members(Len)")
		seen := make([]int, len(w.addrs))
		m.Traverse(func(x Member) bool {
			k := w.indexOf(x.Addr())
			verifrt.Assert(k >= 0, "C37.presence.traverse-yields-only-joined-members")
			if k >= 0 {
				seen[k]++
			}
			return true
		})
		for k := range w.addrs {
			if w.present[k] {
				verifrt.Assert(seen[k] == 1, "C37.presence.traverse-yields-every-present-member-once(Members)")
			} else {
				verifrt.Assert(seen[k] == 0, "C37.presence.traverse-yields-no-absent-member(Members)")
			}
		}
	case verifC37ObsLookup:
		for k := range w.addrs {
			x, found := m.Get(w.addrs[k])
			if w.present[k] {
				verifrt.Reach("C37.lookup.present-member-looked-up")
				verifrt.Assert(found, "C37.lookup.by-address-reports-found-for-present-member(Get)")
				verifrt.Assert(x != nil && w.indexOf(x.Addr()) == k, "C37.lookup.by-address-returns-the-member-of-that-address(Get)")
			} else {
				verifrt.Assert(!found, "C37.lookup.absent-member-not-reported-present(Get)")
			}
		}
	case verifC37ObsNodeLists:
		for n := range w.nodes {
			want := w.countNode(n)
			// the list itself
			var list []Member
			if i, found := m.members.Value(w.nodes[n].String()); found {
				list = i
			}
			seen := make([]int, len(w.addrs))
			for i := range list {
				k := w.indexOf(list[i].Addr())
				verifrt.Assert(k >= 0 && w.nodeOf(k) == n, "C37.nodelist.contains-only-members-of-that-node")
				if k >= 0 {
					seen[k]++
				}
			}
			for k := range w.addrs {
				if w.nodeOf(k) != n {
					continue
				}
				if w.present[k] {
					verifrt.Assert(seen[k] >= 1, "C37.nodelist.contains-every-present-member-of-that-node")
					verifrt.Assert(seen[k] <= 1, "C37.nodelist.no-duplicates")
				} else {
					verifrt.Assert(seen[k] == 0, "C37.nodelist.contains-no-member-that-left")
				}
			}
			// and what the pool reports about it
			verifrt.Assert(m.MembersLen(w.nodes[n]) == want, "C37.nodelist.length-equals-number-of-present-members-of-that-node(MembersLen)")
			for k := range w.addrs {
				if w.nodeOf(k) != n {
					continue
				}
				l, others, found := m.MembersLenOthers(w.nodes[n], w.addrs[k])
				verifrt.Assert(l == want, "C37.nodelist.length-equals-number-of-present-members-of-that-node(MembersLenOthers)")
				verifrt.Assert(found == w.present[k], "C37.nodelist.member-found-in-its-node-list-exactly-when-present(MembersLenOthers)")
				o := want
				if w.present[k] {
					o--
				}
				verifrt.Assert(others == o, "C37.nodelist.others-are-the-other-present-members-of-that-node(MembersLenOthers)")
			}
		}
	}
}

// history drives H events through apply and checks after each one.
func verifC37History(join func(Member), leave func(Member), check func(w *verifC37World)) {
	w := verifC37NewWorld()
	H := verifrt.Bound("H", 3, 4)
	n := 1 + verifrt.NondetChoice("events", H)
	rejoined, leftOneOfTwo := false, false
	for i := 0; i < n; i++ {
		k := verifrt.NondetChoice("addr", len(w.addrs))
		if verifrt.NondetChoice("leave", 2) == 0 {
			if w.present[k] {
				rejoined = true
			}
			w.gen[k]++
			// thorough (and one address in quick): the join may be announced under the other node
			if verifrt.Bound("crossnode", 1, 1) == 1 && (k == 0 || verifrt.Bound("crossnode.all", 0, 1) == 1) {
				w.owner[k] = verifrt.NondetChoice("joining-node", verifC37Nodes)
			}
			join(w.member(k))
			w.present[k] = true
		} else {
			if w.present[k] && w.countNode(w.nodeOf(k)) > 1 {
				leftOneOfTwo = true
			}
			leave(w.member(k))
			w.present[k] = false
		}
		check(w)
	}
	verifrt.Reach("C37.history.done")
	if rejoined {
		verifrt.Reach("C37.history.with-re-join")
	}
	if leftOneOfTwo {
		verifrt.Reach("C37.history.with-leave-of-one-of-two-addresses-of-a-node")
	}
}

func verifC37Pool(obs int) {
	m := newMembersPool()
	verifC37History(
		func(x Member) { _ = m.Set(x) },
		func(x Member) { _, _ = m.Remove(x.Addr()) },
		func(w *verifC37World) { w.check(m, obs) })
}

// VerifC37Presence: Exists / Len / Traverse agree with "joined and not yet left".
func VerifC37Presence() { verifC37Pool(verifC37ObsPresence) }

// VerifC37Lookup: Get by address reports found for present members.
func VerifC37Lookup() { verifC37Pool(verifC37ObsLookup) }

// VerifC37NodeLists: the per-node lists hold exactly the present members of the node, once each.
func VerifC37NodeLists() { verifC37Pool(verifC37ObsNodeLists) }

// VerifC37Memberlist: the same histories through Memberlist.whenJoined / whenLeft (what the
// events delegate calls on NotifyJoin / NotifyLeave), observed through Memberlist.Exists /
// MembersLen / Members.
func VerifC37Memberlist() {
	local := BaseMember{
		name: "local",
		addr: &net.UDPAddr{IP: net.IP{10, 0, 0, 9}, Port: 4000},
		meta: memberMeta{address: verifC37Address("local-mca")},
	}
	srv := &Memberlist{
		Logging:  logging.NewLogging(nil),
		local:    local,
		args:     &MemberlistArgs{WhenLeftFunc: func(Member) {}},
		members:  newMembersPool(),
		delegate: NewDelegate(local, func() int { return 1 }, nil),
	}
	verifC37History(srv.whenJoined, srv.whenLeft, func(w *verifC37World) {
		for k := range w.addrs {
			verifrt.Assert(srv.Exists(w.addrs[k]) == w.present[k], "C37.memberlist.reported-present-exactly-when-joined-and-not-yet-left(Exists)")
		}
		verifrt.Assert(srv.MembersLen() == w.count(), "C37.memberlist.number-of-members-equals-number-of-present-members(MembersLen)")
		seen := make([]int, len(w.addrs))
		srv.Members(func(x Member) bool {
			k := w.indexOf(x.Addr())
			verifrt.Assert(k >= 0, "C37.memberlist.Members-yields-only-joined-members")
			if k >= 0 {
				seen[k]++
			}
			return true
		})
		for k := range w.addrs {
			if w.present[k] {
				verifrt.Assert(seen[k] == 1, "C37.memberlist.Members-yields-every-present-member-once")
			} else {
				verifrt.Assert(seen[k] == 0, "C37.memberlist.Members-yields-no-absent-member")
			}
		}
	})
}


// VerifC37ConcurrentEvents: two memberlist events for DIFFERENT addresses of the same node are
// handled at the same time (the events delegate is called from several goroutines): events on
// different addresses commute, so afterwards the table equals the model whatever the interleaving.
func VerifC37ConcurrentEvents() {
	local := BaseMember{
		name: "local",
		addr: &net.UDPAddr{IP: net.IP{10, 0, 0, 9}, Port: 4000},
		meta: memberMeta{address: verifC37Address("local-mca")},
	}
	srv := &Memberlist{
		Logging:  logging.NewLogging(nil),
		local:    local,
		args:     &MemberlistArgs{WhenLeftFunc: func(Member) {}},
		members:  newMembersPool(),
		delegate: NewDelegate(local, func() int { return 1 }, nil),
	}
	w := verifC37NewWorld()
	// addresses 0 and 1 belong to node 0; optionally address 1 is already a member
	if verifrt.NondetChoice("preset", 2) == 1 {
		srv.whenJoined(w.member(1))
		w.present[1] = true
	}
	ev := [2]bool{verifrt.NondetChoice("event0-is-leave", 2) == 1, verifrt.NondetChoice("event1-is-leave", 2) == 1}
	var wg sync.WaitGroup
	for i := 0; i < 2; i++ {
		wg.Add(1)
		k, leave := i, ev[i]
		go func() {
			defer wg.Done()
			if leave {
				srv.whenLeft(w.member(k))
			} else {
				srv.whenJoined(w.member(k))
			}
		}()
		w.present[k] = !leave
	}
	wg.Wait()
	verifrt.Reach("C37.concurrent.joined")
	w.check(srv.members, verifC37ObsPresence)
	w.check(srv.members, verifC37ObsNodeLists)
}
