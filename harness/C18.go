package isaac

import (
	"context"
	"time"

	"github.com/pkg/errors"
	"github.com/spikeekips/mitum/base"
	"github.com/spikeekips/mitum/util"
	"github.com/spikeekips/mitum/util/fixedtree"
	"github.com/spikeekips/mitum/util/valuehash"
	"github.com/spikeekips/mitum/util/verifrt"
)

// C18 Suffrage history sync never crashes and accepts only linked proofs.
//
// SuffrageStateBuilder.Build runs against harness remotes. A remote answer is a harness
// SuffrageProof over a harness suffrage state: (suffrage height, block height, state hash,
// previous state hash). Its Prove(previous) is the linking rule of the real proof
// (isaac/block.SuffrageProof.Prove) without the merkle proof of the state:
//   - genesis block: previous must be nil;
//   - otherwise previous must be given, be lower in block height, its hash must be the
//     previous-hash of the proof's state, and the suffrage height must be previous+1.
//
// Answers are either CONSISTENT (the proof of the one valid chain for the requested suffrage
// height; concrete values) or ARBITRARY (every field symbolic and unrelated to the request:
// covers duplicated / missing / shuffled heights, heights below the local state, foreign chains).

type verifC18Value struct {
	sh base.Height
}

func (verifC18Value) HashBytes() []byte                    { return nil }
func (verifC18Value) IsValid([]byte) error                 { return nil }
func (v verifC18Value) Height() base.Height                { return v.sh }
func (verifC18Value) Nodes() []base.SuffrageNodeStateValue { return nil }
func (verifC18Value) Suffrage() (base.Suffrage, error)     { return nil, nil }

type verifC18State struct {
	hash util.Hash
	prev util.Hash
	v    verifC18Value
	h    base.Height // block height
}

func (s *verifC18State) Hash() util.Hash        { return s.hash }
func (*verifC18State) IsValid([]byte) error     { return nil }
func (*verifC18State) Key() string              { return SuffrageStateKey }
func (s *verifC18State) Value() base.StateValue { return s.v }
func (s *verifC18State) Height() base.Height    { return s.h }
func (s *verifC18State) Previous() util.Hash    { return s.prev }
func (*verifC18State) Operations() []util.Hash  { return nil }

type verifC18Proof struct {
	st *verifC18State
}

var errVerifC18 = errors.Errorf("prove failed")

func (*verifC18Proof) IsValid([]byte) error             { return nil }
func (*verifC18Proof) Map() base.BlockMap               { return nil }
func (p *verifC18Proof) State() base.State              { return p.st }
func (*verifC18Proof) Proof() (t fixedtree.Proof)       { return t }
func (*verifC18Proof) Suffrage() (base.Suffrage, error) { return nil, nil }
func (p *verifC18Proof) SuffrageHeight() base.Height    { return p.st.v.sh }

// verifC18Linked is the linking rule (see the file comment).
func verifC18Linked(st *verifC18State, previous base.State) bool {
	if st.h == base.GenesisHeight {
		return previous == nil
	}
	if previous == nil {
		return false
	}
	if st.h <= previous.Height() {
		return false
	}
	if !st.prev.Equal(previous.Hash()) {
		return false
	}
	pv, err := base.LoadSuffrageNodesStateValue(previous)
	if err != nil {
		return false
	}
	return st.v.sh == pv.Height()+1
}

func (p *verifC18Proof) Prove(previous base.State) error {
	if !verifC18Linked(p.st, previous) {
		return errVerifC18
	}
	return nil
}

const verifC18HashLen = 2

func verifC18ArbitraryState(pfx string) *verifC18State {
	return &verifC18State{
		hash: valuehash.NewBytes(verifrt.NondetBytes(pfx+".hash", verifC18HashLen)),
		prev: valuehash.NewBytes(verifrt.NondetBytes(pfx+".previous", verifC18HashLen)),
		v:    verifC18Value{sh: base.Height(int64(verifrt.NondetInt(pfx + ".suffrageheight")))},
		h:    base.Height(int64(verifrt.NondetInt(pfx + ".blockheight"))),
	}
}

// verifC18ChainState is the state of the valid chain at suffrage height sh (sh >= 0):
// block height 10*sh, hash = sh+1 (16 bit), previous = sh.
func verifC18ChainState(sh int64) *verifC18State {
	return &verifC18State{
		hash: valuehash.NewBytes([]byte{byte((sh + 1) >> 8), byte(sh + 1)}),
		prev: valuehash.NewBytes([]byte{byte(sh >> 8), byte(sh)}),
		v:    verifC18Value{sh: base.Height(sh)},
		h:    base.Height(10 * sh),
	}
}

func verifC18Run(batchlimit int64, useConstructor bool) {
	maxNew := verifrt.Bound("proofs", 3, 3)
	maxArbitrary := verifrt.Bound("arbitrary", 1, 2)
	verifC18RunWith(batchlimit, useConstructor, maxNew, maxArbitrary, -1)
}

// fixedAhead >= 0: no local state, every answer consistent, the last proof fixedAhead heights ahead.
func verifC18RunWith(batchlimit int64, useConstructor bool, maxNew, maxArbitrary int, fixedAhead int64) {

	// local state: none, or the valid chain's state at suffrage height 0 / 2
	var localstate base.State
	localsh := int64(-1)
	if fixedAhead < 0 {
		switch verifrt.NondetChoice("local", 3) {
		case 1:
			localsh = 0
		case 2:
			localsh = 2
		}
	}
	if localsh >= 0 {
		localstate = verifC18ChainState(localsh)
	}
	from := localsh + 1

	// the remote's last proof: suffrage height localsh+k, k in -1..maxNew
	// (k <= 0: at or below the local state)
	k := fixedAhead
	if fixedAhead < 0 {
		k = int64(verifrt.NondetChoice("lastahead", maxNew+2)) - 1
	}
	lastsh := localsh + k
	narb := 0
	var last *verifC18Proof
	if fixedAhead < 0 && verifrt.NondetChoice("last.arbitrary", 2) == 1 {
		narb++
		st := verifC18ArbitraryState("last")
		st.v.sh = base.Height(lastsh) // the number of requests depends on it: enumerated
		last = &verifC18Proof{st: st}
	} else {
		verifrt.Assume(lastsh >= 0)
		last = &verifC18Proof{st: verifC18ChainState(lastsh)}
	}

	// answers to getSuffrageProof(from .. lastsh)
	n := int(lastsh - from + 1)
	var answers []*verifC18Proof
	for i := 0; i < n; i++ {
		if narb < maxArbitrary && verifrt.NondetChoice("answer.arbitrary", 2) == 1 {
			narb++
			answers = append(answers, &verifC18Proof{st: verifC18ArbitraryState("answer")})
			continue
		}
		answers = append(answers, &verifC18Proof{st: verifC18ChainState(from + int64(i))})
	}

	var s *SuffrageStateBuilder
	lastf := func(context.Context) (base.Height, base.SuffrageProof, bool, error) {
		return base.Height(777), last, true, nil
	}
	getf := func(_ context.Context, h base.Height) (base.SuffrageProof, bool, error) {
		i := int(h.Int64() - from)
		verifrt.Assert(i >= 0 && i < n, "C18.only-heights-between-local-and-last-are-requested")
		if i < 0 || i >= n {
			return nil, false, nil
		}
		return answers[i], true, nil
	}
	candf := func(context.Context) (base.State, bool, error) { return nil, false, nil }
	if useConstructor {
		s = NewSuffrageStateBuilder(nil, lastf, getf, candf)
	} else {
		// the batch limit of NewSuffrageStateBuilder is fixed (333); the multi-batch logic is
		// exercised on a scaled-down limit (what the in-tree tests do through SetBatchLimit)
		s = &SuffrageStateBuilder{lastSuffrageProof: lastf, getSuffrageProof: getf, lastSuffrageCandidateState: candf, batchlimit: batchlimit}
	}

	_, proofs, _, err := s.Build(context.Background(), localstate)
	if !verifrt.Symbolic() {
		// native replay only: a worker goroutine that panicked releases the worker's semaphore in
		// its deferred call, so Build may return before the runtime has crashed the process; give
		// the crash the time to win so that the replay reports the panic, not a follow-up
		time.Sleep(300 * time.Millisecond)
	}
	verifrt.Reach("C18.build.returned")
	if err != nil {
		verifrt.Reach("C18.build.error")
		return
	}
	if len(proofs) == 0 {
		// nothing new according to Build (the last proof is not above the local state)
		verifrt.Reach("C18.build.nothing-new")
		return
	}
	verifrt.Reach("C18.build.proofs")
	if narb > 0 {
		verifrt.Reach("C18.build.proofs-with-arbitrary-answer")
	}
	if int64(n) > batchlimit {
		verifrt.Reach("C18.build.proofs-several-batches")
	}

	// "a gap-free chain of proofs from the local state to the remote's last proof"
	for i := range proofs {
		verifrt.Assert(proofs[i] != nil, "C18.returned-chain-has-no-missing-proof")
		if proofs[i] == nil {
			return
		}
	}
	verifrt.Assert(proofs[len(proofs)-1] == base.SuffrageProof(last), "C18.chain-ends-at-the-remote's-last-proof")
	// gap-free from the local state: the first proof is the one right after the local state,
	// suffrage heights never skip (the weaker reading: the same height may appear twice, Build
	// appends the remote's last proof after the fetched proof of the same height)
	verifrt.Assert(proofs[0].SuffrageHeight().Int64() == from, "C18.chain-starts-right-after-the-local-state")
	for i := 1; i < len(proofs); i++ {
		d := proofs[i].SuffrageHeight().Int64() - proofs[i-1].SuffrageHeight().Int64()
		verifrt.Assert(d == 0 || d == 1, "C18.chain-is-gap-free")
	}
	// linked: every proof links to the state of the proof of the suffrage height below it in the
	// returned chain (the local state for the first height)
	for i := range proofs {
		p := proofs[i].(*verifC18Proof) //nolint:forcetypeassert //...
		var below base.State = localstate
		for j := i - 1; j >= 0; j-- {
			if proofs[j].SuffrageHeight() < p.SuffrageHeight() {
				below = proofs[j].State()
				break
			}
		}
		if i == len(proofs)-1 {
			// the remote's last proof is linked to the chain either by the linking rule itself, or because
			// it carries the state (same state hash; a hash binds the whole state, which the harness's
			// free hash bytes do not express) of the proved proof of its suffrage height
			same := false
			for j := 0; j < i; j++ {
				if proofs[j].SuffrageHeight() == p.SuffrageHeight() && proofs[j].State().Hash().Equal(p.State().Hash()) {
					same = true
				}
			}
			verifrt.Assert(same || verifC18Linked(p.st, below), "C18.remote's-last-proof-is-linked-to-the-chain")
		} else {
			verifrt.Assert(verifC18Linked(p.st, below), "C18.every-accepted-proof-is-linked-to-its-predecessor")
		}
	}
}

// VerifC18Build: the builder as real callers construct it (NewSuffrageStateBuilder: one batch
// of up to 333 proofs), up to N new suffrage heights.
func VerifC18Build() {
	verifC18Run(333, true)
}

// VerifC18LongHistory: the real constructor and a consistent remote whose history is one proof
// longer than the fixed batch limit (334 suffrage heights from genesis, no local state).
func VerifC18LongHistory() {
	_ = verifrt.NondetChoice("consistent-remote", 1) // (the engine reports a counterexample only with an input vector)
	verifC18RunWith(333, true, 0, 0, 334)
}

// VerifC18BuildBatches: the batch logic on a scaled-down batch limit (1..3).
func VerifC18BuildBatches() {
	limit := int64(1 + verifrt.NondetChoice("batchlimit", verifrt.Bound("maxlimit", 2, 3)))
	verifC18Run(limit, false)
}
