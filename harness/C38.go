package isaacdatabase

import (
	"bytes"
	"context"
	"io"
	"sync"

	"github.com/pkg/errors"
	"github.com/spikeekips/mitum/base"
	"github.com/spikeekips/mitum/isaac"
	leveldbstorage "github.com/spikeekips/mitum/storage/leveldb"
	"github.com/spikeekips/mitum/util"
	"github.com/spikeekips/mitum/util/encoder"
	"github.com/spikeekips/mitum/util/hint"
	"github.com/spikeekips/mitum/util/valuehash"
	"github.com/spikeekips/mitum/util/verifrt"
	leveldbStorage "github.com/syndtr/goleveldb/leveldb/storage"
)

// C38 The local node proposes at most one proposal per position.
//
// World (as launch/p_proposal_maker.go wires it): the real isaac.ProposalMaker over the real
// TempPool (SetProposal / ProposalByPoint with the real keys and frames over the leveldb model),
// a local node with a harness key, a lastBlockMap function and a getOperations function owned by
// the harness. Every call of getOperations returns another list of operations (the operation
// pool changes between any two calls), pairwise distinct in operation hash and in fact hash
// (that is the contract of TempPool.OperationHashes, property C22). The clock advances between
// calls, so two proposals made by two calls never have the same content.
//
// Readings:
//  * "returns the same signed proposal": every call for a (point, previous block) that returns a
//    proposal returns the one the first such call returned: same fact hash, same operations,
//    same signature, same signing time. A call may also return an error (a point two or more
//    heights below the last block is refused); an error is no proposal.
//  * Positions: heights >= 1 with a previous block hash (the genesis proposal is made by the
//    genesis block generator, not by ProposalMaker).

var verifC38NetworkID = base.NetworkID("verif-c38")

// ---- harness encoder (identity round trip) ----

type verifC38Enc struct {
	ht   hint.Hint
	objs []interface{}
}

func (e *verifC38Enc) Hint() hint.Hint                { return e.ht }
func (e *verifC38Enc) Add(encoder.DecodeDetail) error { return nil }
func (e *verifC38Enc) AddHinter(hint.Hinter) error    { return nil }
func (e *verifC38Enc) Unmarshal([]byte, interface{}) error {
	return errors.Errorf("not supported")
}
func (e *verifC38Enc) StreamEncoder(io.Writer) util.StreamEncoder { return nil }
func (e *verifC38Enc) StreamDecoder(io.Reader) util.StreamDecoder { return nil }
func (e *verifC38Enc) Marshal(v interface{}) ([]byte, error) {
	e.objs = append(e.objs, v)
	return []byte{byte(len(e.objs) - 1)}, nil
}

func (e *verifC38Enc) Decode(b []byte) (interface{}, error) {
	if len(b) != 1 || int(b[0]) >= len(e.objs) {
		return nil, errors.Errorf("unknown object")
	}
	return e.objs[b[0]], nil
}

func (e *verifC38Enc) DecodeWithHint(b []byte, _ hint.Hint) (interface{}, error) { return e.Decode(b) }
func (e *verifC38Enc) DecodeWithHintType(b []byte, _ hint.Type) (interface{}, error) {
	return e.Decode(b)
}
func (e *verifC38Enc) DecodeWithFixedHintType(string, int) (interface{}, error) {
	return nil, errors.Errorf("not supported")
}
func (e *verifC38Enc) DecodeSlice([]byte) ([]interface{}, error) {
	return nil, errors.Errorf("not supported")
}

// ---- harness key: a signature carries the signed message ----

type verifC38Key struct{}

func (verifC38Key) String() string       { return "verifc38key" }
func (verifC38Key) Bytes() []byte        { return []byte("verifc38key") }
func (verifC38Key) IsValid([]byte) error { return nil }
func (verifC38Key) Equal(o base.PKKey) bool {
	_, ok := o.(verifC38Key)
	return ok
}
func (k verifC38Key) Publickey() base.Publickey { return k }
func (verifC38Key) Sign(b []byte) (base.Signature, error) {
	// signing takes a few milliseconds: two proposals made one after the other differ at least in
	// their proposed-at time, so a second proposal of a position is never mistaken for the first
	verifrt.AdvanceClock(3_000_000)
	return base.Signature(append([]byte("signed:"), b...)), nil
}
func (verifC38Key) Verify(b []byte, sig base.Signature) error {
	if bytes.Equal(sig, append([]byte("signed:"), b...)) {
		return nil
	}
	return base.ErrSignatureVerification.Errorf("verifc38key")
}

// ---- last block ----

type verifC38Manifest struct {
	base.Manifest // not used: the maker reads Height() and Hash()
	height        base.Height
	hash          util.Hash
}

func (m verifC38Manifest) Height() base.Height { return m.height }
func (m verifC38Manifest) Hash() util.Hash     { return m.hash }

type verifC38BlockMap struct {
	base.BlockMap // not used: the maker reads Manifest()
	m             verifC38Manifest
}

func (b verifC38BlockMap) Manifest() base.Manifest { return b.m }

// ---- world ----

type verifC38World struct {
	pool    *TempPool
	maker   *isaac.ProposalMaker
	local   base.LocalNode
	found   bool        // is there a last block
	lheight base.Height // its height
	lhash   util.Hash   // its hash
	opcalls int         // number of getOperations calls so far
}

func verifC38Hash(s string) util.Hash { return valuehash.NewSHA256([]byte(s)) }

func verifC38NewWorld() *verifC38World {
	st, err := leveldbstorage.NewStorage(leveldbStorage.NewMemStorage(), nil)
	verifrt.Assert(err == nil, "C38.harness.storage-opens")
	enc := &verifC38Enc{ht: hint.MustNewHint("verif-enc-v0.0.1")}
	encs := encoder.NewEncoders(enc, enc)
	pool, err := newTempPool(st, encs, enc, 0)
	verifrt.Assert(err == nil, "C38.harness.pool-opens")
	w := &verifC38World{pool: pool}
	w.local = isaac.NewLocalNode(verifC38Key{}, base.NewStringAddress("local"))
	w.maker = isaac.NewProposalMaker(w.local, verifC38NetworkID, w.getOperations, pool, w.lastBlockMap)
	return w
}

func (w *verifC38World) lastBlockMap() (base.BlockMap, bool, error) {
	if !w.found {
		return nil, false, nil
	}
	return verifC38BlockMap{m: verifC38Manifest{height: w.lheight, hash: w.lhash}}, true, nil
}

// getOperations: the k-th call hands out 1 + k%3 operations nobody has seen before.
func (w *verifC38World) getOperations(context.Context, base.Height) ([][2]util.Hash, error) {
	k := w.opcalls
	w.opcalls++
	n := 1 + k%3
	ops := make([][2]util.Hash, n)
	for j := range ops {
		ops[j] = [2]util.Hash{
			valuehash.NewBytes([]byte{'o', byte(k), byte(j)}),
			valuehash.NewBytes([]byte{'f', byte(k), byte(j)}),
		}
	}
	return ops, nil
}

type verifC38Pos struct {
	point base.Point
	prev  util.Hash
}

func verifC38SameProposal(a, b base.ProposalSignFact) bool {
	if !a.Fact().Hash().Equal(b.Fact().Hash()) {
		return false
	}
	aops, bops := a.ProposalFact().Operations(), b.ProposalFact().Operations()
	if len(aops) != len(bops) {
		return false
	}
	for i := range aops {
		if !aops[i][0].Equal(bops[i][0]) || !aops[i][1].Equal(bops[i][1]) {
			return false
		}
	}
	as, bs := a.Signs(), b.Signs()
	if len(as) != 1 || len(bs) != 1 {
		return false
	}
	return bytes.Equal(as[0].Signature(), bs[0].Signature()) && as[0].SignedAt().Equal(bs[0].SignedAt())
}

func verifC38CheckProposal(pr base.ProposalSignFact, pos verifC38Pos, w *verifC38World, pfx string) {
	fact := pr.ProposalFact()
	verifrt.Assert(fact.Point().Equal(pos.point) && fact.PreviousBlock().Equal(pos.prev) && fact.Proposer().Equal(w.local.Address()),
		pfx+".returned-proposal-is-the-local-node's-proposal-for-the-asked-point-and-previous-block")
	ops := fact.Operations()
	for i := range ops {
		for j := 0; j < i; j++ {
			verifrt.Assert(!ops[i][0].Equal(ops[j][0]), pfx+".proposal-lists-operations-with-distinct-operation-hashes")
			verifrt.Assert(!ops[i][1].Equal(ops[j][1]), pfx+".proposal-lists-operations-with-distinct-facts")
		}
	}
	if len(ops) > 1 {
		verifrt.Reach(pfx + ".proposal-with-several-operations")
	}
}

// VerifC38Seq: a sequence of Make / PreferEmpty calls over two positions with symbolic height
// and round; the last block (none, or any height, one of two hashes) may advance between calls.
func VerifC38Seq() {
	w := verifC38NewWorld()
	hashes := []util.Hash{verifC38Hash("block-a"), verifC38Hash("block-b")}
	npos := 2
	ncalls := verifrt.Bound("calls", 3, 3)
	advance := verifrt.Bound("advance", 0, 1) == 1 // may the last block advance between calls

	pos := make([]verifC38Pos, npos)
	hs := make([]int64, npos)
	rs := make([]uint64, npos)
	pv := make([]int, npos)
	for i := range pos {
		hs[i] = int64(verifrt.NondetInt("height"))
		verifrt.Assume(hs[i] >= 1 && hs[i] < 1<<62)
		rs[i] = verifrt.NondetU64("round")
		if i > 0 {
			pv[i] = verifrt.NondetChoice("previous", 2)
		}
		for j := 0; j < i; j++ { // pairwise distinct positions
			if pv[j] == pv[i] {
				verifrt.Assume(uint64(hs[j]^hs[i])|(rs[j]^rs[i]) != 0)
			}
		}
		pos[i] = verifC38Pos{point: base.RawPoint(hs[i], rs[i]), prev: hashes[pv[i]]}
	}

	w.found = verifrt.NondetChoice("lastblock", 2) == 1
	w.lhash = hashes[0]
	if w.found {
		w.lheight = base.Height(verifrt.NondetInt("lastheight"))
		verifrt.Assume(w.lheight >= 0 && w.lheight < 1<<62)
	}

	first := make([]base.ProposalSignFact, npos)
	used := 0
	for c := 0; c < ncalls; c++ {
		if c > 0 {
			verifrt.AdvanceClock(3_000_000)
			if advance && verifrt.NondetChoice("newblock", 2) == 1 { // the chain grew in the meantime
				nh := base.Height(verifrt.NondetInt("lastheight"))
				verifrt.Assume(nh < 1<<62)
				if w.found {
					verifrt.Assume(nh > w.lheight)
				} else {
					verifrt.Assume(nh >= 0)
				}
				w.found, w.lheight = true, nh
			}
		}
		// symmetry: position 1 only after position 0 was asked for
		k := 0
		if used > 0 {
			k = verifrt.NondetChoice("position", 2)
		}
		if k == used {
			used++
		}
		var pr base.ProposalSignFact
		var err error
		if verifrt.NondetChoice("call", 2) == 0 {
			pr, err = w.maker.Make(context.Background(), pos[k].point, pos[k].prev)
		} else {
			pr, err = w.maker.PreferEmpty(context.Background(), pos[k].point, pos[k].prev)
		}
		verifrt.Reach("C38.seq.returned")
		tooold := w.found && hs[k] < int64(w.lheight)-1
		if err != nil {
			verifrt.Reach("C38.seq.refused")
			verifrt.Assert(pr == nil, "C38.seq.an-error-comes-without-a-proposal")
			// not a clause of C38, but a maker that refuses everything would make the check vacuous
			verifrt.Assert(tooold, "C38.harness.only-points-below-the-last-block-are-refused")
			continue
		}
		verifrt.Assert(pr != nil, "C38.seq.returns-a-proposal-or-an-error")
		if pr == nil {
			continue
		}
		verifC38CheckProposal(pr, pos[k], w, "C38.seq")
		if first[k] == nil {
			verifrt.Reach("C38.seq.first-proposal-of-a-position")
			first[k] = pr
			continue
		}
		verifrt.Reach("C38.seq.asked-again")
		verifrt.Assert(verifC38SameProposal(first[k], pr), "C38.seq.for-a-given-point-and-previous-block-it-returns-the-same-signed-proposal")
	}
	if first[0] != nil && first[1] != nil {
		verifrt.Reach("C38.seq.two-positions-proposed")
		verifrt.Assert(!verifC38SameProposal(first[0], first[1]), "C38.harness.different-positions-have-different-proposals")
	}
}

// VerifC38Concurrent: callers on their own goroutines, each one Make or PreferEmpty call for one
// of two positions, under every schedule within the preemption bound; afterwards every position
// is asked for once more.
func VerifC38Concurrent() { verifC38Concurrent(2) }

// VerifC38ThreeCallers: the same with three callers (explored without preemptions: every order in
// which the callers get to run and every hand-over at a blocking point).
func VerifC38ThreeCallers() { verifC38Concurrent(3) }

func verifC38Concurrent(n int) {
	w := verifC38NewWorld()
	ha, hb := verifC38Hash("block-a"), verifC38Hash("block-b")
	w.found, w.lhash = true, ha
	// last block 32: (33, r, a) is the next block (operations), (33, r, b) has another previous
	// block (empty); last block 30: height 33 is out of reach (empty proposal)
	// three callers, quick tier: only last block 32 and the two rounds of height 33
	full := n == 2 || verifrt.Bound("three.full", 0, 1) == 1
	w.lheight = 32
	if full && verifrt.NondetChoice("lastheight", 2) == 1 {
		w.lheight = 30
	}
	which := make([]int, n)
	kind := make([]int, n)
	other := false
	for g := 0; g < n; g++ {
		if g > 0 {
			which[g] = verifrt.NondetChoice("position", 2)
		}
		kind[g] = verifrt.NondetChoice("call", 2)
		if g > 0 && which[g] == which[g-1] {
			// symmetry: callers of the same position are interchangeable (every order of them is scheduled)
			verifrt.Assume(kind[g] >= kind[g-1])
		}
		other = other || which[g] == 1
	}
	pos := []verifC38Pos{{point: base.RawPoint(33, 0), prev: ha}, {point: base.RawPoint(33, 1), prev: ha}}
	if full && other && verifrt.NondetChoice("positions", 2) == 1 {
		pos[1] = verifC38Pos{point: base.RawPoint(33, 0), prev: hb}
	}
	prs := make([]base.ProposalSignFact, n)
	errs := make([]error, n)
	var wg sync.WaitGroup
	for g := 0; g < n; g++ {
		g := g
		wg.Add(1)
		go func() {
			defer wg.Done()
			if kind[g] == 0 {
				prs[g], errs[g] = w.maker.Make(context.Background(), pos[which[g]].point, pos[which[g]].prev)
			} else {
				prs[g], errs[g] = w.maker.PreferEmpty(context.Background(), pos[which[g]].point, pos[which[g]].prev)
			}
		}()
	}
	wg.Wait()
	verifrt.Reach("C38.concurrent.returned")
	for g := 0; g < n; g++ {
		verifrt.Assert(errs[g] == nil && prs[g] != nil, "C38.harness.concurrent.call-succeeds")
		if prs[g] == nil {
			return
		}
		verifC38CheckProposal(prs[g], pos[which[g]], w, "C38.concurrent")
		for o := 0; o < g; o++ {
			if which[o] != which[g] {
				continue
			}
			verifrt.Reach("C38.concurrent.two-callers-for-the-same-position")
			verifrt.Assert(verifC38SameProposal(prs[o], prs[g]),
				"C38.concurrent.however-concurrently-asked-it-returns-the-same-signed-proposal")
		}
	}
	// asked again afterwards
	verifrt.AdvanceClock(3_000_000)
	for g := 0; g < n; g++ {
		pr, err := w.maker.Make(context.Background(), pos[which[g]].point, pos[which[g]].prev)
		verifrt.Assert(err == nil && pr != nil, "C38.harness.concurrent.call-succeeds")
		if pr == nil {
			return
		}
		verifrt.Assert(verifC38SameProposal(prs[g], pr), "C38.concurrent.however-often-asked-it-returns-the-same-signed-proposal")
	}
}
