package isaacstates

import (
	"sync"

	"github.com/pkg/errors"
	"github.com/spikeekips/mitum/base"
	"github.com/spikeekips/mitum/util"
	"github.com/spikeekips/mitum/util/logging"
	"github.com/spikeekips/mitum/util/verifrt"
)

// C09 State machine takes only allowed transitions — one switch request from an arbitrary state.
//
// The real States.ensureSwitchState / switchState / exitAndEnter / checkStateSwitchContext run
// over harness handlers whose exit/enter outcomes are chosen by the engine (ok, plain error,
// "ignore", redirect to another state). Every entered handler records the edge (from, to).

var verifC09States = []StateType{StateStopped, StateBooting, StateJoining, StateConsensus, StateSyncing, StateHandover, StateBroken}

type verifC09World struct {
	st       *States
	edges    [][2]StateType // (state the machine was in, handler entered)
	reported []StateType
	mismatch bool // a reported switch did not match Current() at the time of the report
	budget   int  // how many non-ok handler outcomes may still be chosen
	calls    int
}

type verifC09NewHandler struct {
	s StateType
	w *verifC09World
}

func (n verifC09NewHandler) new() (handler, error) { return &verifC09Handler{s: n.s, w: n.w}, nil }
func (verifC09NewHandler) setStates(*States)         {}

type verifC09Handler struct {
	s StateType
	w *verifC09World
}

func (h *verifC09Handler) state() StateType { return h.s }

func (h *verifC09Handler) enter(from StateType, _ switchContext) (func(), error) {
	h.w.calls++
	h.w.edges = append(h.w.edges, [2]StateType{from, h.s})
	if h.w.budget > 0 {
		switch verifrt.NondetChoice("enter-outcome", 3) {
		case 1:
			h.w.budget--
			return nil, errors.Errorf("enter failed")
		case 2: // the entered handler asks to move on (as booting -> joining/syncing does)
			h.w.budget--
			next := verifC09States[verifrt.NondetChoice("redirect-to", len(verifC09States))]
			return nil, newBaseSwitchContext(h.s, next)
		}
	}
	return func() {}, nil
}

func (h *verifC09Handler) exit(switchContext) (func(), error) {
	h.w.calls++
	if h.w.budget > 0 {
		switch verifrt.NondetChoice("exit-outcome", 3) {
		case 1:
			h.w.budget--
			return nil, errors.Errorf("exit failed")
		case 2:
			h.w.budget--
			return nil, ErrIgnoreSwitchingState.Errorf("handler ignores")
		}
	}
	return func() {}, nil
}

func (*verifC09Handler) newVoteproof(base.Voteproof) error { return nil }
func (*verifC09Handler) allowedConsensus() bool            { return true }
func (*verifC09Handler) whenSetAllowConsensus(bool)        {}

func verifC09NewWorld(current StateType, allowed bool, budget int) *verifC09World {
	w := &verifC09World{budget: budget}
	args := NewStatesArgs()
	st := &States{
		Logging:          logging.NewLogging(nil),
		args:             args,
		newHandlers:      map[StateType]newHandler{},
		allowedConsensus: util.NewLocked(allowed),
		handoverXBroker:  util.EmptyLocked[*HandoverXBroker](),
		handoverYBroker:  util.EmptyLocked[*HandoverYBroker](),
	}
	for _, s := range verifC09States {
		st.newHandlers[s] = verifC09NewHandler{s: s, w: w}
	}
	st.cs = &verifC09Handler{s: current, w: w}
	args.WhenStateSwitchedFunc = func(s StateType) {
		w.reported = append(w.reported, s)
		if st.Current() != s {
			w.mismatch = true
		}
	}
	w.st = st
	return w
}

func (w *verifC09World) check(initial StateType, allowed bool) {
	for _, e := range w.edges {
		if e[0] == StateStopped {
			verifrt.Assert(e[1] == StateBooting || e[1] == StateBroken, "C09.stopped-goes-only-to-booting-or-broken")
		}
		if !allowed && e[0] != StateHandover {
			verifrt.Assert(e[1] != StateJoining && e[1] != StateConsensus,
				"C09.not-allowed-node-never-enters-joining-or-consensus-except-by-completing-a-handover")
		}
	}
	verifrt.Assert(!w.mismatch, "C09.every-reported-switch-matches-the-state-the-machine-is-in")
	if n := len(w.reported); n > 0 {
		verifrt.Assert(w.reported[n-1] == w.st.Current(), "C09.last-reported-switch-is-the-state-the-machine-is-in-afterwards")
	}
	_ = initial
}

// VerifC09OneRequest: every (current state, request origin, requested state, allowed flag), every
// combination of up to B non-ok handler outcomes along the way.
func VerifC09OneRequest() {
	current := verifC09States[verifrt.NondetChoice("current", len(verifC09States))]
	from := verifC09States[verifrt.NondetChoice("request-from", len(verifC09States))]
	next := verifC09States[verifrt.NondetChoice("request-next", len(verifC09States))]
	allowed := verifrt.NondetChoice("allowed-consensus", 2) == 1
	w := verifC09NewWorld(current, allowed, verifrt.Bound("bad-outcomes", 1, 2))
	_ = w.st.ensureSwitchState(newBaseSwitchContext(from, next))
	verifrt.Reach("C09.request-handled")
	if from != current {
		verifrt.Reach("C09.request-from-other-state")
		verifrt.Assert(w.calls == 0 && len(w.reported) == 0 && w.st.Current() == current,
			"C09.request-whose-origin-is-not-the-current-state-has-no-effect")
	}
	if !allowed && (next == StateJoining || next == StateConsensus) && from == current &&
		current != StateHandover && current != StateStopped && current != StateJoining && current != StateConsensus {
		// it goes to or stays in Syncing instead (when nothing fails on the way)
		if w.budget == verifrt.Bound("bad-outcomes", 1, 2) {
			verifrt.Assert(w.st.Current() == StateSyncing, "C09.not-allowed-node-goes-to-or-stays-in-syncing-instead")
		}
	}
	w.check(current, allowed)
}

// VerifC09Concurrent: the switching goroutine races SetAllowConsensus(false/true) and Hold():
// the edge rules hold for the allowed flag as it was when the switch was checked.
func VerifC09Concurrent() {
	current := []StateType{StateBooting, StateSyncing, StateJoining}[verifrt.NondetChoice("current", 3)]
	next := []StateType{StateJoining, StateConsensus, StateSyncing}[verifrt.NondetChoice("request-next", 3)]
	w := verifC09NewWorld(current, true, 0)
	var wg sync.WaitGroup
	wg.Add(2)
	go func() { defer wg.Done(); _ = w.st.ensureSwitchState(newBaseSwitchContext(current, next)) }()
	go func() { defer wg.Done(); _ = w.st.SetAllowConsensus(false) }()
	wg.Wait()
	verifrt.Reach("C09.concurrent.joined")
	// afterwards a not-allowed node asks again: it must not get into joining/consensus
	w.edges = nil
	cur := w.st.Current()
	_ = w.st.ensureSwitchState(newBaseSwitchContext(cur, StateConsensus))
	w.check(cur, false)
}
