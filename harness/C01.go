package base

import "github.com/spikeekips/mitum/util/verifrt"

// C01 Vote tally decides majority, draw and not-yet correctly.
//
// Oracle (unbounded-integer reading of the statement; all values are kept below
// 2^32 so that the 64-bit harness arithmetic is exact):
//   th'      = min(threshold, quorum)
//   MAJORITY  <=> some count >= th'
//   DRAW      <=> no majority and max + missing < th', missing = max(0, quorum - sum)
//   NOT YET   otherwise

func verifC01Oracle(quorum, threshold uint, cnt []uint) (maj bool, draw bool) {
	th := threshold
	if th > quorum {
		th = quorum
	}
	var sum, mx uint
	for _, c := range cnt {
		if c >= th {
			maj = true
		}
		sum += c
		if c > mx {
			mx = c
		}
	}
	var missing uint
	if sum < quorum {
		missing = quorum - sum
	}
	draw = !maj && mx+missing < th
	return maj, draw
}

// VerifC01FindMajority: every quorum/threshold below 2^32 and every list of up
// to N counts (each below 2^32), including lists whose sum exceeds the quorum.
func VerifC01FindMajority() {
	N := verifrt.Bound("sets", 4, 6)
	k := verifrt.NondetChoice("nsets", N+1)
	quorum := uint(verifrt.NondetU32("quorum"))
	threshold := uint(verifrt.NondetU32("threshold"))
	verifrt.Assume(quorum >= 1)
	verifrt.Assume(threshold >= 1)
	cnt := make([]uint, k)
	for i := range cnt {
		cnt[i] = uint(verifrt.NondetU32("count"))
	}
	arg := append([]uint{}, cnt...) // FindMajority sorts its argument in place
	r := FindMajority(quorum, threshold, arg...)
	verifrt.Reach("C01.findmajority.returned")
	maj, draw := verifC01Oracle(quorum, threshold, cnt)
	th := threshold
	if th > quorum {
		th = quorum
	}
	verifrt.Assert(r >= -2 && r < k, "C01.result-is-index-or-notyet-or-draw")
	if r >= 0 && r < k {
		verifrt.Assert(cnt[r] >= th, "C01.reported-majority-fact-reaches-required-count")
	}
	verifrt.Assert((r >= 0) == maj, "C01.majority-exactly-when-a-fact-reaches-required-count")
	verifrt.Assert((r == -2) == draw, "C01.draw-exactly-when-no-fact-can-still-reach-it")
	verifrt.Assert((r == -1) == (!maj && !draw), "C01.notyet-otherwise")
}

var verifC01Facts = []string{"fact-a", "fact-b", "fact-c", "fact-d"}

func verifC01Votes(V, K int) ([]string, []uint) {
	v := verifrt.NondetChoice("nvotes", V+1)
	votes := make([]string, v)
	cnt := make([]uint, K)
	used := 0 // symmetry reduction: fact i+1 is only used after fact i has been used
	for i := range votes {
		lim := used + 1
		if lim > K {
			lim = K
		}
		f := verifrt.NondetChoice("vote", lim)
		if f == used {
			used++
		}
		votes[i] = verifC01Facts[f]
		cnt[f]++
	}
	return votes, cnt
}

func verifC01CheckResult(result VoteResult, key string, quorum, threshold uint, cnt []uint) {
	maj, draw := verifC01Oracle(quorum, threshold, cnt)
	th := threshold
	if th > quorum {
		th = quorum
	}
	verifrt.Assert((result == VoteResultMajority) == maj, "C01.voteresult.majority-exactly-when-a-fact-reaches-required-count")
	verifrt.Assert((result == VoteResultDraw) == draw, "C01.voteresult.draw-exactly-when-no-fact-can-still-reach-it")
	verifrt.Assert((result == VoteResultNotYet) == (!maj && !draw), "C01.voteresult.notyet-otherwise")
	if result == VoteResultMajority {
		found := false
		for i, f := range verifC01Facts {
			if i < len(cnt) && f == key {
				found = true
				verifrt.Assert(cnt[i] >= th, "C01.voteresult.reported-fact-reaches-required-count")
			}
		}
		verifrt.Assert(found, "C01.voteresult.reported-fact-was-voted")
	} else {
		verifrt.Assert(key == "", "C01.voteresult.no-fact-without-majority")
	}
}

// VerifC01FindVoteResult: every vote list of up to V votes over up to K facts
// (up to renaming of facts), every map iteration order, symbolic quorum and threshold.
func VerifC01FindVoteResult() {
	votes, cnt := verifC01Votes(verifrt.Bound("votes", 5, 6), verifrt.Bound("facts", 3, 3))
	quorum := uint(verifrt.NondetU32("quorum"))
	threshold := uint(verifrt.NondetU32("threshold"))
	verifrt.Assume(quorum >= 1)
	verifrt.Assume(threshold >= 1)
	result, key := FindVoteResult(quorum, threshold, votes)
	verifrt.Reach("C01.findvoteresult.returned")
	verifC01CheckResult(result, key, quorum, threshold, cnt)
}

// VerifC01ThresholdVoteResult: Threshold.VoteResult composes the required count
// of C02 with the tally: checked against the oracle with the exact ceiling.
func VerifC01ThresholdVoteResult() {
	votes, cnt := verifC01Votes(verifrt.Bound("tvotes", 3, 4), verifrt.Bound("tfacts", 2, 3))
	t10s := []uint{510, 600, 667, 670, 800, 999, 1000}
	t10 := t10s[verifrt.NondetChoice("t10", len(t10s))]
	quorum := uint(verifrt.NondetU8("quorum"))
	verifrt.Assume(quorum >= 1)
	exact := (quorum*t10 + 999) / 1000
	result, key := Threshold(float64(t10) / 10).VoteResult(quorum, votes)
	verifrt.Reach("C01.thresholdvoteresult.returned")
	verifC01CheckResult(result, key, quorum, exact, cnt)
}
