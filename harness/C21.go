package isaacdatabase

import (
	"context"

	"github.com/spikeekips/mitum/base"
	"github.com/spikeekips/mitum/util/verifrt"
)

// C21 Block commit is atomic across crashes.
//
// Kernel: the real LeveldbBlockWrite / TempLeveldb.Merge / Center.mergePermanent ->
// LeveldbPermanent.MergeTempDatabase over one leveldb storage, and the real startup path
// (NewLeveldbPermanent, NewCenter -> loadTemps) as the "reopen"; see DB_common.go.
//
// Crash model (engine, DESIGN §2.7): the storage silently drops its n-th (0-based) mutating
// call (Put / Delete / Write(batch), each atomic) and every later one: the process died
// before that call. Every n from "first write of the step under test" to "one past its last
// write" (= no crash) is explored: the step is first executed on a scratch world to count its
// writes, then on a fresh world whose storage dies at write n. Then the storage is revived
// (restart) and the permanent database and the Center are constructed anew.
//
// Assertion (verifC21CheckVisible), with L the last height the reopened database reports
// (it may be any height from the one below the block under test up to the last written one):
//   every written block of height <= L is FULLY VISIBLE: BlockMap(height) is its map, State(key) is
//     its state for every state it set (unless a later visible block set the key again),
//     every in-state and known operation of it is known, SuffrageProof(its suffrage height) is
//     its proof; LastBlockMap / LastSuffrageProof / LastNetworkPolicy are those of the latest
//     such block;
//   every written block above L is NOT VISIBLE AT ALL: BlockMap(height) is not found, no State read
//     returns one of its states, none of its operations is known, no suffrage proof read and no
//     policy read returns its proof / policy.
// (Whether reads of things NO block has, e.g. a suffrage height above the last, are answered
// correctly is C19's business, not asserted here.)
//
// Natively the crash vocabulary is a no-op (no write is ever dropped), so counterexamples of
// these entries cannot be replayed natively (no_native_validation).

type verifC21Shape struct {
	importer bool // written the way BlockImporter does (block map first) instead of Writer
	nkeys    int  // plain states of the block under test
	suffrage bool // the block under test changes the suffrage (proof written)
	huge     bool // only the first phase is run
	cache    int
}

func verifC21Keys(n int, from byte) []byte {
	ks := make([]byte, n)
	for i := range ks {
		ks[i] = from + byte(i)
	}
	return ks
}

// verifC21Setup: genesis and block 1 committed, genesis merged into the permanent database
// (temps = [1]); returns the world, the chain and the block 2 under test (not yet written).
func verifC21Setup(sh verifC21Shape) (*verifDBWorld, []*verifDBBlock, *verifDBBlock) {
	w := verifDBNewWorld(sh.cache)
	b0 := verifDBNewBlock(0, 0, 0, true, []byte{'a'})
	b1 := verifDBNewBlock(1, 1, -1, false, []byte{'a', 'b'})
	verifrt.Assert(w.writeBlock(b0, false) == nil, "C21.harness.genesis-committed")
	verifrt.Assert(w.writeBlock(b1, false) == nil, "C21.harness.block-1-committed")
	merged, err := w.center.mergePermanent(context.Background())
	verifrt.Assert(err == nil && merged, "C21.harness.genesis-merged-into-permanent")
	sufh := -1
	if sh.suffrage {
		sufh = 1
	}
	b2 := verifDBNewBlock(2, 2, sufh, sh.suffrage, verifC21Keys(sh.nkeys, 'a'))
	return w, []*verifDBBlock{b0, b1}, b2
}

func verifC21Shape0() verifC21Shape {
	sh := verifC21Shape{}
	sh.importer = verifrt.NondetChoice("importer-order", 2) == 1
	switch verifrt.NondetChoice("large", 1+verifrt.Bound("large", 1, 2)) {
	case 1:
		// more keys than one batch of the block write database (1<<7): 3 keys per state (state,
		// in-state operation, known operation) = 135 keys, two batches
		sh.nkeys = verifrt.Bound("largekeys", 45, 45)
	case 2:
		// thorough only: 390 keys, four batches; the engine's step budget per path then only allows
		// the first phase (crash, restart, all-or-nothing check)
		sh.nkeys = verifrt.Bound("hugekeys", 130, 130)
		sh.huge = true
	default:
		sh.nkeys = 2
	}
	sh.suffrage = verifrt.NondetChoice("suffrage-change", 2) == 1
	return sh
}

// reopenAndCheck: restart, then all-or-nothing; returns the last height seen.
func verifC21ReopenAndCheck(w *verifDBWorld, written []*verifDBBlock, lowest int, lbl string) int {
	verifrt.StorageCrashAfter(-1) // the storage accepts writes again
	w.open()
	last := -1
	if m, found, err := w.center.LastBlockMap(); err == nil && found {
		last = int(m.Manifest().Height())
	}
	verifrt.Assert(last >= lowest && last < len(written), lbl+".after-reopen-the-last-height-is-the-block's-or-the-one-below-it")
	if last < lowest || last >= len(written) {
		return last
	}
	verifC21CheckVisible(w, written[:last+1], written[last+1:], lbl)
	return last
}

func verifC21CheckVisible(w *verifDBWorld, visible, hidden []*verifDBBlock, lbl string) {
	db := w.center
	var lastproof *verifDBProof
	var lastpolicy *verifDBPolicy
	latest := map[string]*verifDBState{}
	for _, b := range visible {
		if b.proof != nil {
			lastproof = b.proof
		}
		if b.policy != nil {
			lastpolicy = b.policy
		}
		for _, st := range b.states {
			latest[st.key] = st
		}
	}
	top := base.NilHeight
	if len(visible) > 0 {
		top = visible[len(visible)-1].height
		m, found, err := db.LastBlockMap()
		verifrt.Assert(err == nil && found && m == base.BlockMap(visible[len(visible)-1].mp), lbl+".last-block-map-is-the-map-of-the-last-visible-block")
	}
	for _, b := range visible {
		m, found, err := db.BlockMap(b.height)
		verifrt.Assert(err == nil && found && m == base.BlockMap(b.mp), lbl+".visible-block.fully-visible-with-its-map")
		for i, st := range b.states {
			if latest[st.key] == st {
				got, found, err := db.State(st.key)
				verifrt.Assert(err == nil && found && got == base.State(st), lbl+".visible-block.fully-visible-with-every-state")
			}
			found, err := db.ExistsInStateOperation(st.ops[0])
			verifrt.Assert(err == nil && found, lbl+".visible-block.fully-visible-with-every-operation-record(in-state)")
			found, err = db.ExistsKnownOperation(b.ops[i])
			verifrt.Assert(err == nil && found, lbl+".visible-block.fully-visible-with-every-operation-record(known)")
		}
		if b.proof != nil {
			p, found, err := db.SuffrageProof(b.proof.SuffrageHeight())
			verifrt.Assert(err == nil && found && p == base.SuffrageProof(b.proof), lbl+".visible-block.fully-visible-with-its-proof")
		}
	}
	p, found, err := db.LastSuffrageProof()
	verifrt.Assert(err == nil, lbl+".last-suffrage-proof.no-error")
	if lastproof != nil {
		verifrt.Assert(found && p == base.SuffrageProof(lastproof), lbl+".last-suffrage-proof-is-the-one-of-the-latest-visible-block-with-a-proof")
	}
	pol := db.LastNetworkPolicy()
	if lastpolicy != nil {
		verifrt.Assert(pol == base.NetworkPolicy(lastpolicy), lbl+".last-network-policy-is-the-one-of-the-latest-visible-block-with-a-policy")
	}
	for _, b := range hidden {
		m, found, err := db.BlockMap(b.height)
		verifrt.Assert(err == nil, lbl+".hidden-block.block-map-read.no-error")
		if b.height > top {
			verifrt.Assert(!found, lbl+".hidden-block.not-visible-at-all(block-map-not-found-above-the-last-height)")
		} else {
			verifrt.Assert(!found || m != base.BlockMap(b.mp), lbl+".hidden-block.not-visible-at-all(its-map-is-not-returned)")
		}
		for i, st := range b.states {
			got, found, err := db.State(st.key)
			verifrt.Assert(err == nil, lbl+".hidden-block.state-read.no-error")
			verifrt.Assert(!found || got != base.State(st), lbl+".hidden-block.not-visible-at-all(none-of-its-states-is-returned)")
			found, err = db.ExistsInStateOperation(st.ops[0])
			verifrt.Assert(err == nil && !found, lbl+".hidden-block.not-visible-at-all(its-in-state-operations-are-unknown)")
			found, err = db.ExistsKnownOperation(b.ops[i])
			verifrt.Assert(err == nil && !found, lbl+".hidden-block.not-visible-at-all(its-operations-are-unknown)")
		}
		if b.proof != nil {
			q, found, err := db.SuffrageProof(b.proof.SuffrageHeight())
			verifrt.Assert(err == nil, lbl+".hidden-block.suffrage-proof-read.no-error")
			verifrt.Assert(!found || q != base.SuffrageProof(b.proof), lbl+".hidden-block.not-visible-at-all(its-proof-is-not-returned)")
			verifrt.Assert(p != base.SuffrageProof(b.proof), lbl+".hidden-block.not-visible-at-all(its-proof-is-not-the-last-proof)")
		}
		if b.policy != nil {
			verifrt.Assert(pol != base.NetworkPolicy(b.policy), lbl+".hidden-block.not-visible-at-all(its-policy-is-not-the-last-policy)")
		}
	}
}

// VerifC21TempCommit: crash at every write of "write block 2 and merge it as temp database".
func VerifC21TempCommit() {
	sh := verifC21Shape0()

	// count the writes on a scratch world
	w0, _, b2 := verifC21Setup(sh)
	before := verifrt.StorageWrites()
	verifrt.Assert(w0.writeBlock(b2, sh.importer) == nil, "C21.harness.block-2-committed-without-crash")
	after := verifrt.StorageWrites()
	nw := after - before
	if before == 0 && after == 0 {
		nw = 0 // native run: no crash vocabulary
	}
	if sh.nkeys > 128/3 {
		// at least two batches, the block map and the merged marker
		verifrt.Assert(nw == 0 || nw >= 4, "C21.harness.large-block-needs-more-than-one-batch")
	}

	// the crash run
	n := verifrt.NondetChoice("crash-at-write", nw+1)
	verifrt.StorageCrashAfter(before + n)
	w, chain, b2 := verifC21Setup(sh)
	_ = w.writeBlock(b2, sh.importer) // the process dies somewhere in here (n == nw: it does not)
	written := append(append([]*verifDBBlock{}, chain...), b2)
	last := verifC21ReopenAndCheck(w, written, 1, "C21.temp")
	switch {
	case last == 2:
		// (only without a crash: the merged marker is the very last write of the step)
		verifrt.Reach("C21.temp.block-fully-visible-after-reopen")
	case last == 1:
		verifrt.Reach("C21.temp.block-not-visible-after-reopen")
	}
	if n == nw {
		verifrt.Assert(last == 2, "C21.harness.without-crash-the-block-is-visible")
	}
	if n > 0 && n < nw && sh.nkeys > 128/3 {
		verifrt.Reach("C21.temp.crash-between-two-batches-of-a-large-block")
	}

	if sh.huge {
		verifrt.Reach("C21.temp.huge-block-checked")
		return
	}

	// the node goes on: the block of height last+1 is written (again) and must be whole, and
	// what the crashed attempt left behind must not show through - also after another restart
	next := verifDBNewBlock(base.Height(last+1), 3, -1, false, []byte{'b', 'c'})
	verifrt.Assert(w.writeBlock(next, false) == nil, "C21.temp.after-reopen-the-next-block-can-be-committed")
	written2 := append(append([]*verifDBBlock{}, written[:last+1]...), next)
	verifC21CheckVisible(w, written2, written[last+1:], "C21.temp.next-block")
	w.open()
	verifC21CheckVisible(w, written2, written[last+1:], "C21.temp.next-block-reopened")
	verifrt.Reach("C21.temp.next-block-checked")
}

// VerifC21PermanentMerge: blocks 0 (in the permanent database), 1 and 2 (temps) are committed;
// crash at every write of the Center's merge of block 1 into the permanent database.
func VerifC21PermanentMerge() {
	sh := verifC21Shape{}
	if verifrt.NondetChoice("large", 1+verifrt.Bound("large", 1, 1)) == 1 {
		sh.nkeys = verifrt.Bound("largekeys-perm", 112, 112) // 3 keys per state, +1 block map, +1 merged marker: 338 keys, more than one batch (333) of the permanent merge (more states exceed the engine's step budget per path)
	} else {
		sh.nkeys = 2
	}
	sh.suffrage = verifrt.NondetChoice("suffrage-change", 2) == 1
	// here the large block is block 1 (the one merged into the permanent database)
	setup := func() (*verifDBWorld, []*verifDBBlock) {
		w := verifDBNewWorld(sh.cache)
		b0 := verifDBNewBlock(0, 0, 0, true, []byte{'a'})
		sufh := -1
		if sh.suffrage {
			sufh = 1
		}
		b1 := verifDBNewBlock(1, 1, sufh, sh.suffrage, verifC21Keys(sh.nkeys, 'a'))
		b2 := verifDBNewBlock(2, 2, -1, false, []byte{'b'})
		verifrt.Assert(w.writeBlock(b0, false) == nil, "C21.harness.genesis-committed")
		verifrt.Assert(w.writeBlock(b1, false) == nil, "C21.harness.block-1-committed")
		merged, err := w.center.mergePermanent(context.Background())
		verifrt.Assert(err == nil && merged, "C21.harness.genesis-merged-into-permanent")
		verifrt.Assert(w.writeBlock(b2, false) == nil, "C21.harness.block-2-committed")
		return w, []*verifDBBlock{b0, b1, b2}
	}

	w0, _ := setup()
	before := verifrt.StorageWrites()
	merged, err := w0.center.mergePermanent(context.Background())
	verifrt.Assert(err == nil && merged, "C21.harness.block-1-merged-into-permanent-without-crash")
	after := verifrt.StorageWrites()
	nw := after - before
	if before == 0 && after == 0 {
		nw = 0
	}
	if sh.nkeys > 111 {
		verifrt.Assert(nw == 0 || nw >= 2, "C21.harness.large-block-needs-more-than-one-batch")
	}

	n := verifrt.NondetChoice("crash-at-write", nw+1)
	verifrt.StorageCrashAfter(before + n)
	w, chain := setup()
	_, _ = w.center.mergePermanent(context.Background())
	last := verifC21ReopenAndCheck(w, chain, 0, "C21.perm")
	if last == 2 {
		verifrt.Reach("C21.perm.all-blocks-visible-after-reopen")
	}
	if n > 0 && n < nw {
		verifrt.Reach("C21.perm.crash-between-two-batches")
	}
	// startup goes on with MergeAllPermanent (launch/p_storage.go), then reads again
	verifrt.Assert(w.center.MergeAllPermanent() == nil, "C21.perm.merge-all-permanent-at-startup-succeeds")
	verifC21CheckVisible(w, chain[:last+1], chain[last+1:], "C21.perm.after-startup-merge")
	verifrt.Reach("C21.perm.checked")
}
