package util

import (
	"sync"

	"github.com/spikeekips/mitum/util/verifrt"
)

// C32 Concurrent maps and locked values behave like a sequential map.
//
// Two goroutines run one or two operations each on a SingleLockedMap / ShardedMap /
// Locked value under every schedule within the preemption bound. The results of all
// operations and the final contents must be those of SOME sequential order of the same
// operations (per-goroutine order kept) on a plain sequential map (the model below);
// afterwards Len() must equal the number of keys.

type verifC32Op struct {
	kind int
	key  int
	id   int // value written by this op
}

type verifC32Res struct {
	b1, b2 bool
	v      int
	err    bool
}

var verifC32Keys = []string{"ka", "kb", "kc"}

const (
	verifC32SetValue = iota
	verifC32RemoveValue
	verifC32Value
	verifC32GetOrCreate
	verifC32SetOrRemove
	verifC32Set
	verifC32Remove
	verifC32Empty
	verifC32Close
	verifC32NKinds
)

// the real operation
func verifC32Do(m LockedMap[string, int], op verifC32Op) (r verifC32Res) {
	k := verifC32Keys[op.key]
	switch op.kind {
	case verifC32SetValue:
		r.b1 = m.SetValue(k, op.id)
	case verifC32RemoveValue:
		r.b1 = m.RemoveValue(k)
	case verifC32Value:
		r.v, r.b1 = m.Value(k)
	case verifC32GetOrCreate:
		err := m.GetOrCreate(k, func(v int, created bool) error {
			r.v, r.b1 = v, created
			return nil
		}, func() (int, error) { return op.id, nil })
		r.err = err != nil
	case verifC32SetOrRemove: // toggles: removes when found, sets otherwise
		_, created, removed, err := m.SetOrRemove(k, func(_ int, found bool) (int, bool, error) {
			return op.id, found, nil
		})
		r.b1, r.b2, r.err = created, removed, err != nil
	case verifC32Set:
		v, created, err := m.Set(k, func(_ int, _ bool) (int, error) { return op.id, nil })
		r.v, r.b1, r.err = v, created, err != nil
	case verifC32Remove:
		removed, err := m.Remove(k, func(int, bool) error { return nil })
		r.b1, r.err = removed, err != nil
	case verifC32Empty:
		m.Empty()
	case verifC32Close:
		m.Close()
	}
	return r
}

// the sequential model
type verifC32Model struct {
	has    [3]bool
	val    [3]int
	closed bool
}

func (s *verifC32Model) do(op verifC32Op, sharded bool) (r verifC32Res) {
	k := op.key
	if s.closed {
		// a closed map refuses every operation: reads find nothing, writes do nothing. Whether the
		// refusal is reported as an error or as "nothing done" is not part of the sequential-map
		// reading (an inner shard closed under a running operation answers without the error), so
		// the error flag of operations linearized after Close is not compared (see same()).
		return r
	}
	switch op.kind {
	case verifC32SetValue:
		r.b1 = !s.has[k]
		s.has[k], s.val[k] = true, op.id
	case verifC32RemoveValue, verifC32Remove:
		r.b1 = s.has[k]
		s.has[k], s.val[k] = false, 0
	case verifC32Value:
		r.v, r.b1 = s.val[k], s.has[k]
	case verifC32GetOrCreate:
		if s.has[k] {
			r.v, r.b1 = s.val[k], false
		} else {
			s.has[k], s.val[k] = true, op.id
			r.v, r.b1 = op.id, true
		}
	case verifC32SetOrRemove:
		if s.has[k] {
			s.has[k], s.val[k] = false, 0
			r.b2 = true
		} else {
			s.has[k], s.val[k] = true, op.id
			r.b1 = true
		}
	case verifC32Set:
		r.b1 = !s.has[k]
		s.has[k], s.val[k] = true, op.id
		r.v = op.id
	case verifC32Empty:
		s.has, s.val = [3]bool{}, [3]int{}
	case verifC32Close:
		s.has, s.val = [3]bool{}, [3]int{}
		s.closed = true
	}
	return r
}

// same compares a real result with the model's; closedBefore: the model was closed when the op ran.
func verifC32Same(real, model verifC32Res, closedBefore bool) bool {
	if closedBefore {
		real.err = false
	}
	return real == model
}

func verifC32NondetOp(id, nkeys int, withClose bool) verifC32Op {
	n := verifC32NKinds
	if !withClose {
		n = verifC32Close
	}
	return verifC32Op{kind: verifrt.NondetChoice("op", n), key: verifrt.NondetChoice("key", nkeys), id: id}
}

// verifC32Check: results + final state equal those of some interleaving of a (goroutine 1) and b (goroutine 2).
func verifC32Check(m LockedMap[string, int], sharded bool, init []verifC32Op, a, b []verifC32Op, ra, rb []verifC32Res, nkeys int, label string) {
	// final observations
	var fhas [3]bool
	var fval [3]int
	n := 0
	for k := 0; k < nkeys; k++ {
		fval[k], fhas[k] = m.Value(verifC32Keys[k])
		if fhas[k] {
			n++
		}
	}
	flen := m.Len()
	linearizable := false
	// enumerate interleavings by the positions of a's ops: choose(len(a)+len(b), len(a)) of them (at most 6)
	total := len(a) + len(b)
	for mask := 0; mask < 1<<total; mask++ {
		cnt := 0
		for i := 0; i < total; i++ {
			if mask&(1<<i) != 0 {
				cnt++
			}
		}
		if cnt != len(a) {
			continue
		}
		var s verifC32Model
		for _, op := range init {
			s.do(op, sharded)
		}
		ok := true
		ia, ib := 0, 0
		for i := 0; i < total && ok; i++ {
			closedBefore := s.closed
			if mask&(1<<i) != 0 {
				ok = verifC32Same(ra[ia], s.do(a[ia], sharded), closedBefore)
				ia++
			} else {
				ok = verifC32Same(rb[ib], s.do(b[ib], sharded), closedBefore)
				ib++
			}
		}
		if ok {
			for k := 0; k < nkeys; k++ {
				if s.has[k] != fhas[k] || (s.has[k] && s.val[k] != fval[k]) {
					ok = false
				}
			}
		}
		if ok {
			linearizable = true
		}
	}
	verifrt.Assert(linearizable, label+".history-is-linearizable-to-a-sequential-map")
	verifrt.Assert(flen == n, label+".after-the-operations-finish-len-equals-number-of-keys")
}

func verifC32Run(m LockedMap[string, int], sharded bool, nkeys, opsPer int, label string) {
	// an arbitrary starting content through the same API (sequentially)
	var init []verifC32Op
	for k := 0; k < nkeys; k++ {
		if verifrt.NondetChoice("preset", 2) == 1 {
			op := verifC32Op{kind: verifC32SetValue, key: k, id: 10 + k}
			init = append(init, op)
			verifC32Do(m, op)
		}
	}
	a := make([]verifC32Op, opsPer)
	b := make([]verifC32Op, opsPer)
	for i := range a {
		a[i] = verifC32NondetOp(100+i, nkeys, true)
		b[i] = verifC32NondetOp(200+i, nkeys, true)
	}
	ra := make([]verifC32Res, opsPer)
	rb := make([]verifC32Res, opsPer)
	var wg sync.WaitGroup
	wg.Add(2)
	go func() {
		defer wg.Done()
		for i := range a {
			ra[i] = verifC32Do(m, a[i])
		}
	}()
	go func() {
		defer wg.Done()
		for i := range b {
			rb[i] = verifC32Do(m, b[i])
		}
	}()
	wg.Wait()
	verifrt.Reach(label + ".joined")
	verifC32Check(m, sharded, init, a, b, ra, rb, nkeys, label)
}

// VerifC32Single: SingleLockedMap.
func VerifC32Single() {
	verifC32Run(NewSingleLockedMap[string, int](), false, 2, verifrt.Bound("singleops", 1, 1), "C32.single")
}

// VerifC32Sharded: ShardedMap with 2 shards (3 keys so that shards are shared and distinct).
func VerifC32Sharded() {
	m, err := NewShardedMap[string, int](2, nil)
	verifrt.Assert(err == nil, "C32.harness.sharded-map-constructs")
	verifC32Run(m, true, verifrt.Bound("shardkeys", 2, 3), verifrt.Bound("shardops", 1, 1), "C32.sharded")
}

// VerifC32Locked: Locked[int] value: SetValue / EmptyValue / Value / GetOrCreate / Set / Empty from two goroutines.
func VerifC32Locked() {
	l := EmptyLocked[int]()
	presetHas, presetVal := false, 0
	if verifrt.NondetChoice("preset", 2) == 1 {
		l = NewLocked(7)
		presetHas, presetVal = true, 7
	}
	type res struct {
		v     int
		empty bool
	}
	do := func(kind, id int) (r res) {
		switch kind {
		case 0:
			l.SetValue(id)
		case 1:
			l.EmptyValue()
		case 2:
			r.v, r.empty = l.Value()
		case 3:
			_ = l.GetOrCreate(func(v int, created bool) error { r.v, r.empty = v, created; return nil }, func() (int, error) { return id, nil })
		case 4:
			r.v, _ = l.Set(func(old int, isempty bool) (int, error) { return id, nil })
		case 5:
			_ = l.Empty(func(int, bool) error { return nil })
		}
		return r
	}
	model := func(has *bool, val *int, kind, id int) (r res) {
		switch kind {
		case 0, 4:
			*has, *val = true, id
			if kind == 4 {
				r.v = id
			}
		case 1, 5:
			*has, *val = false, 0
		case 2:
			if *has {
				r.v = *val
			} else {
				r.empty = true
			}
		case 3:
			if *has {
				r.v = *val
			} else {
				*has, *val = true, id
				r.v, r.empty = id, true
			}
		}
		return r
	}
	ka, kb := verifrt.NondetChoice("opa", 6), verifrt.NondetChoice("opb", 6)
	var ra, rb res
	var wg sync.WaitGroup
	wg.Add(2)
	go func() { defer wg.Done(); ra = do(ka, 100) }()
	go func() { defer wg.Done(); rb = do(kb, 200) }()
	wg.Wait()
	verifrt.Reach("C32.locked.joined")
	fv, fempty := l.Value()
	ok := false
	for order := 0; order < 2; order++ {
		has, val := presetHas, presetVal
		var xa, xb res
		if order == 0 {
			xa = model(&has, &val, ka, 100)
			xb = model(&has, &val, kb, 200)
		} else {
			xb = model(&has, &val, kb, 200)
			xa = model(&has, &val, ka, 100)
		}
		if xa == ra && xb == rb && has == !fempty && (!has || val == fv) {
			ok = true
		}
	}
	verifrt.Assert(ok, "C32.locked.history-is-linearizable-to-a-sequential-value")
}
