package isaacstates

import (
	"github.com/spikeekips/mitum/base"
	"github.com/spikeekips/mitum/isaac"
	"github.com/spikeekips/mitum/util/verifrt"
)

func verifC06bPos(pfx string) (isaac.LastPoint, int64, uint64, int, bool, bool) {
	h := int64(verifrt.NondetInt(pfx + ".height"))
	r := verifrt.NondetU64(pfx + ".round")
	stage := base.StageINIT
	sn := 1
	if verifrt.NondetChoice(pfx+".stage", 2) == 1 {
		stage = base.StageACCEPT
		sn = 3
	}
	maj := verifrt.NondetBool(pfx + ".majority")
	sc := verifrt.NondetBool(pfx + ".sc")
	verifrt.Assume(h >= 0)
	if sn != 1 {
		verifrt.Assume(!sc)
	}
	l, err := isaac.NewLastPoint(base.NewStagePoint(base.RawPoint(h, r), stage), maj, sc)
	verifrt.Assert(err == nil, "C06.harness.valid-position-constructs")
	return l, h, r, sn, maj, sc
}

// VerifC06SetLastPoint: the ballotbox position after SetLastPoint, from an
// arbitrary current position (installed through the same API on an empty box).
func VerifC06SetLastPoint() {
	box := NewBallotbox(base.NewStringAddress("local"), func() base.Threshold { return base.Threshold(67) }, nil)
	l, lh, lr, ls, lmaj, lsc := verifC06bPos("last")
	verifrt.Assert(box.SetLastPoint(l), "C06.setlastpoint.first-position-accepted")
	o, oh, or, os, _, osc := verifC06bPos("offered")
	acc := box.SetLastPoint(o)
	verifrt.Reach("C06.setlastpoint.decided")
	now := box.LastPoint()
	if acc {
		verifrt.Assert(now == o, "C06.setlastpoint.accepted-position-is-the-offered-one")
		verifrt.Assert(oh >= lh, "C06.setlastpoint.never-lower-height")
		earlier := oh == lh && (or < lr || (or == lr && os < ls))
		if earlier {
			verifrt.Assert(osc && !lmaj, "C06.setlastpoint.earlier-only-for-suffrage-confirm-while-not-majority")
		}
		verifrt.Assert(!(oh == lh && or == lr && os == ls && osc == lsc), "C06.setlastpoint.same-position-never-taken-twice")
	} else {
		verifrt.Assert(now == l, "C06.setlastpoint.rejected-leaves-position-unchanged")
	}
	if oh < lh {
		verifrt.Assert(!acc, "C06.setlastpoint.lower-height-rejected")
	}
}

// verifC06Emit: a real voteproof for point p produced by a fresh ballotbox from the votes of the
// first `votes0` nodes for fact 0 and the next `votes1` nodes for fact 1.
func verifC06Emit(p verifBBPoint, votes0, votes1 int) base.Voteproof {
	w := verifBBNewWorld(4, base.Threshold(60))
	node := 0
	for i := 0; i < votes0; i++ {
		_, deferred, _ := w.box.vote(w.signFact(node, p, 0), nil, nil)
		if deferred != nil {
			deferred()
		}
		node++
	}
	for i := 0; i < votes1; i++ {
		_, deferred, _ := w.box.vote(w.signFact(node, p, 1), nil, nil)
		if deferred != nil {
			deferred()
		}
		node++
	}
	vps := w.drain()
	if len(vps) == 0 {
		return nil
	}
	return vps[len(vps)-1]
}

// VerifC06BallotboxDetour: the position of a ballotbox whose current position is a draw (not a
// majority) while suffrage-confirm ballots of an EARLIER round (or lower height) arrive, some of
// them carrying old voteproofs: after every step the position obeys the same rules: never a lower
// height; an earlier round or stage only by taking a suffrage-confirm result.
func VerifC06BallotboxDetour() {
	w := verifBBNewWorld(4, base.Threshold(60))
	cur := verifBBPoint{h: 33, r: 1, stage: base.StageINIT}
	// the current position: a draw at 33/1 INIT (2 votes each for two facts)
	for node := 0; node < 4; node++ {
		_, deferred, _ := w.box.vote(w.signFact(node, cur, node/2), nil, nil)
		if deferred != nil {
			deferred()
		}
	}
	_ = w.drain()
	last := w.box.LastPoint()
	verifrt.Assert(!last.IsZero() && last.Height() == 33 && last.Round() == 1 && !last.IsMajority(), "C06.harness.position-is-a-draw-at-33/1")
	// what the suffrage-confirm ballots carry
	var carried base.Voteproof
	switch verifrt.NondetChoice("carried-voteproof", 4) {
	case 1:
		carried = verifC06Emit(verifBBPoint{h: 33, r: 0, stage: base.StageINIT}, 3, 0) // old majority of the earlier round
	case 2:
		carried = verifC06Emit(verifBBPoint{h: 32, r: 0, stage: base.StageACCEPT}, 3, 0) // majority of the lower height
	case 3:
		carried = verifC06Emit(verifBBPoint{h: 33, r: 0, stage: base.StageINIT}, 2, 2) // old draw of the earlier round
	}
	scp := []verifBBPoint{{h: 33, r: 0, stage: base.StageINIT, sc: true}, {h: 32, r: 0, stage: base.StageINIT, sc: true}}[verifrt.NondetChoice("suffrage-confirm-point", 2)]
	nvotes := 1 + verifrt.NondetChoice("suffrage-confirm-votes", 3)
	for node := 0; node < nvotes; node++ {
		before := w.box.LastPoint()
		_, deferred, err := w.box.vote(w.signFact(node, scp, 0), carried, nil)
		verifrt.Assert(err == nil, "C06.harness.vote")
		if deferred != nil {
			deferred()
		}
		_ = w.drain()
		after := w.box.LastPoint()
		verifrt.Reach("C06.detour.step")
		if after != before {
			verifrt.Reach("C06.detour.position-moved")
			verifrt.Assert(after.Height() >= before.Height(), "C06.ballotbox.position-never-moves-to-a-lower-height")
			earlier := after.Height() == before.Height() && (after.Round() < before.Round() ||
				(after.Round() == before.Round() && after.Stage().Compare(before.Stage()) < 0))
			if earlier {
				verifrt.Assert(after.IsSuffrageConfirm() && !before.IsMajority(),
					"C06.ballotbox.earlier-round-or-stage-only-to-take-a-suffrage-confirm-result-while-not-majority")
			}
		}
	}
}
