package isaacstates

import (
	"github.com/spikeekips/mitum/base"
	"github.com/spikeekips/mitum/isaac"
	"github.com/spikeekips/mitum/util/verifrt"
)

func verifC06bPos(pfx string) (isaac.LastPoint, int64, uint64, int, bool, bool) {
	h := int64(verifrt.NondetInt(pfx + ".height"))
	r := verifrt.NondetU64(pfx + ".round")
	stage := base.StageINIT
	sn := 1
	if verifrt.NondetChoice(pfx+".stage", 2) == 1 {
		stage = base.StageACCEPT
		sn = 3
	}
	maj := verifrt.NondetBool(pfx + ".majority")
	sc := verifrt.NondetBool(pfx + ".sc")
	verifrt.Assume(h >= 0)
	if sn != 1 {
		verifrt.Assume(!sc)
	}
	l, err := isaac.NewLastPoint(base.NewStagePoint(base.RawPoint(h, r), stage), maj, sc)
	verifrt.Assert(err == nil, "C06.harness.valid-position-constructs")
	return l, h, r, sn, maj, sc
}

// VerifC06SetLastPoint: the ballotbox position after SetLastPoint, from an
// arbitrary current position (installed through the same API on an empty box).
func VerifC06SetLastPoint() {
	box := NewBallotbox(base.NewStringAddress("local"), func() base.Threshold { return base.Threshold(67) }, nil)
	l, lh, lr, ls, lmaj, lsc := verifC06bPos("last")
	verifrt.Assert(box.SetLastPoint(l), "C06.setlastpoint.first-position-accepted")
	o, oh, or, os, _, osc := verifC06bPos("offered")
	acc := box.SetLastPoint(o)
	verifrt.Reach("C06.setlastpoint.decided")
	now := box.LastPoint()
	if acc {
		verifrt.Assert(now == o, "C06.setlastpoint.accepted-position-is-the-offered-one")
		verifrt.Assert(oh >= lh, "C06.setlastpoint.never-lower-height")
		earlier := oh == lh && (or < lr || (or == lr && os < ls))
		if earlier {
			verifrt.Assert(osc && !lmaj, "C06.setlastpoint.earlier-only-for-suffrage-confirm-while-not-majority")
		}
		verifrt.Assert(!(oh == lh && or == lr && os == ls && osc == lsc), "C06.setlastpoint.same-position-never-taken-twice")
	} else {
		verifrt.Assert(now == l, "C06.setlastpoint.rejected-leaves-position-unchanged")
	}
	if oh < lh {
		verifrt.Assert(!acc, "C06.setlastpoint.lower-height-rejected")
	}
}
