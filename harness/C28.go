package isaac

import (
	"bytes"
	"time"

	"github.com/spikeekips/mitum/base"
	"github.com/spikeekips/mitum/util"
	"github.com/spikeekips/mitum/util/hint"
	"github.com/spikeekips/mitum/util/valuehash"
	"github.com/spikeekips/mitum/util/verifrt"
)

// C28 Signed objects detect any change to signed content.
//
// Code under test (all real): base.BaseSign / BaseNodeSign (IsValid, Verify), base.BaseFact,
// base.IsValidSignFact and the ballot / proposal validators of package base, the six ballot fact
// kinds of package isaac with their IsValid (hash recomputation), INIT/ACCEPT ballot sign facts,
// ProposalFact / ProposalSignFact, isaac.Manifest (through the block map entry in C28_block.go).
//
// Method: an honest object is made by the real constructors and signed by the real signing code
// (NodeSign / Sign) with a harness key. Then the object is rebuilt field by field the way the JSON
// decoders fill it (every decoded field is a field of the rebuilt value), with exactly ONE field
// replaced by another value (symbolic wherever the engine allows, so "any other value"), or it is
// verified under another network id. The property demands that IsValid(networkID) then fails.
//
// Model: keys/signatures are an ideal scheme: sign(k, msg) = k.id || msg, which verifies exactly
// under key k for exactly msg (unforgeable, message binding). sha3 is injective (engine).
// Everything that is a property of secp256k1 / SHA-3 themselves is outside the claim.

// ---- keys ------------------------------------------------------------------

type VerifC28Key struct{ ID uint8 }

func (VerifC28Key) String() string       { return "verifkey" }
func (k VerifC28Key) Bytes() []byte      { return []byte{'k', k.ID} }
func (VerifC28Key) IsValid([]byte) error { return nil }
func (k VerifC28Key) Equal(o base.PKKey) bool {
	ok, is := o.(VerifC28Key)
	return is && ok.ID == k.ID
}
func (k VerifC28Key) Publickey() base.Publickey { return k }
func (k VerifC28Key) Sign(b []byte) (base.Signature, error) {
	return base.Signature(append([]byte{k.ID}, b...)), nil
}
func (k VerifC28Key) Verify(b []byte, sig base.Signature) error {
	if len(sig) != len(b)+1 || sig[0] != k.ID || !bytes.Equal(sig[1:], b) {
		return base.ErrSignatureVerification.Errorf("verifkey")
	}
	return nil
}

// ---- symbolic values ---------------------------------------------------------

// VerifC28Bytes: 1..max symbolic bytes.
func VerifC28Bytes(name string, max int) []byte {
	l := 1
	if max > 1 {
		l = 1 + verifrt.NondetChoice(name+".len", max)
	}
	return verifrt.NondetBytes(name, l)
}

func verifC28HB() int { return verifrt.Bound("hashbytes", 2, 4) }

// VerifC28Hash: a hash as the JSON decoders produce it: valuehash.Bytes of any length (here 1..HB).
func VerifC28Hash(name string) util.Hash {
	return valuehash.NewBytes(VerifC28Bytes(name, verifC28HB()))
}

// VerifC28HonestHash: a hash field of the honest object: 2 symbolic bytes.
func VerifC28HonestHash(name string) util.Hash {
	return valuehash.NewBytes(verifrt.NondetBytes(name, 2))
}

func verifC28Hash32(name string) util.Hash {
	return valuehash.NewBytes(verifrt.NondetBytes(name, 32))
}

func VerifC28NetworkID(name string) base.NetworkID {
	return base.NetworkID(VerifC28Bytes(name, verifrt.Bound("netidbytes", 2, 3)))
}

func VerifC28HonestNetworkID(name string) base.NetworkID {
	return base.NetworkID(verifrt.NondetBytes(name, 2))
}

var verifC28Addresses = []string{"n0a", "n0b", "n0aa", "xn0a"}

func VerifC28Address(i int) base.Address { return base.NewStringAddress(verifC28Addresses[i]) }

// VerifC28OtherTime: another signing time as a decoded object can carry it (times are decoded to
// millisecond precision).
func VerifC28OtherTime(t time.Time, name string) time.Time {
	ds := []time.Duration{time.Millisecond, -time.Millisecond, time.Second, time.Hour, 24 * 365 * time.Hour}
	return t.Add(ds[verifrt.NondetChoice(name, verifrt.Bound("othertimes", 2, len(ds)))])
}

func verifC28Point(name string) base.Point {
	h := base.Height(verifrt.NondetInt(name + ".height"))
	verifrt.Assume(h > base.GenesisHeight)
	return base.NewPoint(h, base.Round(verifrt.NondetU64(name+".round")))
}

func verifC28SameHashes(a, b []util.Hash) bool {
	if len(a) != len(b) {
		return false
	}
	for i := range a {
		if !a[i].Equal(b[i]) {
			return false
		}
	}
	return true
}

// ---- ballot facts at the decoded level -----------------------------------------

const (
	verifC28INIT = iota
	verifC28SuffrageConfirm
	verifC28EmptyProposal
	verifC28ACCEPT
	verifC28EmptyOperations
	verifC28NotProcessed
	verifC28Kinds
)

var verifC28KindNames = []string{"init", "suffrage-confirm", "empty-proposal-init", "accept", "empty-operations-accept", "not-processed-accept"}

func verifC28KindHint(kind int) hint.Hint {
	return []hint.Hint{INITBallotFactHint, SuffrageConfirmBallotFactHint, EmptyProposalINITBallotFactHint,
		ACCEPTBallotFactHint, EmptyOperationsACCEPTBallotFactHint, NotProcessedACCEPTBallotFactHint}[kind]
}

func verifC28IsINITFamily(kind int) bool { return kind < verifC28ACCEPT }

// verifC28Ballot: the decoded fields of a ballot fact (what the DecodeJSON methods assign).
type verifC28Ballot struct {
	kind   int       // "_hint": selects the Go type
	h      util.Hash // "hash"
	token  base.Token
	point  base.StagePoint
	h1, h2 util.Hash // previous_block, proposal | proposal, new_block
	expels []util.Hash
	r      string
}

func (s verifC28Ballot) fact() base.BallotFact {
	bb := baseBallotFact{BaseFact: base.NewBaseFact(verifC28KindHint(s.kind), s.token), point: s.point, expelfacts: s.expels}
	bb.SetHash(s.h)
	switch s.kind {
	case verifC28INIT:
		return INITBallotFact{previousBlock: s.h1, proposal: s.h2, baseBallotFact: bb}
	case verifC28SuffrageConfirm:
		return SuffrageConfirmBallotFact{INITBallotFact: INITBallotFact{previousBlock: s.h1, proposal: s.h2, baseBallotFact: bb}}
	case verifC28EmptyProposal:
		return EmptyProposalINITBallotFact{r: s.r, INITBallotFact: INITBallotFact{previousBlock: s.h1, proposal: s.h2, baseBallotFact: bb}}
	case verifC28ACCEPT:
		return ACCEPTBallotFact{proposal: s.h1, newBlock: s.h2, baseBallotFact: bb}
	case verifC28EmptyOperations:
		return EmptyOperationsACCEPTBallotFact{ACCEPTBallotFact: ACCEPTBallotFact{proposal: s.h1, newBlock: s.h2, baseBallotFact: bb}}
	default:
		return NotProcessedACCEPTBallotFact{ACCEPTBallotFact: ACCEPTBallotFact{proposal: s.h1, newBlock: s.h2, baseBallotFact: bb}}
	}
}

// verifC28Expels: any list of 0..2 (thorough 0..3) expel fact hashes (each 1..HB bytes).
func verifC28Expels(name string, min int) []util.Hash {
	n := min + verifrt.NondetChoice(name+".count", verifrt.Bound("expels", 2, 3)+1-min)
	hs := make([]util.Hash, n)
	for i := range hs {
		hs[i] = VerifC28Hash(name)
	}
	return hs
}

// verifC28HonestExpels: the expel facts of the honest fact: one hash of 2 bytes (thorough: min..2
// distinct hashes of 2 bytes).
func verifC28HonestExpels(name string, min int) []util.Hash {
	n := 1
	if verifrt.Bound("honest.lists", 0, 1) == 1 {
		n = min + verifrt.NondetChoice(name+".count", 3-min)
	}
	hs := make([]util.Hash, n)
	for i := range hs {
		hs[i] = VerifC28HonestHash(name)
	}
	if n == 2 {
		verifrt.Assume(!hs[0].Equal(hs[1]))
	}
	return hs
}

// verifC28HonestBallot: a fact of the kind made by the real public constructor (for the two ACCEPT
// variants whose constructor draws a random new block: the same unexported constructor call with
// any 32 byte value in its place), read back into its decoded fields.
func verifC28HonestBallot(kind int) verifC28Ballot {
	point := verifC28Point("point")
	s := verifC28Ballot{kind: kind}
	switch kind {
	case verifC28INIT:
		f := NewINITBallotFact(point, VerifC28HonestHash("previous"), VerifC28HonestHash("proposal"), verifC28HonestExpels("expels", 0))
		s.h, s.token, s.point, s.h1, s.h2, s.expels = f.Hash(), f.Token(), f.Point(), f.previousBlock, f.proposal, f.expelfacts
	case verifC28SuffrageConfirm:
		f := NewSuffrageConfirmBallotFact(point, VerifC28HonestHash("previous"), VerifC28HonestHash("proposal"), verifC28HonestExpels("expels", 1))
		s.h, s.token, s.point, s.h1, s.h2, s.expels = f.Hash(), f.Token(), f.Point(), f.previousBlock, f.proposal, f.expelfacts
	case verifC28EmptyProposal:
		f := NewEmptyProposalINITBallotFact(point, VerifC28HonestHash("previous"), VerifC28HonestHash("proposal"))
		s.h, s.token, s.point, s.h1, s.h2, s.r = f.Hash(), f.Token(), f.Point(), f.previousBlock, f.proposal, f.r
	case verifC28ACCEPT:
		f := NewACCEPTBallotFact(point, VerifC28HonestHash("proposal"), VerifC28HonestHash("newblock"), verifC28HonestExpels("expels", 0))
		s.h, s.token, s.point, s.h1, s.h2, s.expels = f.Hash(), f.Token(), f.Point(), f.proposal, f.newBlock, f.expelfacts
	case verifC28EmptyOperations:
		f := newACCEPTBallotFact(EmptyOperationsACCEPTBallotFactHint, point, VerifC28HonestHash("proposal"), verifC28Hash32("random"), nil)
		s.h, s.token, s.point, s.h1, s.h2 = f.Hash(), f.Token(), f.Point(), f.proposal, f.newBlock
	default:
		f := newACCEPTBallotFact(NotProcessedACCEPTBallotFactHint, point, VerifC28HonestHash("proposal"), verifC28Hash32("random"), nil)
		s.h, s.token, s.point, s.h1, s.h2 = f.Hash(), f.Token(), f.Point(), f.proposal, f.newBlock
	}
	return s
}

// ---- signs at the decoded level ------------------------------------------------

type verifC28Sign struct {
	node      base.Address // nil: a BaseSign
	signer    base.Publickey
	signature base.Signature
	signedAt  time.Time
}

func (s verifC28Sign) nodeSign() base.BaseNodeSign {
	return base.NewBaseNodeSign(s.node, s.signer, s.signature, s.signedAt)
}

func (s verifC28Sign) sign() base.BaseSign {
	return base.NewBaseSign(s.signer, s.signature, s.signedAt)
}

const (
	verifC28MutNode = iota
	verifC28MutSigner
	verifC28MutSignature
	verifC28MutSignedAt
	verifC28SignMuts
)

var verifC28SignMutNames = []string{"node", "signer", "signature", "signing-time"}

func verifC28MutateSign(s verifC28Sign, which int) verifC28Sign {
	switch which {
	case verifC28MutNode:
		s.node = VerifC28Address(1 + verifrt.NondetChoice("other.node", verifrt.Bound("othernodes", 2, len(verifC28Addresses)-1)))
	case verifC28MutSigner:
		k := VerifC28Key{ID: verifrt.NondetU8("other.signer")}
		verifrt.Assume(!k.Equal(s.signer))
		s.signer = k
	case verifC28MutSignature:
		l := len(s.signature)
		switch verifrt.NondetChoice("other.signature.len", verifrt.Bound("signaturelens", 1, 3)) {
		case 1:
			l--
		case 2:
			l++
		}
		sig := base.Signature(verifrt.NondetBytes("other.signature", l))
		verifrt.Assume(!sig.Equal(s.signature))
		s.signature = sig
	default:
		s.signedAt = VerifC28OtherTime(s.signedAt, "other.signedat")
	}
	return s
}

// ---- ballot sign facts -----------------------------------------------------------

func verifC28BallotSignFact(f base.BallotFact, s verifC28Sign) base.BallotSignFact {
	if _, ok := f.(base.INITBallotFact); ok {
		return INITBallotSignFact{baseBallotSignFact: baseBallotSignFact{
			BaseHinter: hint.NewBaseHinter(INITBallotSignFactHint), fact: f, sign: s.nodeSign()}}
	}
	return ACCEPTBallotSignFact{baseBallotSignFact: baseBallotSignFact{
		BaseHinter: hint.NewBaseHinter(ACCEPTBallotSignFactHint), fact: f, sign: s.nodeSign()}}
}

// verifC28HonestBallotSign: the real signing code over the honest fact.
func verifC28HonestBallotSign(f base.BallotFact, networkID base.NetworkID) verifC28Sign {
	key := VerifC28Key{ID: 7}
	sf := newBaseBallotSignFact(INITBallotSignFactHint, f)
	verifrt.Assert(sf.NodeSign(key, networkID, VerifC28Address(0)) == nil, "C28.harness.sign")
	return verifC28Sign{node: sf.sign.Node(), signer: sf.sign.Signer(), signature: sf.sign.Signature(), signedAt: sf.sign.SignedAt()}
}

const (
	verifC28MutHeight = iota
	verifC28MutRound
	verifC28MutStage
	verifC28MutToken
	verifC28MutH1
	verifC28MutH2
	verifC28MutExpels
	verifC28MutR
	verifC28MutHash
	verifC28MutKind
	verifC28FactMuts
)

var verifC28FactMutNames = []string{"point-height", "point-round", "point-stage", "token", "first-hash-field", "second-hash-field",
	"expel-facts", "r", "fact-hash", "kind-of-fact"}

// verifC28MutateBallot: one decoded field gets another value. ok=false: the kind has no such field.
func verifC28MutateBallot(s verifC28Ballot, which int) (verifC28Ballot, bool) {
	switch which {
	case verifC28MutHeight:
		h := base.Height(verifrt.NondetInt("other.height"))
		verifrt.Assume(h != s.point.Height())
		s.point = base.NewStagePoint(base.NewPoint(h, s.point.Round()), s.point.Stage())
	case verifC28MutRound:
		r := base.Round(verifrt.NondetU64("other.round"))
		verifrt.Assume(r != s.point.Round())
		s.point = base.NewStagePoint(base.NewPoint(s.point.Height(), r), s.point.Stage())
	case verifC28MutStage:
		if s.point.Stage() == base.StageINIT {
			s.point = s.point.SetStage(base.StageACCEPT)
		} else {
			s.point = s.point.SetStage(base.StageINIT)
		}
	case verifC28MutToken:
		t := base.Token(VerifC28Bytes("other.token", verifrt.Bound("tokenbytes", 2, 3)))
		verifrt.Assume(!bytes.Equal(t, s.token))
		s.token = t
	case verifC28MutH1:
		h := VerifC28Hash("other.h1")
		verifrt.Assume(!h.Equal(s.h1))
		s.h1 = h
	case verifC28MutH2:
		h := VerifC28Hash("other.h2")
		verifrt.Assume(!h.Equal(s.h2))
		s.h2 = h
	case verifC28MutExpels:
		if s.kind == verifC28EmptyProposal || s.kind == verifC28EmptyOperations || s.kind == verifC28NotProcessed {
			return s, false // made without expel facts; adding some is covered by the other kinds
		}
		e := verifC28Expels("other.expels", 0)
		verifrt.Assume(!verifC28SameHashes(e, s.expels))
		s.expels = e
	case verifC28MutR:
		if s.kind != verifC28EmptyProposal {
			return s, false
		}
		r := string(VerifC28Bytes("other.r", 2))
		verifrt.Assume(r != s.r)
		s.r = r
	case verifC28MutHash:
		h := verifC28Hash32("other.hash")
		verifrt.Assume(!h.Equal(s.h))
		s.h = h
	default: // "_hint": another fact kind that decodes the same fields
		var others []int
		for k := 0; k < verifC28Kinds; k++ {
			if k != s.kind && verifC28IsINITFamily(k) == verifC28IsINITFamily(s.kind) {
				others = append(others, k)
			}
		}
		s.kind = others[verifrt.NondetChoice("other.kind", len(others))]
		if s.kind == verifC28EmptyProposal {
			s.r = "r" // the relabelled document also needs an "r" member
		}
	}
	return s, true
}

// VerifC28BallotSignFact: every ballot fact kind, signed; one decoded field of the fact or of the
// sign changed, or verification under another network id => IsValid(networkID) fails.
func VerifC28BallotSignFact() {
	kind := verifrt.NondetChoice("kind", verifC28Kinds)
	networkID := VerifC28HonestNetworkID("networkid")
	honest := verifC28HonestBallot(kind)
	sign := verifC28HonestBallotSign(honest.fact(), networkID)
	verifrt.Assert(verifC28BallotSignFact(honest.fact(), sign).IsValid(networkID) == nil,
		"C28.harness.honest-signed-ballot-fact-rebuilt-from-its-decoded-fields-is-valid")
	verifrt.Reach("C28.ballot.honest-valid." + verifC28KindNames[kind])

	mut := verifrt.NondetChoice("mutation", verifC28FactMuts+verifC28SignMuts+1)
	var what string
	other, osign, onet := honest, sign, networkID
	switch {
	case mut < verifC28FactMuts:
		var ok bool
		if other, ok = verifC28MutateBallot(honest, mut); !ok {
			return
		}
		what = "fact(" + verifC28FactMutNames[mut] + ")"
	case mut < verifC28FactMuts+verifC28SignMuts:
		osign = verifC28MutateSign(sign, mut-verifC28FactMuts)
		what = verifC28SignMutNames[mut-verifC28FactMuts]
	default:
		onet = VerifC28NetworkID("other.networkid")
		verifrt.Assume(!bytes.Equal(onet, networkID))
		what = "network-id"
	}
	err := verifC28BallotSignFact(other.fact(), osign).IsValid(onet)
	verifrt.Reach("C28.ballot.mutated." + what)
	label := "C28.ballot-sign-fact.changing-" + what + "-makes-validation-fail"
	if err == nil && what == "fact(expel-facts)" && !bytes.Equal(verifC28FlatHashes(other.expels), verifC28FlatHashes(honest.expels)) {
		label += "(lists-whose-concatenated-bytes-differ)"
	}
	verifrt.Assert(err != nil, label)
}

// ---- proposal ----------------------------------------------------------------------

type verifC28Proposal struct {
	h          util.Hash
	token      base.Token
	point      base.Point
	proposer   base.Address
	operations [][2]util.Hash
	previous   util.Hash
	proposedAt time.Time
}

func (s verifC28Proposal) fact() ProposalFact {
	f := ProposalFact{BaseFact: base.NewBaseFact(ProposalFactHint, s.token), point: s.point, proposer: s.proposer,
		operations: s.operations, previousBlock: s.previous, proposedAt: s.proposedAt}
	f.SetHash(s.h)
	return f
}

func verifC28Operations(name string) [][2]util.Hash {
	n := verifrt.NondetChoice(name+".count", 3)
	ops := make([][2]util.Hash, n)
	for i := range ops {
		ops[i] = [2]util.Hash{VerifC28Hash(name + ".op"), VerifC28Hash(name + ".fact")}
	}
	return ops
}

// verifC28HonestOperations: one operation of 2+2 bytes (thorough: 0..2 distinct ones).
func verifC28HonestOperations(name string) [][2]util.Hash {
	n := 1
	if verifrt.Bound("honest.lists", 0, 1) == 1 {
		n = verifrt.NondetChoice(name+".count", 3)
	}
	ops := make([][2]util.Hash, n)
	for i := range ops {
		ops[i] = [2]util.Hash{VerifC28HonestHash(name + ".op"), VerifC28HonestHash(name + ".fact")}
	}
	if n == 2 {
		verifrt.Assume(!ops[0][0].Equal(ops[1][0]) && !ops[0][1].Equal(ops[1][1]))
	}
	return ops
}

func verifC28FlatOperations(a [][2]util.Hash) []byte {
	var b []byte
	for i := range a {
		b = append(b, a[i][0].Bytes()...)
		b = append(b, a[i][1].Bytes()...)
	}
	return b
}

func verifC28FlatHashes(a []util.Hash) []byte {
	var b []byte
	for i := range a {
		b = append(b, a[i].Bytes()...)
	}
	return b
}

func verifC28SameOperations(a, b [][2]util.Hash) bool {
	if len(a) != len(b) {
		return false
	}
	for i := range a {
		if !a[i][0].Equal(b[i][0]) || !a[i][1].Equal(b[i][1]) {
			return false
		}
	}
	return true
}

var verifC28ProposalMutNames = []string{"point-height", "point-round", "token", "proposer", "operations", "previous-block", "proposed-at", "fact-hash"}

// VerifC28ProposalSignFact: the same for a signed proposal.
func VerifC28ProposalSignFact() {
	networkID := VerifC28HonestNetworkID("networkid")
	f := NewProposalFact(verifC28Point("point"), VerifC28Address(0), VerifC28HonestHash("previous"), verifC28HonestOperations("operations"))
	honest := verifC28Proposal{h: f.Hash(), token: f.Token(), point: f.point, proposer: f.proposer, operations: f.operations,
		previous: f.previousBlock, proposedAt: f.proposedAt}
	sf := NewProposalSignFact(f)
	verifrt.Assert(sf.Sign(VerifC28Key{ID: 7}, networkID) == nil, "C28.harness.sign")
	sign := verifC28Sign{signer: sf.sign.Signer(), signature: sf.sign.Signature(), signedAt: sf.sign.SignedAt()}
	rebuild := func(p verifC28Proposal, s verifC28Sign) ProposalSignFact {
		return ProposalSignFact{BaseHinter: hint.NewBaseHinter(ProposalSignFactHint), fact: p.fact(), sign: s.sign()}
	}
	verifrt.Assert(rebuild(honest, sign).IsValid(networkID) == nil,
		"C28.harness.honest-signed-proposal-rebuilt-from-its-decoded-fields-is-valid")
	verifrt.Reach("C28.proposal.honest-valid")

	nf := len(verifC28ProposalMutNames)
	mut := verifrt.NondetChoice("mutation", nf+verifC28SignMuts-1+1)
	var what string
	other, osign, onet := honest, sign, networkID
	switch {
	case mut < nf:
		what = "fact(" + verifC28ProposalMutNames[mut] + ")"
		switch mut {
		case 0:
			h := base.Height(verifrt.NondetInt("other.height"))
			verifrt.Assume(h != other.point.Height())
			other.point = base.NewPoint(h, other.point.Round())
		case 1:
			r := base.Round(verifrt.NondetU64("other.round"))
			verifrt.Assume(r != other.point.Round())
			other.point = base.NewPoint(other.point.Height(), r)
		case 2:
			t := base.Token(VerifC28Bytes("other.token", verifrt.Bound("tokenbytes", 2, 3)))
			verifrt.Assume(!bytes.Equal(t, other.token))
			other.token = t
		case 3:
			other.proposer = VerifC28Address(1 + verifrt.NondetChoice("other.proposer", verifrt.Bound("othernodes", 2, len(verifC28Addresses)-1)))
		case 4:
			ops := verifC28Operations("other.operations")
			verifrt.Assume(!verifC28SameOperations(ops, other.operations))
			other.operations = ops
		case 5:
			h := VerifC28Hash("other.previous")
			verifrt.Assume(!h.Equal(other.previous))
			other.previous = h
		case 6:
			other.proposedAt = VerifC28OtherTime(other.proposedAt, "other.proposedat")
		default:
			h := verifC28Hash32("other.hash")
			verifrt.Assume(!h.Equal(other.h))
			other.h = h
		}
	case mut < nf+verifC28SignMuts-1:
		k := 1 + mut - nf // no node in a BaseSign
		osign = verifC28MutateSign(sign, k)
		what = verifC28SignMutNames[k]
	default:
		onet = VerifC28NetworkID("other.networkid")
		verifrt.Assume(!bytes.Equal(onet, networkID))
		what = "network-id"
	}
	err := rebuild(other, osign).IsValid(onet)
	verifrt.Reach("C28.proposal.mutated." + what)
	label := "C28.proposal-sign-fact.changing-" + what + "-makes-validation-fail"
	if err == nil && mut == 4 && !bytes.Equal(verifC28FlatOperations(other.operations), verifC28FlatOperations(honest.operations)) {
		// (the class tells a list with other bytes from a re-split of the same bytes, which is a known finding)
		label += "(lists-whose-concatenated-bytes-differ)"
	}
	verifrt.Assert(err != nil, label)
}

// ---- two facts of different kinds never share a hash --------------------------------

// VerifC28KindsNeverShareHash: two facts of different kinds, each made by its real constructor from
// independent (symbolic) contents; for the two ACCEPT variants whose public constructor draws a random
// new block, the plain ACCEPT fact is made from the variant's own field values.
func VerifC28KindsNeverShareHash() {
	const proposalKind = verifC28Kinds
	mk := func(kind int, pfx string) base.Fact {
		point := verifC28Point(pfx + ".point")
		switch kind {
		case verifC28INIT:
			return NewINITBallotFact(point, VerifC28HonestHash(pfx+".previous"), VerifC28HonestHash(pfx+".proposal"), verifC28HonestExpels(pfx+".expels", 0))
		case verifC28SuffrageConfirm:
			return NewSuffrageConfirmBallotFact(point, VerifC28HonestHash(pfx+".previous"), VerifC28HonestHash(pfx+".proposal"), verifC28HonestExpels(pfx+".expels", 1))
		case verifC28EmptyProposal:
			return NewEmptyProposalINITBallotFact(point, VerifC28HonestHash(pfx+".previous"), VerifC28HonestHash(pfx+".proposal"))
		case verifC28ACCEPT:
			return NewACCEPTBallotFact(point, VerifC28HonestHash(pfx+".proposal"), VerifC28HonestHash(pfx+".newblock"), verifC28HonestExpels(pfx+".expels", 0))
		case verifC28EmptyOperations:
			return EmptyOperationsACCEPTBallotFact{ACCEPTBallotFact: newACCEPTBallotFact(
				EmptyOperationsACCEPTBallotFactHint, point, VerifC28HonestHash(pfx+".proposal"), verifC28Hash32(pfx+".random"), nil)}
		case verifC28NotProcessed:
			return NotProcessedACCEPTBallotFact{ACCEPTBallotFact: newACCEPTBallotFact(
				NotProcessedACCEPTBallotFactHint, point, VerifC28HonestHash(pfx+".proposal"), verifC28Hash32(pfx+".random"), nil)}
		default:
			return NewProposalFact(point, VerifC28Address(0), VerifC28HonestHash(pfx+".previous"), verifC28HonestOperations(pfx+".operations"))
		}
	}
	k1 := verifrt.NondetChoice("kind1", proposalKind+1)
	k2 := k1 + 1 + verifrt.NondetChoice("kind2", proposalKind-k1+1)
	if k2 > proposalKind {
		return
	}
	name := func(k int) string {
		if k == proposalKind {
			return "proposal"
		}
		return verifC28KindNames[k]
	}
	f1 := mk(k1, "a")
	var f2 base.Fact
	if k1 == verifC28ACCEPT && (k2 == verifC28EmptyOperations || k2 == verifC28NotProcessed) {
		v := mk(k2, "b").(base.ACCEPTBallotFact)
		f2 = v
		f1 = NewACCEPTBallotFact(v.Point().Point, v.Proposal(), v.NewBlock(), nil)
	} else {
		f2 = mk(k2, "b")
	}
	if k1 == verifC28EmptyOperations && k2 == verifC28NotProcessed {
		// both public constructors draw their new block at random: two draws do not coincide
		verifrt.Assume(!f1.(base.ACCEPTBallotFact).NewBlock().Equal(f2.(base.ACCEPTBallotFact).NewBlock()))
	}
	verifrt.Assert(f1.IsValid(nil) == nil && f2.IsValid(nil) == nil, "C28.harness.constructed-facts-are-valid")
	verifrt.Reach("C28.kinds.compared." + name(k1) + "." + name(k2))
	verifrt.Assert(!f1.Hash().Equal(f2.Hash()), "C28.two-facts-of-different-kinds-never-share-a-hash("+name(k1)+","+name(k2)+")")
}

// ---- manifest at the decoded level (used by the block map entry in package isaac/block) -------

// VerifC28ManifestFields: the members of a manifest document as Manifest.UnmarshalJSON assigns them.
type VerifC28ManifestFields struct {
	Hash, Previous, Proposal, OperationsTree, StatesTree, Suffrage util.Hash
	Height                                                         base.Height
	ProposedAt                                                     time.Time
}

func VerifC28ManifestFieldsOf(m Manifest) VerifC28ManifestFields {
	return VerifC28ManifestFields{Hash: m.h, Previous: m.previous, Proposal: m.proposal, OperationsTree: m.operationsTree,
		StatesTree: m.statesTree, Suffrage: m.suffrage, Height: m.height, ProposedAt: m.proposedAt}
}

func (f VerifC28ManifestFields) Manifest() Manifest {
	return Manifest{BaseHinter: hint.NewBaseHinter(ManifestHint), h: f.Hash, height: f.Height, previous: f.Previous, proposal: f.Proposal,
		operationsTree: f.OperationsTree, statesTree: f.StatesTree, suffrage: f.Suffrage, proposedAt: f.ProposedAt}
}

func VerifC28Epoch() time.Time { return time.Unix(1700000000, 0).UTC() }
