package isaacstates

import (
	"sync"

	"github.com/spikeekips/mitum/base"
	"github.com/spikeekips/mitum/isaac"
	"github.com/spikeekips/mitum/util"
	"github.com/spikeekips/mitum/util/logging"
	"github.com/spikeekips/mitum/util/verifrt"
)

// C08 The local node never equivocates.
//
// The node is syncing (allowed to take part in consensus); ballots of sync-source nodes are
// delivered to the real mimic-ballot function concurrently. The real DefaultBallotBroadcaster
// runs over a first-writer-wins ballot pool (what C24 shows for the real pool); everything it
// hands to the network is logged. Assertion: for one (stage point, suffrage-confirm flag) the
// local node never signs-and-broadcasts two different facts.

type verifC08Ballot struct {
	sf base.BallotSignFact
	vp base.Voteproof
}

func (b verifC08Ballot) IsValid([]byte) error         { return nil }
func (b verifC08Ballot) HashBytes() []byte            { return b.sf.HashBytes() }
func (b verifC08Ballot) Point() base.StagePoint       { return b.sf.Fact().(base.BallotFact).Point() }
func (b verifC08Ballot) SignFact() base.BallotSignFact { return b.sf }
func (b verifC08Ballot) Voteproof() base.Voteproof    { return b.vp }

// verifC08Pool: first-writer-wins ballot pool keyed by (stage point, suffrage-confirm flag).
type verifC08Pool struct {
	sync.Mutex
	m map[string]base.Ballot
}

func verifC08Key(point base.Point, stage base.Stage, sc bool) string {
	k := base.NewStagePoint(point, stage).String()
	if sc {
		k = "sf-" + k
	}
	return k
}

func (p *verifC08Pool) Ballot(point base.Point, stage base.Stage, sc bool) (base.Ballot, bool, error) {
	p.Lock()
	defer p.Unlock()
	bl, found := p.m[verifC08Key(point, stage, sc)]
	return bl, found, nil
}

func (p *verifC08Pool) SetBallot(bl base.Ballot) (bool, error) {
	p.Lock()
	defer p.Unlock()
	k := verifC08Key(bl.Point().Point, bl.Point().Stage(), isaac.IsSuffrageConfirmBallotFact(bl.SignFact().Fact()))
	if _, found := p.m[k]; found {
		return false, nil
	}
	p.m[k] = bl
	return true, nil
}

type verifC08World struct {
	st    *States
	local base.LocalNode
	mu    sync.Mutex
	sent  []base.Ballot
}

func verifC08NewWorld() *verifC08World {
	w := &verifC08World{}
	w.local = isaac.NewLocalNode(verifBBPriv{s: "local"}, base.NewStringAddress("node-local"))
	pool := &verifC08Pool{m: map[string]base.Ballot{}}
	args := NewStatesArgs()
	args.IsInSyncSourcePoolFunc = func(base.Address) bool { return true }
	args.BallotBroadcaster = NewDefaultBallotBroadcaster(w.local.Address(), pool, func(bl base.Ballot) error {
		w.mu.Lock()
		w.sent = append(w.sent, bl)
		w.mu.Unlock()
		return nil
	})
	st := &States{
		Logging:          logging.NewLogging(nil),
		local:            w.local,
		networkID:        base.NetworkID([]byte("network")),
		args:             args,
		newHandlers:      map[StateType]newHandler{},
		allowedConsensus: util.NewLocked(true),
		handoverXBroker:  util.EmptyLocked[*HandoverXBroker](),
		handoverYBroker:  util.EmptyLocked[*HandoverYBroker](),
	}
	st.cs = &verifC09Handler{s: StateSyncing, w: &verifC09World{}}
	w.st = st
	return w
}

func (w *verifC08World) check() {
	w.mu.Lock()
	defer w.mu.Unlock()
	seen := map[string]util.Hash{}
	for _, bl := range w.sent {
		if !bl.SignFact().Node().Equal(w.local.Address()) {
			continue
		}
		fact := bl.SignFact().Fact().(base.BallotFact)
		k := verifC08Key(fact.Point().Point, fact.Point().Stage(), isaac.IsSuffrageConfirmBallotFact(fact))
		if h, found := seen[k]; found {
			verifrt.Assert(h.Equal(fact.Hash()), "C08.for-each-stage-point-the-local-node-signs-and-broadcasts-at-most-one-ballot-fact")
		}
		seen[k] = fact.Hash()
	}
}

func verifC08Incoming(node int, p verifBBPoint, variant int) verifC08Ballot {
	addr := base.NewStringAddress("node-" + string(rune('a'+node)))
	return verifC08Ballot{sf: verifBBSF{node: addr, pub: verifBBPub{s: "pub-" + string(rune('a'+node))}, fact: p.fact(variant)}}
}

// VerifC08MimicConcurrent: two (thorough: also three) ballots of different sync-source nodes are
// delivered concurrently while the node is syncing, for the same or different stage points,
// with the same or conflicting facts; every interleaving within the preemption bound.
func VerifC08MimicConcurrent() {
	w := verifC08NewWorld()
	f := w.st.mimicBallotFunc()
	points := []verifBBPoint{{h: 33, r: 0, stage: base.StageINIT}, {h: 33, r: 0, stage: base.StageINIT, sc: true}, {h: 33, r: 1, stage: base.StageINIT}}
	n := verifrt.Bound("deliveries", 2, 3)
	bls := make([]verifC08Ballot, n)
	for i := range bls {
		pi := 0
		if i > 0 {
			pi = verifrt.NondetChoice("point", len(points))
		}
		bls[i] = verifC08Incoming(1+i, points[pi], verifrt.NondetChoice("fact", 2))
	}
	var wg sync.WaitGroup
	for i := range bls {
		wg.Add(1)
		bl := bls[i]
		go func() { defer wg.Done(); f(bl) }()
	}
	wg.Wait()
	verifrt.Reach("C08.mimic.joined")
	w.check()
	verifrt.Assert(len(w.sent) >= 1, "C08.harness.mimic-path-broadcasts")
}

// VerifC08MimicSequential: the same deliveries one after the other, then a re-broadcast of the
// stored ballot (what the broadcast timers do) and a broadcast of another locally made ballot.
func VerifC08MimicSequential() {
	w := verifC08NewWorld()
	f := w.st.mimicBallotFunc()
	p := verifBBPoint{h: 33, r: 0, stage: base.StageINIT}
	f(verifC08Incoming(1, p, 0))
	f(verifC08Incoming(2, p, verifrt.NondetChoice("fact", 2)))
	// the handlers / timers broadcast ballots the local node made itself
	own, err := mimicBallot(w.st.networkID, w.local, p.fact(verifrt.NondetChoice("own-fact", 2)), nil, nil)
	verifrt.Assert(err == nil, "C08.harness.local-ballot-made")
	_ = w.st.args.BallotBroadcaster.Broadcast(own)
	_ = w.st.args.BallotBroadcaster.Broadcast(own)
	verifrt.Reach("C08.sequential.done")
	w.check()
}
