package isaacdatabase

import (
	"bytes"
	"context"
	"io"
	"time"

	"github.com/pkg/errors"
	"github.com/spikeekips/mitum/base"
	"github.com/spikeekips/mitum/isaac"
	leveldbstorage "github.com/spikeekips/mitum/storage/leveldb"
	"github.com/spikeekips/mitum/util"
	"github.com/spikeekips/mitum/util/encoder"
	"github.com/spikeekips/mitum/util/fixedtree"
	"github.com/spikeekips/mitum/util/hint"
	"github.com/spikeekips/mitum/util/valuehash"
	"github.com/spikeekips/mitum/util/verifrt"
	leveldbStorage "github.com/syndtr/goleveldb/leveldb/storage"
)

// C20 Reopening storage returns exactly what was stored - the load kernel of LeveldbPermanent.
//
// Code under test (all real): NewLeveldbPermanent with loadLastBlockMap / loadLastSuffrageProof /
// loadNetworkPolicy, the read methods of LeveldbPermanent / basePermanent (Last*Bytes, *Bytes,
// objects), the frame codec (EncodeOneHeaderFrame, EncodeFrameState, ReadOneHeaderFrame, ...), the
// key functions, PrefixStorage; in the second entry also the real write path LeveldbBlockWrite
// (SetBlockMap, SetStates, SetSuffrageProof, Write, TempDatabase) and
// LeveldbPermanent.MergeTempDatabase.
//
// Model: goleveldb = ordered map (engine). "Reopen" = a second LeveldbPermanent opened over the same
// storage: whatever closing and reopening goleveldb itself does is the trusted persistence of the
// library. The body encoder is a harness type: an object marshals to its own (symbolic) body bytes
// and a body decodes to the object it belongs to; block maps, manifests and suffrage proofs are
// harness types; states are real base.BaseState values.

// ---- encoder -------------------------------------------------------------------

type verifC20Enc struct {
	ht     hint.Hint
	objs   []interface{}
	bodies [][]byte
}

func (e *verifC20Enc) register(v interface{}, body []byte) {
	e.objs = append(e.objs, v)
	e.bodies = append(e.bodies, body)
}

func (e *verifC20Enc) Hint() hint.Hint                { return e.ht }
func (e *verifC20Enc) Add(encoder.DecodeDetail) error { return nil }
func (e *verifC20Enc) AddHinter(hint.Hinter) error    { return nil }
func (e *verifC20Enc) Unmarshal([]byte, interface{}) error {
	return errors.Errorf("not supported")
}
func (e *verifC20Enc) StreamEncoder(io.Writer) util.StreamEncoder { return nil }
func (e *verifC20Enc) StreamDecoder(io.Reader) util.StreamDecoder { return nil }

func (e *verifC20Enc) Marshal(v interface{}) ([]byte, error) {
	switch t := v.(type) {
	case *verifC20Map:
		return t.body, nil
	case *verifC20Proof:
		return t.body, nil
	case base.State:
		for i := range e.objs {
			if st, ok := e.objs[i].(base.State); ok && st.Key() == t.Key() && st.Height() == t.Height() {
				return e.bodies[i], nil
			}
		}
	}
	return nil, errors.Errorf("unknown object")
}

func (e *verifC20Enc) Decode(b []byte) (interface{}, error) {
	for i := range e.bodies {
		if bytes.Equal(e.bodies[i], b) {
			return e.objs[i], nil
		}
	}
	return nil, errors.Errorf("unknown body")
}

func (e *verifC20Enc) DecodeWithHint(b []byte, _ hint.Hint) (interface{}, error) { return e.Decode(b) }
func (e *verifC20Enc) DecodeWithHintType(b []byte, _ hint.Type) (interface{}, error) {
	return e.Decode(b)
}
func (e *verifC20Enc) DecodeWithFixedHintType(string, int) (interface{}, error) {
	return nil, errors.Errorf("not supported")
}
func (e *verifC20Enc) DecodeSlice([]byte) ([]interface{}, error) {
	return nil, errors.Errorf("not supported")
}

// body: a tag byte that is different for every object + tail symbolic bytes (tail: one choice per
// path, 0..B-1)
func (w *verifC20World) body(tag byte, name string) []byte {
	return append([]byte{tag}, verifrt.NondetBytes(name, w.tail)...)
}

// ---- harness block map / manifest / suffrage proof --------------------------------

type verifC20Manifest struct {
	height   base.Height
	hash     []byte
	suffrage []byte
}

func (m verifC20Manifest) Hash() util.Hash           { return valuehash.NewBytes(m.hash) }
func (m verifC20Manifest) IsValid([]byte) error      { return nil }
func (m verifC20Manifest) Height() base.Height       { return m.height }
func (m verifC20Manifest) Previous() util.Hash       { return nil }
func (m verifC20Manifest) Proposal() util.Hash       { return nil }
func (m verifC20Manifest) OperationsTree() util.Hash { return nil }
func (m verifC20Manifest) StatesTree() util.Hash     { return nil }
func (m verifC20Manifest) Suffrage() util.Hash {
	if len(m.suffrage) < 1 {
		return nil
	}
	return valuehash.NewBytes(m.suffrage)
}
func (m verifC20Manifest) ProposedAt() time.Time { return time.Unix(1700000000, 0) }

type verifC20Pub struct{}

func (verifC20Pub) String() string                      { return "verif-pub" }
func (verifC20Pub) Bytes() []byte                       { return []byte("verif-pub") }
func (verifC20Pub) IsValid([]byte) error                { return nil }
func (verifC20Pub) Equal(b base.PKKey) bool             { _, ok := b.(verifC20Pub); return ok }
func (verifC20Pub) Verify([]byte, base.Signature) error { return nil }

type verifC20Map struct {
	m    verifC20Manifest
	body []byte
}

func (m *verifC20Map) Bytes() []byte                       { return nil }
func (m *verifC20Map) IsValid([]byte) error                { return nil }
func (m *verifC20Map) Signer() base.Publickey              { return verifC20Pub{} }
func (m *verifC20Map) Signature() base.Signature           { return nil }
func (m *verifC20Map) SignedAt() time.Time                 { return time.Unix(1700000000, 0) }
func (m *verifC20Map) Verify(base.NetworkID, []byte) error { return nil }
func (m *verifC20Map) Node() base.Address                  { return base.NewStringAddress("verif-node") }
func (m *verifC20Map) Manifest() base.Manifest             { return m.m }
func (m *verifC20Map) Item(base.BlockItemType) (base.BlockMapItem, bool) {
	return nil, false
}
func (m *verifC20Map) Items(func(base.BlockMapItem) bool) {}

type verifC20Proof struct {
	m    *verifC20Map
	st   base.State
	body []byte
}

func (p *verifC20Proof) IsValid([]byte) error            { return nil }
func (p *verifC20Proof) Map() base.BlockMap              { return p.m }
func (p *verifC20Proof) State() base.State               { return p.st }
func (p *verifC20Proof) Proof() fixedtree.Proof          { return fixedtree.Proof{} }
func (p *verifC20Proof) Suffrage() (base.Suffrage, error) { return nil, nil }
func (p *verifC20Proof) SuffrageHeight() base.Height {
	return p.st.Value().(base.SuffrageNodesStateValue).Height()
}
func (p *verifC20Proof) Prove(base.State) error { return nil }

// ---- world ---------------------------------------------------------------------

type verifC20Block struct {
	height    base.Height
	m         *verifC20Map
	proof     *verifC20Proof // nil: the block does not change the suffrage
	sufheight base.Height
	policy    base.State // nil: the block does not change the network policy
	other     base.State
}

type verifC20World struct {
	st   *leveldbstorage.Storage
	enc  *verifC20Enc
	encs *encoder.Encoders
	tail int
}

func verifC20NewWorld() *verifC20World {
	st, err := leveldbstorage.NewStorage(leveldbStorage.NewMemStorage(), nil)
	verifrt.Assert(err == nil, "C20.harness.storage-opens")
	enc := &verifC20Enc{ht: hint.MustNewHint("verif-enc-v0.0.1")}
	return &verifC20World{st: st, enc: enc, encs: encoder.NewEncoders(enc, enc),
		tail: verifrt.NondetChoice("bodytail", verifrt.Bound("bodybytes", 3, 4))}
}

// verifC20NewBlock: block number i (tags keep the bodies of different objects different); heights
// are symbolic and increasing; the suffrage changes / the network policy changes in this block or not.
func (w *verifC20World) newBlock(i int, prev *verifC20Block) *verifC20Block {
	b := &verifC20Block{}
	b.height = base.Height(verifrt.NondetInt("height"))
	if prev == nil {
		verifrt.Assume(b.height >= base.GenesisHeight)
	} else {
		verifrt.Assume(b.height > prev.height)
	}
	verifrt.Assume(b.height < base.Height(1<<62))
	tag := byte(0x10 * (i + 1))
	b.m = &verifC20Map{
		m:    verifC20Manifest{height: b.height, hash: verifrt.NondetBytes("manifest.hash", 1+w.tail)},
		body: w.body(tag+1, "map.body"),
	}
	w.enc.register(b.m, b.m.body)

	prevsuf := base.Height(-1)
	if prev != nil {
		prevsuf = prev.sufheight
	}
	b.sufheight = prevsuf
	if verifrt.NondetChoice("suffrage-changes", 2) == 1 {
		b.sufheight = base.Height(verifrt.NondetInt("suffrageheight"))
		verifrt.Assume(b.sufheight > prevsuf && b.sufheight < base.Height(1<<62))
		if verifrt.NondetChoice("manifest.suffrage", 2) == 1 {
			b.m.m.suffrage = verifrt.NondetBytes("manifest.suffrage.hash", 2)
		}
		node := isaac.NewNode(verifC20Pub{}, base.NewStringAddress("verif-node"))
		v := isaac.NewSuffrageNodesStateValue(b.sufheight, []base.SuffrageNodeStateValue{isaac.NewSuffrageNodeStateValue(node, base.GenesisHeight)})
		sufst := base.NewBaseState(b.height, isaac.SuffrageStateKey, v, nil, nil)
		w.enc.register(sufst, w.body(tag+2, "suffragestate.body"))
		b.proof = &verifC20Proof{m: b.m, st: sufst, body: w.body(tag+3, "proof.body")}
		w.enc.register(b.proof, b.proof.body)
	}
	if verifrt.NondetChoice("policy-changes", 2) == 1 {
		policy := isaac.DefaultNetworkPolicy()
		policy.SetMaxOperationsInProposal(uint64(100 + i))
		b.policy = base.NewBaseState(b.height, isaac.NetworkPolicyStateKey, isaac.NewNetworkPolicyStateValue(policy), nil, nil)
		w.enc.register(b.policy, w.body(tag+4, "policystate.body"))
	}
	b.other = base.NewBaseState(b.height, "verif-state", verifC20Value{b: []byte{byte(i)}}, nil, nil)
	w.enc.register(b.other, w.body(tag+5, "otherstate.body"))
	return b
}

type verifC20Value struct{ b []byte }

func (v verifC20Value) HashBytes() []byte    { return v.b }
func (v verifC20Value) IsValid([]byte) error { return nil }

func (b *verifC20Block) states() []base.State {
	sts := []base.State{b.other}
	if b.proof != nil {
		sts = append(sts, b.proof.st)
	}
	if b.policy != nil {
		sts = append(sts, b.policy)
	}
	return sts
}

// ---- what is read -----------------------------------------------------------------

type verifC20Bytes struct {
	enchint    string
	meta, body []byte
	found      bool
	err        error
}

func verifC20SameBytes(a, b verifC20Bytes) bool {
	return a.found == b.found && (a.err == nil) == (b.err == nil) &&
		(!a.found || (a.enchint == b.enchint && bytes.Equal(a.meta, b.meta) && bytes.Equal(a.body, b.body)))
}

func verifC20Wrap(enchint string, meta, body []byte, found bool, err error) verifC20Bytes {
	return verifC20Bytes{enchint: enchint, meta: meta, body: body, found: found, err: err}
}

// verifC20Expect: what was stored for the chain of blocks (the oracle: computed from the harness's own
// records of what it handed to the write path, never by reading the database).
type verifC20Expect struct {
	last     *verifC20Block
	proof    *verifC20Block // the last block that changed the suffrage
	policy   *verifC20Block
	enchint  string
	blocks   []*verifC20Block
	bodyOf   func(base.State) []byte
}

func verifC20Expected(w *verifC20World, blocks []*verifC20Block) verifC20Expect {
	e := verifC20Expect{blocks: blocks, enchint: w.enc.ht.String()}
	for _, b := range blocks {
		e.last = b
		if b.proof != nil {
			e.proof = b
		}
		if b.policy != nil {
			e.policy = b
		}
	}
	e.bodyOf = func(st base.State) []byte {
		b, err := w.enc.Marshal(st)
		verifrt.Assert(err == nil, "C20.harness.body-of-state")
		return b
	}
	return e
}

func verifC20ProofMeta(b *verifC20Block) []byte {
	if s := b.m.Manifest().Suffrage(); s != nil {
		return s.Bytes()
	}
	return nil
}

// verifC20Check: every read of a LeveldbPermanent opened over the storage returns the stored objects
// and exactly the stored bytes.
func verifC20Check(db *LeveldbPermanent, e verifC20Expect, pfx string) {
	// last block map
	m, found, err := db.LastBlockMap()
	verifrt.Assert(err == nil && found && m == base.BlockMap(e.last.m), pfx+".last-block-map-is-the-stored-one")
	got := verifC20Wrap(db.LastBlockMapBytes())
	want := verifC20Bytes{enchint: e.enchint, meta: e.last.m.Manifest().Hash().Bytes(), body: e.last.m.body, found: true}
	verifrt.Assert(verifC20SameBytes(got, want), pfx+".LastBlockMapBytes-returns-exactly-the-stored-bytes")
	for _, b := range e.blocks {
		m, found, err := db.BlockMap(b.height)
		verifrt.Assert(err == nil && found && m == base.BlockMap(b.m), pfx+".block-map-by-height-is-the-stored-one")
		got := verifC20Wrap(db.BlockMapBytes(b.height))
		want := verifC20Bytes{enchint: e.enchint, meta: b.m.Manifest().Hash().Bytes(), body: b.m.body, found: true}
		verifrt.Assert(verifC20SameBytes(got, want), pfx+".BlockMapBytes-returns-exactly-the-stored-bytes")
	}
	// suffrage proofs
	p, found, err := db.LastSuffrageProof()
	got = verifC20Wrap(db.LastSuffrageProofBytes())
	if e.proof == nil {
		verifrt.Assert(err == nil && !found, pfx+".no-suffrage-proof-stored=>none-read")
		verifrt.Assert(!got.found && got.err == nil, pfx+".no-suffrage-proof-stored=>no-bytes-read")
	} else {
		verifrt.Reach(pfx + ".suffrage-proof-read")
		verifrt.Assert(err == nil && found && p == base.SuffrageProof(e.proof.proof), pfx+".last-suffrage-proof-is-the-stored-one")
		want := verifC20Bytes{enchint: e.enchint, meta: verifC20ProofMeta(e.proof), body: e.proof.proof.body, found: true}
		verifrt.Assert(verifC20SameBytes(got, want), pfx+".LastSuffrageProofBytes-returns-exactly-the-stored-bytes")
		for _, b := range e.blocks {
			if b.proof == nil {
				continue
			}
			p, found, err := db.SuffrageProof(b.sufheight)
			verifrt.Assert(err == nil && found && p == base.SuffrageProof(b.proof), pfx+".suffrage-proof-by-height-is-the-stored-one")
			got := verifC20Wrap(db.SuffrageProofBytes(b.sufheight))
			want := verifC20Bytes{enchint: e.enchint, meta: verifC20ProofMeta(b), body: b.proof.body, found: true}
			verifrt.Assert(verifC20SameBytes(got, want), pfx+".SuffrageProofBytes-returns-exactly-the-stored-bytes(as-served-to-peers)")
			p, found, err = db.SuffrageProofByBlockHeight(b.height)
			verifrt.Assert(err == nil && found && p == base.SuffrageProof(b.proof), pfx+".suffrage-proof-by-block-height-is-the-stored-one")
		}
	}
	// network policy
	policy := db.LastNetworkPolicy()
	if e.policy == nil {
		verifrt.Assert(policy == nil, pfx+".no-network-policy-stored=>none-read")
	} else {
		verifrt.Reach(pfx + ".network-policy-read")
		want := e.policy.policy.Value().(base.NetworkPolicyStateValue).Policy()
		verifrt.Assert(policy != nil && bytes.Equal(policy.HashBytes(), want.HashBytes()), pfx+".network-policy-is-the-stored-one")
	}
	// states
	lastOf := map[string]base.State{}
	for _, b := range e.blocks {
		for _, st := range b.states() {
			lastOf[st.Key()] = st
		}
	}
	for _, key := range []string{"verif-state", isaac.SuffrageStateKey, isaac.NetworkPolicyStateKey} {
		st, found, err := db.State(key)
		got := verifC20Wrap(db.StateBytes(key))
		want, stored := lastOf[key]
		if !stored {
			verifrt.Assert(err == nil && !found && !got.found, pfx+".state-not-stored=>not-read")
			continue
		}
		verifrt.Assert(err == nil && found && st.Height() == want.Height() && st.Hash().Equal(want.Hash()), pfx+".state-is-the-stored-one")
		verifrt.Assert(verifC20SameBytes(got, verifC20Bytes{enchint: e.enchint, meta: want.Hash().Bytes(), body: e.bodyOf(want), found: true}),
			pfx+".StateBytes-returns-exactly-the-stored-bytes")
	}
}

// ---- entries ---------------------------------------------------------------------

// VerifC20LoadKernel: the records of 1..N blocks as LeveldbBlockWrite lays them out (real frame and
// key helpers) are put under the permanent prefix; a LeveldbPermanent opened over that storage
// returns the stored objects and exactly the stored enchint / meta / body.
func VerifC20LoadKernel() {
	w := verifC20NewWorld()
	pst := leveldbstorage.NewPrefixStorage(w.st, leveldbLabelPermanent[:])
	n := 1 + verifrt.NondetChoice("blocks", verifrt.Bound("blocks", 2, 3))
	var blocks []*verifC20Block
	var prev *verifC20Block
	for i := 0; i < n; i++ {
		b := w.newBlock(i, prev)
		blocks, prev = append(blocks, b), b
		_, frame, err := EncodeOneHeaderFrame(w.enc, b.m.Manifest().Hash().Bytes(), b.m)
		verifrt.Assert(err == nil && pst.Put(leveldbBlockMapKey(b.height), frame, nil) == nil, "C20.harness.put-block-map")
		if b.proof != nil {
			_, frame, err := EncodeOneHeaderFrame(w.enc, verifC20ProofMeta(b), b.proof)
			verifrt.Assert(err == nil && pst.Put(leveldbSuffrageProofKey(b.sufheight), frame, nil) == nil, "C20.harness.put-proof")
			verifrt.Assert(pst.Put(leveldbSuffrageProofByBlockHeightKey(b.height), frame, nil) == nil, "C20.harness.put-proof-by-height")
		}
		for _, st := range b.states() {
			frame, err := EncodeFrameState(w.enc, st)
			verifrt.Assert(err == nil && pst.Put(leveldbStateKey(st.Key()), frame, nil) == nil, "C20.harness.put-state")
		}
	}
	db, err := NewLeveldbPermanent(w.st, w.encs, w.enc, 0)
	verifrt.Assert(err == nil, "C20.kernel.opens-over-stored-records")
	if err != nil {
		return
	}
	verifrt.Reach("C20.kernel.opened")
	verifC20Check(db, verifC20Expected(w, blocks), "C20.kernel")
}

// VerifC20MergeReopen: 1..N blocks go through the real write path (LeveldbBlockWrite -> TempDatabase ->
// LeveldbPermanent.MergeTempDatabase); after every merge the permanent database itself and a second
// one opened over the same storage ("closed and reopened") are read: both return what was stored.
func VerifC20MergeReopen() {
	w := verifC20NewWorld()
	db, err := NewLeveldbPermanent(w.st, w.encs, w.enc, 0)
	verifrt.Assert(err == nil, "C20.harness.empty-database-opens")
	n := 1 + verifrt.NondetChoice("blocks", verifrt.Bound("mblocks", 2, 2))
	var blocks []*verifC20Block
	var prev *verifC20Block
	for i := 0; i < n; i++ {
		b := w.newBlock(i, prev)
		blocks, prev = append(blocks, b), b
		bw := NewLeveldbBlockWrite(b.height, w.st, w.encs, w.enc)
		verifrt.Assert(bw.SetBlockMap(b.m) == nil, "C20.harness.SetBlockMap")
		verifrt.Assert(bw.SetStates(b.states()) == nil, "C20.harness.SetStates")
		if b.proof != nil {
			verifrt.Assert(bw.SetSuffrageProof(b.proof) == nil, "C20.harness.SetSuffrageProof")
		}
		verifrt.Assert(bw.Write() == nil, "C20.harness.Write")
		temp, err := bw.TempDatabase()
		verifrt.Assert(err == nil, "C20.harness.TempDatabase")
		verifrt.Assert(db.MergeTempDatabase(context.Background(), temp) == nil, "C20.harness.MergeTempDatabase")
		verifrt.Reach("C20.merge.merged")

		e := verifC20Expected(w, blocks)
		verifC20Check(db, e, "C20.merge.before-closing")
		reopened, err := NewLeveldbPermanent(w.st, w.encs, w.enc, 0)
		verifrt.Assert(err == nil, "C20.merge.reopens")
		if err != nil {
			return
		}
		verifrt.Reach("C20.merge.reopened")
		verifC20Check(reopened, e, "C20.merge.after-reopening")
	}
}
