package util

import (
	"context"

	"github.com/pkg/errors"
	"github.com/spikeekips/mitum/util/verifrt"
)

// C33 Job workers run every accepted job once and report the first error.

type verifC33Err struct{ job int }

func (e *verifC33Err) Error() string { return "job failed" }

// VerifC33RunJobWorker: RunJobWorker(workersize, size) with a symbolic set of failing jobs,
// under every schedule within the preemption bound.
func VerifC33RunJobWorker() {
	maxJobs := verifrt.Bound("jobs", 3, 4)
	size := 1 + verifrt.NondetChoice("size", maxJobs)
	workers := 1 + verifrt.NondetChoice("workers", verifrt.Bound("workers", 2, 3))
	fail := make([]bool, size)
	nfail := 0
	for i := range fail {
		fail[i] = verifrt.NondetChoice("fail", 2) == 1
		if fail[i] {
			nfail++
		}
	}
	verifrt.Assume(nfail <= verifrt.Bound("maxfail", 2, 2))
	started := make([]int, size)
	finished := make([]int, size)
	errs := make([]error, size)
	for i := range errs {
		errs[i] = &verifC33Err{job: i}
	}
	// the error value a failing job returns may also be one of the context errors
	// (a job that gave up on its own sub-context): it is a job error like any other
	switch verifrt.NondetChoice("errkind", 3) {
	case 1:
		for i := range errs {
			errs[i] = errors.Wrapf(context.Canceled, "job %d", i)
		}
	case 2:
		for i := range errs {
			errs[i] = errors.Wrapf(context.DeadlineExceeded, "job %d", i)
		}
	}
	err := RunJobWorker(context.Background(), int64(workers), int64(size), func(ctx context.Context, i, jobid uint64) error {
		started[i]++
		verifrt.Yield("job body")
		finished[i]++
		if fail[i] {
			return errs[i]
		}
		return nil
	})
	verifrt.Reach("C33.runjobworker.returned")
	for i := 0; i < size; i++ {
		verifrt.Assert(started[i] <= 1, "C33.each-job-runs-at-most-once")
	}
	if nfail == 0 {
		verifrt.Assert(err == nil, "C33.no-error-without-failing-job")
		for i := 0; i < size; i++ {
			verifrt.Assert(started[i] == 1, "C33.every-accepted-job-ran-once")
			verifrt.Assert(finished[i] == 1, "C33.wait-returns-after-all-jobs-finished")
		}
		return
	}
	verifrt.Assert(err != nil, "C33.failing-job-error-is-returned")
	if err == nil {
		return
	}
	// the returned error is the error of a failing job that actually ran
	match := false
	for i := 0; i < size; i++ {
		if fail[i] && errors.Is(err, errs[i]) {
			match = true
			verifrt.Assert(started[i] == 1, "C33.returned-error-comes-from-a-job-that-ran")
		}
	}
	verifrt.Assert(match, "C33.returned-error-is-a-job-error")
}

// VerifC33BatchWork: BatchWork(size, limit) visits every index exactly once, batch by batch,
// with pref(last) called before the jobs of its batch.
func VerifC33BatchWork() {
	maxSize := verifrt.Bound("bsize", 4, 6)
	size := 1 + verifrt.NondetChoice("size", maxSize)
	limit := 1 + verifrt.NondetChoice("limit", maxSize)
	visited := make([]int, size)
	prefLast := -1   // last announced by the most recent pref
	prefCalls := 0
	maxDone := -1
	err := BatchWork(context.Background(), int64(size), int64(limit),
		func(_ context.Context, last uint64) error {
			// all indexes of earlier batches are finished when the next batch is prepared
			for i := 0; i <= prefLast; i++ {
				verifrt.Assert(visited[i] == 1, "C33.batch.previous-batch-finished-before-next-preparation")
			}
			verifrt.Assert(int(last) > prefLast && int(last) < size, "C33.batch.preparation-announces-increasing-last-index")
			prefLast = int(last)
			prefCalls++
			return nil
		},
		func(_ context.Context, i, last uint64) error {
			verifrt.Assert(int(i) < size, "C33.batch.index-in-range")
			if int(i) >= size {
				return nil
			}
			verifrt.Assert(int(last) == prefLast, "C33.batch.job-sees-the-last-index-of-its-prepared-batch")
			verifrt.Assert(int(i) <= prefLast, "C33.batch.preparation-called-before-jobs-of-the-batch")
			verifrt.Assert(prefLast-int(i) < limit, "C33.batch.index-belongs-to-the-current-batch")
			visited[i]++
			if int(i) > maxDone {
				maxDone = int(i)
			}
			return nil
		})
	verifrt.Reach("C33.batchwork.returned")
	verifrt.Assert(err == nil, "C33.batch.no-error-without-failing-job")
	for i := 0; i < size; i++ {
		verifrt.Assert(visited[i] == 1, "C33.batch.every-index-visited-exactly-once")
	}
	want := (size + limit - 1) / limit
	verifrt.Assert(prefCalls == want, "C33.batch.one-preparation-per-batch")
}
