package isaacstates

import (
	"github.com/spikeekips/mitum/base"
	"github.com/spikeekips/mitum/isaac"
	"github.com/spikeekips/mitum/util/verifrt"
)

// C05 Ballotbox keeps stage points isolated and releases finished ones.
//
// Histories of votes (normal and suffrage-confirm) over a small universe of stage points,
// position advances and cleanup cycles; the invariants are checked after every step:
//   I1  every live key of the record table maps to a record OF THAT stage point (and flag),
//       and no two keys share a record                               ("never influence ... any other stage point")
//   I2  right after a cleanup no record below the current position is kept, normal or
//       suffrage-confirm                                             ("records ... are released")
//   I3  no record is handed back to the recycle pool twice without having been taken out again
//                                                                    ("released exactly once")
//   I4  Voted(P) only returns sign facts that were cast for P        ("votes recorded for one stage point never influence ...")

var verifC05Points = []verifBBPoint{
	{h: 33, r: 0, stage: base.StageINIT},
	{h: 33, r: 0, stage: base.StageINIT, sc: true},
	{h: 33, r: 0, stage: base.StageACCEPT},
	{h: 33, r: 1, stage: base.StageINIT},
	{h: 34, r: 0, stage: base.StageINIT},
}

type verifC05State struct {
	w          *verifBBWorld
	nextNode   []int
	cast       map[string]map[string]int // point key -> node -> variant
	released   map[*voterecords]bool     // handed to the pool and not seen re-initialised since
	doubleFree bool
}

func (s *verifC05State) checkTable(after string) {
	box := s.w.box
	seen := map[*voterecords]string{}
	ok, shared := true, false
	box.vrs.Traverse(func(key string, vr *voterecords) bool {
		sp, isc := vr.stagepoint(), vr.isSuffrageConfirm()
		k := sp.String()
		if isc {
			k = "sf-" + k
		}
		if k != key {
			ok = false
		}
		if _, dup := seen[vr]; dup {
			shared = true
		}
		seen[vr] = key
		return true
	})
	verifrt.Assert(ok, "C05.I1.every-live-key-maps-to-a-record-of-that-stage-point(records-of-finished-points-are-not-recycled-while-still-consulted)")
	verifrt.Assert(!shared, "C05.I1.no-two-stage-points-share-a-record")
	verifrt.Assert(!s.doubleFree, "C05.I3.records-are-released-exactly-once")
	_ = after
}

func (s *verifC05State) checkReleased() {
	box := s.w.box
	last := box.LastPoint()
	if last.IsZero() {
		return
	}
	kept := false
	box.vrs.Traverse(func(_ string, vr *voterecords) bool {
		if vr.stagepoint().Compare(last.StagePoint) < 0 {
			kept = true
		}
		return true
	})
	verifrt.Reach("C05.cleanup-checked")
	verifrt.Assert(!kept, "C05.I2.after-cleanup-no-record-below-the-current-position-is-kept(including-suffrage-confirm-records)")
}

func (s *verifC05State) checkVoted() {
	var addrs []base.Address
	for _, n := range s.w.nodes {
		addrs = append(addrs, n.Address())
	}
	for _, p := range verifC05Points {
		if p.sc {
			continue
		}
		for _, sf := range s.w.box.Voted(p.stagePoint(), addrs) {
			fact := sf.Fact().(base.BallotFact)
			variant, castHere := s.cast[p.key()][sf.Node().String()]
			verifrt.Assert(fact.Point().Equal(p.stagePoint()) && !isaac.IsSuffrageConfirmBallotFact(fact) && castHere &&
				fact.Hash().Equal(p.fact(variant).Hash()), "C05.I4.voted-of-a-stage-point-only-contains-votes-cast-for-it")
		}
	}
}

// VerifC05Histories explores every history of the bounded length.
func VerifC05Histories() {
	w := verifBBNewWorld(4, base.Threshold(60))
	s := &verifC05State{w: w, nextNode: make([]int, len(verifC05Points)), cast: map[string]map[string]int{}, released: map[*voterecords]bool{}}
	orig := voterecordsPoolPut
	voterecordsPoolPut = func(vr *voterecords) {
		if s.released[vr] && vr.stagepoint().IsZero() {
			s.doubleFree = true
		}
		s.released[vr] = true
		orig(vr)
	}
	defer func() { voterecordsPoolPut = orig }()
	steps := verifrt.Bound("steps", 4, 5)
	symmetry := verifrt.Bound("fact-symmetry", 0, 1) == 1
	np := len(verifC05Points)
	for i := 0; i < steps; i++ {
		c := verifrt.NondetChoice("step", 2*np+1+3)
		switch {
		case c < 2*np: // vote by the next node of that point
			pi, variant := c/2, c%2
			p := verifC05Points[pi]
			verifrt.Assume(s.nextNode[pi] < len(w.nodes))
			if symmetry {
				// thorough: up to renaming of the two facts of a point (the first vote for a point is for fact 0)
				verifrt.Assume(variant == 0 || s.nextNode[pi] > 0)
			}
			node := s.nextNode[pi]
			s.nextNode[pi]++
			sf := w.signFact(node, p, variant)
			voted, deferred, err := w.box.vote(sf, nil, nil)
			verifrt.Assert(err == nil, "C05.harness.vote-without-error")
			if voted {
				if s.cast[p.key()] == nil {
					s.cast[p.key()] = map[string]int{}
				}
				s.cast[p.key()][sf.Node().String()] = variant
			}
			if deferred != nil {
				if vps := deferred(); len(vps) > 0 {
					verifrt.Reach("C05.voteproof-emitted")
					s.checkReleased() // emission advances the position and runs the cleanup
				}
			}
		case c == 2*np: // a cleanup cycle
			w.box.clean()
			s.checkReleased()
		default: // the position advances (a voteproof from outside)
			p := []verifBBPoint{verifC05Points[0], verifC05Points[2], verifC05Points[4]}[c-2*np-1]
			lp, err := isaac.NewLastPoint(p.stagePoint(), true, false)
			verifrt.Assert(err == nil, "C05.harness.lastpoint")
			_ = w.box.SetLastPoint(lp)
		}
		_ = w.drain()
		s.checkTable("step")
		s.checkVoted()
	}
	// every history ends with two more cleanup cycles (the periodic cleanup goes on): records queued
	// for release by the last real cleanup are released by the first, and nothing a second time
	for i := 0; i < 2; i++ {
		w.box.clean()
		s.checkReleased()
		s.checkTable("final cleanup")
		s.checkVoted()
	}
	verifrt.Reach("C05.history-done")
}
