package isaacblock

import (
	"bytes"

	"github.com/spikeekips/mitum/base"
	"github.com/spikeekips/mitum/isaac"
	"github.com/spikeekips/mitum/util"
	"github.com/spikeekips/mitum/util/verifrt"
)

// C28 (block map): the signed block map with its manifest. An honest map is made and signed by the
// real code (NewManifest, SetItem, Sign); it is rebuilt from its decoded members (manifest members as
// Manifest.UnmarshalJSON assigns them, items, node sign) with ONE member changed, or verified under
// another network id => BlockMap.IsValid(networkID) must fail.

type verifC28Item struct {
	t        base.BlockItemType
	checksum string
}

type verifC28Map struct {
	m     isaac.VerifC28ManifestFields
	items []verifC28Item
	node  base.Address
	sign  base.BaseSign
}

func (s verifC28Map) blockMap() BlockMap {
	bm := NewBlockMap()
	bm.SetManifest(s.m.Manifest())
	for i := range s.items {
		verifrt.Assert(bm.SetItem(NewBlockMapItem(s.items[i].t, s.items[i].checksum)) == nil, "C28.harness.set-item")
	}
	bm.BaseNodeSign = base.NewBaseNodeSign(s.node, s.sign.Signer(), s.sign.Signature(), s.sign.SignedAt())
	return bm
}

var verifC28MapMutNames = []string{
	"manifest(hash)", "manifest(height)", "manifest(previous)", "manifest(proposal)", "manifest(operations-tree)",
	"manifest(states-tree)", "manifest(suffrage)", "manifest(proposed-at)",
	"item(checksum)", "item(type)", "item(removed)", "item(added)",
	"node", "signer", "signature", "signing-time", "network-id",
}

func VerifC28BlockMap() {
	networkID := isaac.VerifC28HonestNetworkID("networkid")
	height := base.Height(verifrt.NondetInt("height"))
	verifrt.Assume(height > base.GenesisHeight)
	m := isaac.NewManifest(height, isaac.VerifC28HonestHash("previous"), isaac.VerifC28HonestHash("proposal"),
		isaac.VerifC28HonestHash("operationstree"), isaac.VerifC28HonestHash("statestree"), isaac.VerifC28HonestHash("suffrage"),
		isaac.VerifC28Epoch())
	honest := verifC28Map{m: isaac.VerifC28ManifestFieldsOf(m), node: isaac.VerifC28Address(0)}
	honest.items = []verifC28Item{
		{base.BlockItemProposal, "c-proposal"}, {base.BlockItemVoteproofs, "c-voteproofs"},
		{base.BlockItemOperationsTree, "c-operationstree"}, {base.BlockItemStatesTree, "c-statestree"},
		{base.BlockItemOperations, "c-operations"},
	}
	bm := honest.blockMap()
	verifrt.Assert(bm.Sign(honest.node, isaac.VerifC28Key{ID: 7}, networkID) == nil, "C28.harness.sign")
	honest.sign = bm.BaseNodeSign.BaseSign
	verifrt.Assert(honest.blockMap().IsValid(networkID) == nil, "C28.harness.honest-signed-block-map-rebuilt-from-its-decoded-members-is-valid")
	verifrt.Reach("C28.blockmap.honest-valid")

	mut := verifrt.NondetChoice("mutation", len(verifC28MapMutNames))
	other, onet := honest, networkID
	other.items = append([]verifC28Item(nil), honest.items...)
	otherHash := func(name string, old util.Hash) util.Hash {
		h := isaac.VerifC28Hash(name)
		verifrt.Assume(!h.Equal(old))
		return h
	}
	switch mut {
	case 0:
		other.m.Hash = otherHash("other.hash", honest.m.Hash)
	case 1:
		other.m.Height = base.Height(verifrt.NondetInt("other.height"))
		verifrt.Assume(other.m.Height != honest.m.Height)
	case 2:
		other.m.Previous = otherHash("other.previous", honest.m.Previous)
	case 3:
		other.m.Proposal = otherHash("other.proposal", honest.m.Proposal)
	case 4:
		other.m.OperationsTree = otherHash("other.operationstree", honest.m.OperationsTree)
	case 5:
		other.m.StatesTree = otherHash("other.statestree", honest.m.StatesTree)
	case 6:
		other.m.Suffrage = otherHash("other.suffrage", honest.m.Suffrage)
	case 7:
		other.m.ProposedAt = isaac.VerifC28OtherTime(honest.m.ProposedAt, "other.proposedat")
	case 8:
		c := string(isaac.VerifC28Bytes("other.checksum", 2))
		verifrt.Assume(c != "c-operations")
		other.items[4].checksum = c
	case 9: // the operations file relabelled as the states file
		other.items[4].t = base.BlockItemStates
	case 10:
		other.items = other.items[:4]
	case 11:
		other.items = append(other.items, verifC28Item{base.BlockItemStates, string(isaac.VerifC28Bytes("other.checksum", 2))})
	case 12:
		other.node = isaac.VerifC28Address(1 + verifrt.NondetChoice("other.node", 2))
	case 13:
		k := isaac.VerifC28Key{ID: verifrt.NondetU8("other.signer")}
		verifrt.Assume(!k.Equal(honest.sign.Signer()))
		other.sign = base.NewBaseSign(k, honest.sign.Signature(), honest.sign.SignedAt())
	case 14:
		sig := base.Signature(verifrt.NondetBytes("other.signature", len(honest.sign.Signature())))
		verifrt.Assume(!sig.Equal(honest.sign.Signature()))
		other.sign = base.NewBaseSign(honest.sign.Signer(), sig, honest.sign.SignedAt())
	case 15:
		other.sign = base.NewBaseSign(honest.sign.Signer(), honest.sign.Signature(), isaac.VerifC28OtherTime(honest.sign.SignedAt(), "other.signedat"))
	default:
		onet = isaac.VerifC28NetworkID("other.networkid")
		verifrt.Assume(!bytes.Equal(onet, networkID))
	}
	what := verifC28MapMutNames[mut]
	err := other.blockMap().IsValid(onet)
	verifrt.Reach("C28.blockmap.mutated." + what)
	verifrt.Assert(err != nil, "C28.block-map.changing-"+what+"-makes-validation-fail")
}
