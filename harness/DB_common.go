package isaacdatabase

import (
	"io"

	"github.com/pkg/errors"
	"github.com/spikeekips/mitum/base"
	"github.com/spikeekips/mitum/isaac"
	leveldbstorage "github.com/spikeekips/mitum/storage/leveldb"
	"github.com/spikeekips/mitum/util"
	"github.com/spikeekips/mitum/util/encoder"
	"github.com/spikeekips/mitum/util/hint"
	"github.com/spikeekips/mitum/util/valuehash"
	"github.com/spikeekips/mitum/util/verifrt"
	leveldbStorage "github.com/syndtr/goleveldb/leveldb/storage"
)

// Common world of C19 and C21: the real database stack of isaac/database
//
//	LeveldbBlockWrite -> TempLeveldb -> Center (temps) -> LeveldbPermanent
//
// over ONE leveldb storage (the goleveldb model of DESIGN §2.7), with the real keys, the real
// frame headers, the real prefix storages and batches. Harness types are only
//   - the body encoder (numbers the marshalled objects and hands them back on decode: a
//     functional round trip; it is a codec, not storage, so it survives a "crash"),
//   - the values stored: block maps, states, state values, suffrage proofs, network
//     policies (small structs implementing the base interfaces; the database only reads
//     the methods given here).

// ---- harness encoder (identity round trip, 2-byte object numbers) ----

type verifDBEnc struct {
	ht   hint.Hint
	objs []interface{}
}

func (e *verifDBEnc) Hint() hint.Hint                { return e.ht }
func (e *verifDBEnc) Add(encoder.DecodeDetail) error { return nil }
func (e *verifDBEnc) AddHinter(hint.Hinter) error    { return nil }
func (e *verifDBEnc) Unmarshal([]byte, interface{}) error {
	return errors.Errorf("not supported")
}
func (e *verifDBEnc) StreamEncoder(io.Writer) util.StreamEncoder { return nil }
func (e *verifDBEnc) StreamDecoder(io.Reader) util.StreamDecoder { return nil }
func (e *verifDBEnc) Marshal(v interface{}) ([]byte, error) {
	e.objs = append(e.objs, v)
	n := len(e.objs) - 1
	return []byte{byte(n >> 8), byte(n)}, nil
}

func (e *verifDBEnc) Decode(b []byte) (interface{}, error) {
	if len(b) != 2 {
		return nil, errors.Errorf("unknown object")
	}
	n := int(b[0])<<8 | int(b[1])
	if n >= len(e.objs) {
		return nil, errors.Errorf("unknown object")
	}
	return e.objs[n], nil
}

func (e *verifDBEnc) DecodeWithHint(b []byte, _ hint.Hint) (interface{}, error) { return e.Decode(b) }
func (e *verifDBEnc) DecodeWithHintType(b []byte, _ hint.Type) (interface{}, error) {
	return e.Decode(b)
}
func (e *verifDBEnc) DecodeWithFixedHintType(string, int) (interface{}, error) {
	return nil, errors.Errorf("not supported")
}
func (e *verifDBEnc) DecodeSlice([]byte) ([]interface{}, error) {
	return nil, errors.Errorf("not supported")
}

// ---- harness values ----

type verifDBManifest struct {
	base.Manifest // not used: the database only reads the methods below
	height        base.Height
	h             util.Hash
	suffrage      util.Hash
}

func (m *verifDBManifest) Height() base.Height  { return m.height }
func (m *verifDBManifest) Hash() util.Hash      { return m.h }
func (m *verifDBManifest) Suffrage() util.Hash  { return m.suffrage }
func (m *verifDBManifest) IsValid([]byte) error { return nil }

type verifDBMap struct {
	base.BlockMap // not used: the database only reads Manifest()
	m             *verifDBManifest
}

func (m *verifDBMap) Manifest() base.Manifest { return m.m }
func (m *verifDBMap) IsValid([]byte) error    { return nil }

type verifDBSufValue struct {
	base.SuffrageNodesStateValue // not used: the database only reads Height()
	h                            base.Height
}

func (v *verifDBSufValue) Height() base.Height  { return v.h }
func (v *verifDBSufValue) HashBytes() []byte    { return []byte{0x51, byte(v.h)} }
func (v *verifDBSufValue) IsValid([]byte) error { return nil }

type verifDBPolicy struct {
	base.NetworkPolicy // not used: the database hands the policy through
	id                 int
}

func (p *verifDBPolicy) HashBytes() []byte    { return []byte{0x52, byte(p.id)} }
func (p *verifDBPolicy) IsValid([]byte) error { return nil }

type verifDBPolicyValue struct {
	base.NetworkPolicyStateValue // not used
	p                            *verifDBPolicy
}

func (v *verifDBPolicyValue) Policy() base.NetworkPolicy { return v.p }
func (v *verifDBPolicyValue) HashBytes() []byte          { return v.p.HashBytes() }
func (v *verifDBPolicyValue) IsValid([]byte) error       { return nil }

type verifDBPlainValue struct{ b byte }

func (v verifDBPlainValue) HashBytes() []byte    { return []byte{0x53, v.b} }
func (v verifDBPlainValue) IsValid([]byte) error { return nil }

type verifDBState struct {
	base.State // not used: the database only reads the methods below
	key        string
	height     base.Height
	value      base.StateValue
	h          util.Hash
	ops        []util.Hash
}

func (s *verifDBState) Key() string             { return s.key }
func (s *verifDBState) Height() base.Height     { return s.height }
func (s *verifDBState) Value() base.StateValue  { return s.value }
func (s *verifDBState) Hash() util.Hash         { return s.h }
func (s *verifDBState) Operations() []util.Hash { return s.ops }
func (s *verifDBState) IsValid([]byte) error    { return nil }

type verifDBProof struct {
	base.SuffrageProof // not used: the database only reads the methods below
	m                  *verifDBMap
	st                 *verifDBState
}

func (p *verifDBProof) Map() base.BlockMap   { return p.m }
func (p *verifDBProof) State() base.State    { return p.st }
func (p *verifDBProof) IsValid([]byte) error { return nil }
func (p *verifDBProof) SuffrageHeight() base.Height {
	return p.st.value.(*verifDBSufValue).h
}

// ---- a block of the model chain ----

type verifDBBlock struct {
	height base.Height
	mp     *verifDBMap
	states []*verifDBState // includes the suffrage / policy states when the block has them
	ops    []util.Hash     // known operations of the block
	sufst  *verifDBState   // nil: the block does not change the suffrage
	proof  *verifDBProof   // != nil exactly when sufst != nil
	policy *verifDBPolicy  // nil: the block does not change the network policy
}

// verifDBNewBlock builds block number height. Shape: sufheight >= 0 gives it a suffrage state of
// that suffrage height (and the proof); policy adds a network policy state; keys are the plain
// state keys it sets (one byte each, key string "s"+byte). Every state carries one in-state
// operation, the block one known operation per state (all hashes distinct per block and state).
func verifDBNewBlock(height base.Height, gen int, sufheight int, policy bool, keys []byte) *verifDBBlock {
	hb := byte(height)<<4 | byte(gen) // gen: distinguishes a block written again at a height after a removal
	mf := &verifDBManifest{height: height, h: valuehash.NewBytes([]byte{0xb0, hb})}
	blk := &verifDBBlock{height: height, mp: &verifDBMap{m: mf}}
	n := byte(0)
	add := func(key string, v base.StateValue) *verifDBState {
		st := &verifDBState{
			key: key, height: height, value: v,
			h:   valuehash.NewBytes([]byte{0xa0, hb, n}),
			ops: []util.Hash{valuehash.NewBytes([]byte{0xc0, hb, n})},
		}
		blk.states = append(blk.states, st)
		blk.ops = append(blk.ops, valuehash.NewBytes([]byte{0xd0, hb, n}))
		n++
		return st
	}
	if sufheight >= 0 {
		blk.sufst = add(isaac.SuffrageStateKey, &verifDBSufValue{h: base.Height(sufheight)})
		mf.suffrage = blk.sufst.h
		blk.proof = &verifDBProof{m: blk.mp, st: blk.sufst}
	}
	if policy {
		blk.policy = &verifDBPolicy{id: int(hb)}
		add(isaac.NetworkPolicyStateKey, &verifDBPolicyValue{p: blk.policy})
	}
	for _, k := range keys {
		add("s"+string([]byte{k}), verifDBPlainValue{b: hb})
	}
	return blk
}

// ---- the stack ----

type verifDBWorld struct {
	st        *leveldbstorage.Storage
	enc       *verifDBEnc
	encs      *encoder.Encoders
	perm      *LeveldbPermanent
	center    *Center
	cachesize int
	wcache    int // state cache size of the block write databases (0: cachesize)
}

func verifDBNewWorld(cachesize int) *verifDBWorld {
	st, err := leveldbstorage.NewStorage(leveldbStorage.NewMemStorage(), nil)
	verifrt.Assert(err == nil, "DB.harness.storage-opens")
	enc := &verifDBEnc{ht: hint.MustNewHint("verif-enc-v0.0.1")}
	w := &verifDBWorld{st: st, enc: enc, encs: encoder.NewEncoders(enc, enc), cachesize: cachesize}
	w.open()
	return w
}

// open is what launch/p_storage.go does at startup: load the permanent database, then the
// Center (which loads the merged temps above the permanent database's last height).
func (w *verifDBWorld) open() {
	perm, err := NewLeveldbPermanent(w.st, w.encs, w.enc, w.cachesize)
	verifrt.Assert(err == nil, "DB.harness.permanent-opens")
	w.perm = perm
	center, err := NewCenter(w.st, w.encs, w.enc, perm, func(height base.Height) (isaac.BlockWriteDatabase, error) {
		return NewLeveldbBlockWrite(height, w.st, w.encs, w.enc), nil
	})
	verifrt.Assert(err == nil, "DB.harness.center-opens")
	w.center = center
}

// writeBlock writes blk as isaac/block.Writer does (importer=false: states and operations one
// by one while the proposal is processed, Write, then block map and suffrage proof, then the
// merge) or as isaac/block.BlockImporter does (importer=true: block map first, then all
// states / operations, the suffrage proof, Write; the merge follows).
func (w *verifDBWorld) writeBlock(blk *verifDBBlock, importer bool) error {
	i, err := w.center.NewBlockWriteDatabase(blk.height)
	if err != nil {
		return err
	}
	bw := i.(*LeveldbBlockWrite)
	if w.wcache > 0 {
		bw.SetStateCache(util.NewLFUGCache[string, [2]interface{}](w.wcache))
	} else if w.cachesize > 0 {
		bw.SetStateCache(util.NewLFUGCache[string, [2]interface{}](w.cachesize))
	}
	if importer {
		if err := bw.SetBlockMap(blk.mp); err != nil {
			return err
		}
		if err := bw.SetOperations(blk.ops); err != nil {
			return err
		}
		sts := make([]base.State, len(blk.states))
		for i := range blk.states {
			sts[i] = blk.states[i]
		}
		if err := bw.SetStates(sts); err != nil {
			return err
		}
		if blk.proof != nil {
			if err := bw.SetSuffrageProof(blk.proof); err != nil {
				return err
			}
		}
		if err := bw.Write(); err != nil {
			return err
		}
	} else {
		for i := range blk.states {
			if err := bw.SetOperations([]util.Hash{blk.ops[i]}); err != nil {
				return err
			}
			if err := bw.SetStates([]base.State{blk.states[i]}); err != nil {
				return err
			}
		}
		if err := bw.Write(); err != nil {
			return err
		}
		if err := bw.SetBlockMap(blk.mp); err != nil {
			return err
		}
		if st := bw.SuffrageState(); st != nil {
			verifrt.Assert(blk.proof != nil && st == base.State(blk.sufst), "DB.harness.block-write-knows-its-suffrage-state")
			if err := bw.SetSuffrageProof(blk.proof); err != nil {
				return err
			}
		}
	}
	return w.center.MergeBlockWriteDatabase(bw)
}

// ---- the model: "simply keeps all committed blocks" ----

// verifDBCheckReads compares every read of the Center with the model holding exactly the blocks
// chain (heights 0..len-1). all lists every block ever built (committed or not): their keys,
// operations and heights are the queries. lbl prefixes the assertion labels.
//
// The reads come in groups so that a harness can compare one group per path (a wrong answer in one
// group then does not hide the other groups): verifDBGroupBasic = block maps, states, operations,
// policy; verifDBGroupBySuffrageHeight = LastSuffrageProof, SuffrageProof(suffrage height);
// verifDBGroupByBlockHeight = SuffrageProofByBlockHeight; verifDBGroupBytes = LastBlockMapBytes,
// BlockMapBytes, StateBytes, LastSuffrageProofBytes; verifDBGroupBytesBySuffrageHeight =
// SuffrageProofBytes(suffrage height) (both in verifDBCheckBytesReads).
const (
	verifDBGroupBasic = 1 << iota
	verifDBGroupBySuffrageHeight
	verifDBGroupByBlockHeight
	verifDBGroupBytes
	verifDBGroupBytesBySuffrageHeight
	verifDBNGroups  = 5
	verifDBGroupAll = 1<<verifDBNGroups - 1
)

func verifDBCheckReads(db *Center, chain []*verifDBBlock, all []*verifDBBlock, lbl string) {
	verifDBCheckReadGroups(db, chain, all, lbl, verifDBGroupAll)
}

func verifDBCheckReadGroups(db *Center, chain []*verifDBBlock, all []*verifDBBlock, lbl string, groups int) {
	last := base.Height(len(chain) - 1)
	maxh := base.Height(-1)
	for _, b := range all {
		if b.height > maxh {
			maxh = b.height
		}
	}
	if groups&verifDBGroupBasic != 0 {
		verifDBCheckBasic(db, chain, all, lbl, last, maxh)
	}
	if groups&verifDBGroupBySuffrageHeight != 0 {
		verifDBCheckBySuffrageHeight(db, chain, all, lbl)
	}
	if groups&verifDBGroupByBlockHeight != 0 {
		verifDBCheckByBlockHeight(db, chain, lbl, last, maxh)
	}
}

func verifDBCheckBasic(db *Center, chain []*verifDBBlock, all []*verifDBBlock, lbl string, last, maxh base.Height) {
	// last block map
	m, found, err := db.LastBlockMap()
	verifrt.Assert(err == nil, lbl+".last-block-map.no-error")
	if len(chain) < 1 {
		verifrt.Assert(!found, lbl+".last-block-map.none-when-no-block-is-committed")
	} else {
		verifrt.Assert(found && m == base.BlockMap(chain[last].mp), lbl+".last-block-map.is-the-map-of-the-last-committed-block")
	}

	// block maps by height (one above the highest height ever built included)
	for h := base.Height(0); h <= maxh+1; h++ {
		m, found, err := db.BlockMap(h)
		verifrt.Assert(err == nil, lbl+".block-map.no-error")
		if h <= last {
			verifrt.Assert(found && m == base.BlockMap(chain[h].mp), lbl+".block-map.of-a-committed-height-is-its-map")
		} else {
			verifrt.Assert(!found, lbl+".block-map.not-found-above-the-last-committed-block")
		}
	}

	// states, operations
	seenkey := map[string]bool{}
	for _, b := range all {
		for i, st := range b.states {
			if !seenkey[st.key] {
				seenkey[st.key] = true
				var want *verifDBState
				for _, c := range chain {
					for _, cst := range c.states {
						if cst.key == st.key {
							want = cst
						}
					}
				}
				got, found, err := db.State(st.key)
				verifrt.Assert(err == nil, lbl+".state.no-error")
				if want == nil {
					verifrt.Assert(!found, lbl+".state.not-found-when-no-committed-block-set-the-key")
				} else {
					verifrt.Assert(found && got == base.State(want), lbl+".state.is-the-one-of-the-latest-committed-block-setting-the-key")
				}
			}
			committed := int(b.height) < len(chain) && chain[b.height] == b
			found, err := db.ExistsInStateOperation(st.ops[0])
			verifrt.Assert(err == nil && found == committed, lbl+".in-state-operation.known-exactly-when-its-block-is-committed")
			found, err = db.ExistsKnownOperation(b.ops[i])
			verifrt.Assert(err == nil && found == committed, lbl+".known-operation.known-exactly-when-its-block-is-committed")
		}
	}

	// network policy
	var lastpolicy *verifDBPolicy
	for _, c := range chain {
		if c.policy != nil {
			lastpolicy = c.policy
		}
	}
	pol := db.LastNetworkPolicy()
	if lastpolicy == nil {
		verifrt.Assert(pol == nil, lbl+".last-network-policy.none-when-no-committed-block-set-one")
	} else {
		verifrt.Assert(pol == base.NetworkPolicy(lastpolicy), lbl+".last-network-policy.is-the-one-of-the-latest-committed-block-setting-it")
	}
}

func verifDBCheckBySuffrageHeight(db *Center, chain []*verifDBBlock, all []*verifDBBlock, lbl string) {
	var lastproof *verifDBProof
	maxsh := base.Height(-1)
	for _, b := range all {
		if b.proof != nil && b.proof.SuffrageHeight() > maxsh {
			maxsh = b.proof.SuffrageHeight()
		}
	}
	for _, c := range chain {
		if c.proof != nil {
			lastproof = c.proof
		}
	}
	p, found, err := db.LastSuffrageProof()
	verifrt.Assert(err == nil, lbl+".last-suffrage-proof.no-error")
	if lastproof == nil {
		verifrt.Assert(!found, lbl+".last-suffrage-proof.none-when-no-committed-block-has-one")
	} else {
		verifrt.Assert(found && p == base.SuffrageProof(lastproof), lbl+".last-suffrage-proof.is-the-one-of-the-latest-committed-suffrage-block")
	}
	for sh := base.Height(0); sh <= maxsh+1; sh++ {
		var want *verifDBProof
		for _, c := range chain {
			if c.proof != nil && c.proof.SuffrageHeight() == sh {
				want = c.proof
			}
		}
		p, found, err := db.SuffrageProof(sh)
		verifrt.Assert(err == nil, lbl+".suffrage-proof-by-suffrage-height.no-error")
		if want == nil {
			verifrt.Assert(!found, lbl+".suffrage-proof-by-suffrage-height.not-found-for-a-suffrage-height-no-committed-block-has")
		} else {
			verifrt.Assert(found && p == base.SuffrageProof(want), lbl+".suffrage-proof-by-suffrage-height.is-the-committed-proof-of-that-suffrage-height")
		}
	}
}

func verifDBCheckByBlockHeight(db *Center, chain []*verifDBBlock, lbl string, last, maxh base.Height) {
	for h := base.Height(0); h <= maxh+1; h++ {
		var want *verifDBProof
		if h <= last {
			for _, c := range chain[:h+1] {
				if c.proof != nil {
					want = c.proof
				}
			}
		}
		p, found, err := db.SuffrageProofByBlockHeight(h)
		verifrt.Assert(err == nil, lbl+".suffrage-proof-by-block-height.no-error")
		if want == nil {
			verifrt.Assert(!found, lbl+".suffrage-proof-by-block-height.not-found-above-the-last-committed-block")
		} else {
			verifrt.Assert(found && p == base.SuffrageProof(want), lbl+".suffrage-proof-by-block-height.is-the-latest-committed-proof-at-or-below-the-height")
		}
	}

}

// verifDBCheckBytesReads: the ...Bytes variants of the reads (what the network handlers serve):
// found agrees with the model and the body decodes to the model's object.
func verifDBCheckBytesReads(w *verifDBWorld, chain []*verifDBBlock, all []*verifDBBlock, lbl string, groups int) {
	if groups&verifDBGroupBytes != 0 {
		verifDBCheckBytesBasic(w, chain, all, lbl)
	}
	if groups&verifDBGroupBytesBySuffrageHeight != 0 {
		verifDBCheckBytesBySuffrageHeight(w, chain, all, lbl)
	}
}

func verifDBBodyIs(w *verifDBWorld, body []byte, want interface{}) bool {
	got, err := w.enc.Decode(body)
	return err == nil && got == want
}

func verifDBCheckBytesBasic(w *verifDBWorld, chain []*verifDBBlock, all []*verifDBBlock, lbl string) {
	db := w.center
	last := base.Height(len(chain) - 1)
	is := func(body []byte, want interface{}) bool { return verifDBBodyIs(w, body, want) }

	_, _, body, found, err := db.LastBlockMapBytes()
	verifrt.Assert(err == nil, lbl+".last-block-map-bytes.no-error")
	if len(chain) < 1 {
		verifrt.Assert(!found, lbl+".last-block-map-bytes.none-when-no-block-is-committed")
	} else {
		verifrt.Assert(found && is(body, chain[last].mp), lbl+".last-block-map-bytes.decode-to-the-map-of-the-last-committed-block")
	}

	maxh := base.Height(-1)
	for _, b := range all {
		if b.height > maxh {
			maxh = b.height
		}
	}
	for h := base.Height(0); h <= maxh+1; h++ {
		_, _, body, found, err := db.BlockMapBytes(h)
		verifrt.Assert(err == nil, lbl+".block-map-bytes.no-error")
		if h <= last {
			verifrt.Assert(found && is(body, chain[h].mp), lbl+".block-map-bytes.of-a-committed-height-decode-to-its-map")
		} else {
			verifrt.Assert(!found, lbl+".block-map-bytes.not-found-above-the-last-committed-block")
		}
	}

	seenkey := map[string]bool{}
	for _, b := range all {
		for _, st := range b.states {
			if seenkey[st.key] {
				continue
			}
			seenkey[st.key] = true
			var want *verifDBState
			for _, c := range chain {
				for _, cst := range c.states {
					if cst.key == st.key {
						want = cst
					}
				}
			}
			_, _, body, found, err := db.StateBytes(st.key)
			verifrt.Assert(err == nil, lbl+".state-bytes.no-error")
			if want == nil {
				verifrt.Assert(!found, lbl+".state-bytes.not-found-when-no-committed-block-set-the-key")
			} else {
				verifrt.Assert(found && is(body, want), lbl+".state-bytes.decode-to-the-state-of-the-latest-committed-block-setting-the-key")
			}
		}
	}

	var lastproof *verifDBProof
	for _, c := range chain {
		if c.proof != nil {
			lastproof = c.proof
		}
	}
	_, _, body, found, _, err = db.LastSuffrageProofBytes()
	verifrt.Assert(err == nil, lbl+".last-suffrage-proof-bytes.no-error")
	if lastproof == nil {
		verifrt.Assert(!found, lbl+".last-suffrage-proof-bytes.none-when-no-committed-block-has-one")
	} else {
		verifrt.Assert(found && is(body, lastproof), lbl+".last-suffrage-proof-bytes.decode-to-the-proof-of-the-latest-committed-suffrage-block")
	}
}

func verifDBCheckBytesBySuffrageHeight(w *verifDBWorld, chain []*verifDBBlock, all []*verifDBBlock, lbl string) {
	db := w.center
	maxsh := base.Height(-1)
	for _, b := range all {
		if b.proof != nil && b.proof.SuffrageHeight() > maxsh {
			maxsh = b.proof.SuffrageHeight()
		}
	}
	for sh := base.Height(0); sh <= maxsh+1; sh++ {
		var want *verifDBProof
		for _, c := range chain {
			if c.proof != nil && c.proof.SuffrageHeight() == sh {
				want = c.proof
			}
		}
		_, _, body, found, err := db.SuffrageProofBytes(sh)
		verifrt.Assert(err == nil, lbl+".suffrage-proof-bytes-by-suffrage-height.no-error")
		if want == nil {
			verifrt.Assert(!found, lbl+".suffrage-proof-bytes-by-suffrage-height.not-found-for-a-suffrage-height-no-committed-block-has")
		} else {
			verifrt.Assert(found && verifDBBodyIs(w, body, want), lbl+".suffrage-proof-bytes-by-suffrage-height.decode-to-the-committed-proof-of-that-suffrage-height")
		}
	}
}
