package quicstreamheader

import (
	"bytes"
	"context"
	"io"

	"github.com/pkg/errors"
	"github.com/spikeekips/mitum/network/quicstream"
	"github.com/spikeekips/mitum/util"
	"github.com/spikeekips/mitum/util/encoder"
	"github.com/spikeekips/mitum/util/hint"
	"github.com/spikeekips/mitum/util/verifrt"
)

// ---------------------------------------------------------------------------
// C30 Stream header protocol round-trips and survives hostile peers.
//
// The header codec (JSON) is outside the claim: the harness encoder marshals a harness
// header to its opaque payload bytes and decodes a payload by its first byte
// (request header / response header / a hinter that is no header / nil / error), so
// that the outcome of Decode on hostile bytes is chosen by the solver.

// ---- harness header types and encoder

type verifC30Request struct {
	BaseRequestHeader
	raw []byte
}

type verifC30Response struct {
	BaseResponseHeader
	raw []byte
}

// a decodable hinter that is not a quicstream header
type verifC30Foreign struct {
	hint.BaseHinter
}

const (
	verifC30TagError    = 0
	verifC30TagRequest  = 1
	verifC30TagResponse = 2
	verifC30TagForeign  = 3
	verifC30TagNil      = 4
)

type verifC30Encoder struct {
	ht     hint.Hint
	reqht  hint.Hint
	resht  hint.Hint
	prefix quicstream.HandlerPrefix
}

func (e *verifC30Encoder) Hint() hint.Hint                   { return e.ht }
func (*verifC30Encoder) Add(encoder.DecodeDetail) error      { return nil }
func (*verifC30Encoder) AddHinter(hint.Hinter) error         { return nil }
func (*verifC30Encoder) Unmarshal([]byte, interface{}) error { return errors.Errorf("not used") }
func (*verifC30Encoder) StreamEncoder(io.Writer) util.StreamEncoder {
	return nil
}
func (*verifC30Encoder) StreamDecoder(io.Reader) util.StreamDecoder {
	return nil
}
func (*verifC30Encoder) DecodeWithHint([]byte, hint.Hint) (interface{}, error) {
	return nil, errors.Errorf("not used")
}
func (*verifC30Encoder) DecodeWithHintType([]byte, hint.Type) (interface{}, error) {
	return nil, errors.Errorf("not used")
}
func (*verifC30Encoder) DecodeWithFixedHintType(string, int) (interface{}, error) {
	return nil, errors.Errorf("not used")
}
func (*verifC30Encoder) DecodeSlice([]byte) ([]interface{}, error) {
	return nil, errors.Errorf("not used")
}

func (*verifC30Encoder) Marshal(v interface{}) ([]byte, error) {
	switch h := v.(type) {
	case verifC30Request:
		return h.raw, nil
	case verifC30Response:
		return h.raw, nil
	default:
		return nil, errors.Errorf("unknown header type")
	}
}

func (e *verifC30Encoder) request(raw []byte) verifC30Request {
	return verifC30Request{BaseRequestHeader: NewBaseRequestHeader(e.reqht, e.prefix), raw: raw}
}

func (e *verifC30Encoder) response(raw []byte) verifC30Response {
	ok := raw[0]&8 != 0
	var err error
	if !ok {
		err = errors.Errorf("peer says no")
	}
	return verifC30Response{BaseResponseHeader: NewBaseResponseHeader(e.resht, ok, err), raw: raw}
}

// Decode: what a decoder may answer for the bytes of a peer (like the JSON encoder: nil
// for empty input, an error, or whatever hinter the bytes name).
func (e *verifC30Encoder) Decode(b []byte) (interface{}, error) {
	if len(b) < 1 {
		return nil, nil
	}
	switch b[0] & 7 {
	case verifC30TagRequest:
		return e.request(b), nil
	case verifC30TagResponse:
		return e.response(b), nil
	case verifC30TagForeign:
		return verifC30Foreign{BaseHinter: hint.NewBaseHinter(e.ht)}, nil
	case verifC30TagNil:
		return nil, nil
	default:
		return nil, errors.Errorf("decode failed")
	}
}

const verifC30EncoderHint = "ve-v0.0.1"

type verifC30Env struct {
	enc  *verifC30Encoder
	encs *encoder.Encoders
}

func verifC30NewEnv() *verifC30Env {
	var prefix quicstream.HandlerPrefix
	for i := range prefix {
		prefix[i] = byte(0xa0 + i)
	}
	enc := &verifC30Encoder{
		ht:     hint.MustNewHint(verifC30EncoderHint),
		reqht:  hint.MustNewHint("vq-v0.0.1"),
		resht:  hint.MustNewHint("vr-v0.0.1"),
		prefix: prefix,
	}
	return &verifC30Env{enc: enc, encs: encoder.NewEncoders(enc, enc)}
}

// ---- in-memory stream ends

// verifC30Reader delivers data in arbitrary chunks (at most `splits` short reads), and may or
// may not report io.EOF together with the last bytes. If the writing side has not closed the
// stream, a read past the written bytes would wait for ever: it is recorded in `starved`.
type verifC30Reader struct {
	data        []byte
	pos         int
	splits      int
	eofTogether bool
	open        bool // writer has not closed
	starved     bool
	// hostile streams are produced on demand, so that the choices of a later part of the stream
	// are only explored on paths that read that far: grow appends the next part and sets ended
	grow     func()
	ended    bool
	eofDrawn bool
}

func (r *verifC30Reader) Read(p []byte) (int, error) {
	for r.pos == len(r.data) && r.grow != nil && !r.ended {
		r.grow()
	}
	rem := len(r.data) - r.pos
	if rem == 0 {
		if r.open {
			r.starved = true
		}
		return 0, io.EOF
	}
	n := len(p)
	if n > rem {
		n = rem
	}
	if n > 1 && r.splits > 0 {
		c := verifrt.NondetChoice("chunk", n) // 0 => full, k => k bytes
		if c != 0 {
			n = c
			r.splits--
		}
	}
	copy(p, r.data[r.pos:r.pos+n])
	r.pos += n
	if r.pos == len(r.data) && !r.open && (r.grow == nil || r.ended) {
		if r.grow != nil && !r.eofDrawn {
			r.eofDrawn = true
			r.eofTogether = verifrt.NondetChoice("eof", 2) == 1
		}
		if r.eofTogether {
			return n, io.EOF
		}
	}
	return n, nil
}

type verifC30Writer struct {
	buf    bytes.Buffer
	closed bool
}

func (w *verifC30Writer) Write(p []byte) (int, error) {
	if w.closed {
		return 0, errors.Errorf("write on closed stream")
	}
	return w.buf.Write(p)
}

func (w *verifC30Writer) Close() error {
	w.closed = true
	return nil
}

// verifC30ReadAll drains a body reader with a small buffer (nil body = no bytes).
func verifC30ReadAll(body io.Reader, max int) ([]byte, error) {
	if body == nil {
		return nil, nil
	}
	var out []byte
	p := make([]byte, 4)
	for i := 0; i < max; i++ {
		n, err := body.Read(p)
		out = append(out, p[:n]...)
		if err != nil {
			if errors.Is(err, io.EOF) {
				return out, nil
			}
			return out, err
		}
	}
	return out, errors.Errorf("body does not end")
}

func verifC30BE(b []byte) uint64 {
	var v uint64
	for i := 0; i < 8; i++ {
		v = v<<8 | uint64(b[i])
	}
	return v
}

var verifC30BodyTypes = []BodyType{EmptyBodyType, FixedLengthBodyType, StreamBodyType}

// ---- round trip

type verifC30Body struct {
	kind int // 0 no body message, 1 empty, 2 fixed length, 3 stream
	data []byte
}

func verifC30NondetBody(pfx string, withNone bool) verifC30Body {
	B := verifrt.Bound("B", 2, 3)
	var b verifC30Body
	if withNone {
		b.kind = verifrt.NondetChoice(pfx+".kind", 4)
	} else {
		b.kind = 1 + verifrt.NondetChoice(pfx+".kind", 3)
	}
	if b.kind >= 2 {
		l := 0
		if verifrt.Bound("Ball", 0, 1) == 1 {
			l = verifrt.NondetChoice(pfx+".len", B+1)
		} else if verifrt.NondetChoice(pfx+".len", 2) == 1 {
			l = B
		}
		b.data = verifrt.NondetBytes(pfx+".data", l)
	}
	return b
}

// write sends the body message like a caller of WriteBody does.
func (b verifC30Body) write(broker *baseBroker, pfx string) {
	if b.kind == 0 {
		return
	}
	var r io.Reader
	var l uint64
	switch b.kind {
	case 2:
		r = bytes.NewReader(b.data)
		l = uint64(len(b.data))
	case 3:
		r = bytes.NewReader(b.data)
	}
	err := broker.WriteBody(context.Background(), verifC30BodyTypes[b.kind-1], l, r)
	verifrt.Assert(err == nil, pfx+".write-body-succeeds")
}

// read receives the body message and compares it with what was written.
func (b verifC30Body) read(broker *baseBroker, pfx string) {
	if b.kind == 0 {
		return
	}
	bt, bl, body, _, res, err := broker.ReadBody(context.Background())
	verifrt.Reach(pfx + ".body-read")
	verifrt.Assert(err == nil, pfx+".read-body-succeeds")
	if err != nil {
		return
	}
	verifrt.Assert(res == nil, pfx+".body-is-not-read-as-a-response-head")
	verifrt.Assert(bt == verifC30BodyTypes[b.kind-1], pfx+".body-kind-read-back-identically")
	if b.kind == 2 {
		verifrt.Assert(bl == uint64(len(b.data)), pfx+".body-length-read-back-identically")
	}
	got, err := verifC30ReadAll(body, len(b.data)+2)
	verifrt.Assert(err == nil, pfx+".body-bytes-readable")
	verifrt.Assert(bytes.Equal(got, b.data), pfx+".body-bytes-read-back-identically")
}

// verifC30NondetHeaderBytes: header payload = tag byte (concrete: it only selects what the harness
// decoder answers; bit 3 = ok flag of a response) followed by symbolic bytes.
func verifC30NondetHeaderBytes(name string, tag byte) []byte {
	H := verifrt.Bound("H", 2, 3)
	l := H
	if verifrt.Bound("Hall", 0, 0) == 1 {
		l = 1 + verifrt.NondetChoice(name+".len", H)
	}
	first := tag
	if tag == verifC30TagResponse && verifrt.NondetChoice(name+".ok", 2) == 1 {
		first |= 8
	}
	return append([]byte{first}, verifrt.NondetBytes(name, l-1)...)
}

func verifC30NewReader(data []byte, open bool) *verifC30Reader {
	r := &verifC30Reader{data: data, splits: verifrt.Bound("splits", 1, 2), open: open}
	if !open {
		r.eofTogether = verifrt.NondetChoice("eof", 2) == 1
	}
	return r
}

// VerifC30RoundTripRequest: client writes request head (+ body); the handler side reads the
// prefix, the request head and the body from an arbitrarily chunked stream.
func VerifC30RoundTripRequest() {
	env := verifC30NewEnv()
	ctx := context.Background()

	cw := &verifC30Writer{}
	client := NewClientBroker(env.encs, env.enc, bytes.NewReader(nil), cw)
	req := env.enc.request(verifC30NondetHeaderBytes("reqhead", verifC30TagRequest))
	err := client.WriteRequestHead(ctx, req)
	verifrt.Assert(err == nil, "C30.request.write-head-succeeds")
	body := verifC30NondetBody("reqbody", true)
	body.write(client.baseBroker, "C30.request")
	verifrt.Assert(cw.closed == (body.kind == 3), "C30.request.stream-body-closes-the-writing-side-only")

	// the prefix is read by quicstream's PrefixHandler before the broker exists: unchunked here
	sr := &verifC30Reader{data: cw.buf.Bytes(), open: true}
	server := NewHandlerBroker(env.encs, nil, sr, &verifC30Writer{})
	prefix, err := quicstream.VerifC30ReadPrefix(ctx, sr)
	verifrt.Assert(err == nil && prefix == env.enc.prefix, "C30.request.prefix-read-back-identically")
	pos := sr.pos
	*sr = *verifC30NewReader(cw.buf.Bytes(), !cw.closed)
	sr.pos = pos
	h, err := server.ReadRequestHead(ctx)
	verifrt.Reach("C30.request.head-read")
	verifrt.Assert(err == nil, "C30.request.read-head-succeeds")
	if err != nil {
		return
	}
	got, ok := h.(verifC30Request)
	verifrt.Assert(ok, "C30.request.head-read-back-as-request-header")
	if !ok {
		return
	}
	verifrt.Assert(bytes.Equal(got.raw, req.raw) && got.Handler() == req.Handler(), "C30.request.head-read-back-identically")
	verifrt.Assert(server.Encoder == env.enc, "C30.request.encoder-of-the-head-selected")
	body.read(server.baseBroker, "C30.request")
	verifrt.Assert(!sr.starved, "C30.request.reader-never-waits-for-bytes-that-were-not-written")
	verifrt.Assert(sr.pos == len(sr.data), "C30.request.all-written-bytes-consumed")
}

// VerifC30LargeHead: a head whose encoding is large (around and above 2^15 bytes, e.g. a long
// error message or field) is read back identically like any other head.
func VerifC30LargeHead() {
	env := verifC30NewEnv()
	ctx := context.Background()
	sizes := []int{32767, 32768, 40000, 70000}
	size := sizes[verifrt.NondetChoice("headsize", verifrt.Bound("largeheads", 3, 4))]
	raw := make([]byte, size)
	raw[0] = verifC30TagRequest
	raw[size-1] = verifrt.NondetU8("lastbyte")
	cw := &verifC30Writer{}
	client := NewClientBroker(env.encs, env.enc, bytes.NewReader(nil), cw)
	req := env.enc.request(raw)
	verifrt.Assert(client.WriteRequestHead(ctx, req) == nil, "C30.largehead.write-head-succeeds")
	sr := &verifC30Reader{data: cw.buf.Bytes(), open: true}
	server := NewHandlerBroker(env.encs, nil, sr, &verifC30Writer{})
	prefix, err := quicstream.VerifC30ReadPrefix(ctx, sr)
	verifrt.Assert(err == nil && prefix == env.enc.prefix, "C30.largehead.prefix-read-back-identically")
	h, err := server.ReadRequestHead(ctx)
	verifrt.Reach("C30.largehead.head-read")
	verifrt.Assert(err == nil, "C30.largehead.read-head-succeeds(a-written-head-is-read-back-whatever-its-size)")
	if err != nil {
		return
	}
	got, ok := h.(verifC30Request)
	verifrt.Assert(ok && bytes.Equal(got.raw, raw), "C30.largehead.head-read-back-identically")
}

// VerifC30RoundTripResponse: the handler side (after a request head) writes response head
// (+ body); the client reads them from an arbitrarily chunked stream, either with
// ReadResponseHead or, where it expects a body, with ReadBody (which hands out the head).
func VerifC30RoundTripResponse() {
	env := verifC30NewEnv()
	ctx := context.Background()

	// request phase, unchunked (covered by VerifC30RoundTripRequest); it selects the handler's encoder
	cw := &verifC30Writer{}
	sw := &verifC30Writer{}
	cr := &verifC30Reader{open: true}
	client := NewClientBroker(env.encs, env.enc, cr, cw)
	req := env.enc.request([]byte{verifC30TagRequest})
	verifrt.Assert(client.WriteRequestHead(ctx, req) == nil, "C30.response.write-request-head-succeeds")
	sr := &verifC30Reader{data: cw.buf.Bytes(), open: true}
	server := NewHandlerBroker(env.encs, nil, sr, sw)
	_, err := quicstream.VerifC30ReadPrefix(ctx, sr)
	verifrt.Assert(err == nil, "C30.response.prefix-read")
	_, err = server.ReadRequestHead(ctx)
	verifrt.Assert(err == nil, "C30.response.read-request-head-succeeds")
	if err != nil {
		return
	}

	res := env.enc.response(verifC30NondetHeaderBytes("reshead", verifC30TagResponse))
	err = server.WriteResponseHead(ctx, res)
	verifrt.Assert(err == nil, "C30.response.write-head-succeeds")
	body := verifC30NondetBody("resbody", true)
	body.write(server.baseBroker, "C30.response")
	verifrt.Assert(sw.closed == (body.kind == 3), "C30.response.stream-body-closes-the-writing-side-only")

	*cr = *verifC30NewReader(sw.buf.Bytes(), !sw.closed)
	var got ResponseHeader
	var genc encoder.Encoder
	if body.kind == 1 || body.kind == 3 || verifrt.NondetChoice("readvia", 2) == 0 {
		genc, got, err = client.ReadResponseHead(ctx)
	} else {
		var b io.Reader
		_, _, b, genc, got, err = client.ReadBody(ctx)
		verifrt.Assert(b == nil, "C30.response.no-body-handed-out-with-a-response-head")
	}
	verifrt.Reach("C30.response.head-read")
	verifrt.Assert(err == nil, "C30.response.read-head-succeeds")
	if err != nil {
		return
	}
	g, ok := got.(verifC30Response)
	verifrt.Assert(ok, "C30.response.head-read-back-as-response-header")
	if !ok {
		return
	}
	verifrt.Assert(bytes.Equal(g.raw, res.raw) && g.OK() == res.OK(), "C30.response.head-read-back-identically")
	verifrt.Assert(genc == env.enc, "C30.response.encoder-of-the-head-selected")
	body.read(client.baseBroker, "C30.response")
	verifrt.Assert(!cr.starved, "C30.response.reader-never-waits-for-bytes-that-were-not-written")
	verifrt.Assert(cr.pos == len(cr.data), "C30.response.all-written-bytes-consumed")
}

// ---- hostile peers

// verifC30CheckBody: ReadBody succeeded on the stream of r at offset off without handing out a
// response head: the result must be the body message that the bytes spell. (The stream of r may
// still grow while the body is drained: r.data is looked at afterwards.)
func verifC30CheckBody(r *verifC30Reader, off int, bt BodyType, bl uint64, body io.Reader, pfx string) {
	verifrt.Assert(off+2 <= len(r.data), pfx+".success-needs-data-type-and-body-type-bytes")
	if off+2 > len(r.data) {
		return
	}
	verifrt.Assert(r.data[off] == BodyDataType[0], pfx+".success-only-for-body-data-type")
	verifrt.Assert(bt[0] == r.data[off+1], pfx+".body-type-is-the-byte-of-the-stream")
	const maxReads = 64 // > any stream length here
	switch bt {
	case EmptyBodyType:
		verifrt.Reach(pfx + ".empty-body")
		verifrt.Assert(bl == 0, pfx+".empty-body-has-no-length")
		got, err := verifC30ReadAll(body, maxReads)
		verifrt.Assert(err == nil && len(got) == 0, pfx+".empty-body-has-no-bytes")
	case FixedLengthBodyType:
		verifrt.Reach(pfx + ".fixed-body")
		verifrt.Assert(off+10 <= len(r.data), pfx+".fixed-body-needs-length-field")
		if off+10 > len(r.data) {
			return
		}
		verifrt.Assert(bl == verifC30BE(r.data[off+2:]), pfx+".fixed-body-length-is-the-field-of-the-stream")
		verifrt.Assert(body != nil, pfx+".fixed-body-reader-handed-out")
		got, err := verifC30ReadAll(body, maxReads)
		rest := r.data[off+10:]
		verifrt.Assert(err == nil, pfx+".fixed-body-readable")
		verifrt.Assert(uint64(len(got)) <= bl, pfx+".fixed-body-not-longer-than-announced")
		want := rest
		if uint64(len(rest)) > bl {
			want = rest[:bl]
		}
		verifrt.Assert(bytes.Equal(got, want), pfx+".fixed-body-bytes-are-the-bytes-of-the-stream")
	case StreamBodyType:
		verifrt.Reach(pfx + ".stream-body")
		verifrt.Assert(body != nil, pfx+".stream-body-reader-handed-out")
		got, err := verifC30ReadAll(body, maxReads)
		rest := r.data[off+2:]
		verifrt.Assert(err == nil, pfx+".stream-body-readable")
		verifrt.Assert(bytes.Equal(got, rest), pfx+".stream-body-bytes-are-the-rest-of-the-stream")
	default:
		verifrt.Assert(false, pfx+".success-only-for-known-body-type")
	}
}

// VerifC30HostileBody: any bytes into ReadBody (other than a response head, see
// VerifC30HostileHead): error or the body message the bytes spell, no panic.
func VerifC30HostileBody() {
	env := verifC30NewEnv()
	L := verifrt.Bound("LB", 13, 16)
	n := verifrt.NondetChoice("len", L+1)
	stream := verifrt.NondetBytes("stream", n)
	if n > 0 {
		verifrt.Assume(stream[0] != ResponseHeaderDataType[0])
	}
	r := &verifC30Reader{data: stream, splits: verifrt.Bound("hsplits", 0, 1), eofTogether: verifrt.NondetChoice("eof", 2) == 1}
	broker := NewClientBroker(env.encs, env.enc, r, &verifC30Writer{}).baseBroker // ReadBody is baseBroker's: same for both sides
	bt, bl, body, _, res, err := broker.ReadBody(context.Background())
	verifrt.Reach("C30.hostilebody.returned")
	if err != nil {
		verifrt.Reach("C30.hostilebody.error")
		return
	}
	verifrt.Reach("C30.hostilebody.success")
	verifrt.Assert(res == nil, "C30.hostilebody.no-response-head-without-response-head-data-type")
	verifC30CheckBody(r, 0, bt, bl, body, "C30.hostilebody")
}

// (hint region, announced hint length; -1 = a length above the limit of ReadLengthed)
type verifC30HintCase struct {
	region   string
	announce int
	cuts     bool // explore every truncation of the stream (else only the full stream)
}

var verifC30HintCases = []verifC30HintCase{
	{verifC30EncoderHint, 9, true},     // the registered encoder
	{"ve-v0.0.7", 9, false},            // same type, compatible version
	{"ve-v1.0.0", 9, false},            // same type, other major version
	{"vx-v0.0.1", 9, false},            // well-formed, unknown
	{"\x00\xff-v\x00 \t\n!", 9, false}, // not a hint
	{verifC30EncoderHint, 0, false},    // empty hint
	{verifC30EncoderHint, 4, false},    // a prefix of the hint; what follows is read as the next length
	{verifC30EncoderHint, -1, false},
}

// VerifC30HostileHead: hostile bytes into ReadRequestHead / ReadResponseHead / ReadBody(head),
// followed (thorough) by ReadBody on what is left.
//
// stream = data type (symbolic) | hint length | hint region | header length | header bytes | tail,
// cut at any length. The encoder hint region is drawn from concrete cases (hint parsing of
// arbitrary strings is C31's subject); the first header byte is concrete per decoder answer
// (error, request, response, foreign hinter, nil); announced lengths are 0..bound or symbolic
// above the limit; all other bytes are symbolic.
func VerifC30HostileHead() {
	env := verifC30NewEnv()
	ctx := context.Background()
	KH := verifrt.Bound("KH", 2, 3)      // header bytes provided
	KA := verifrt.Bound("KA", 3, 4)      // announced header length <= KA, or > MaxInt32
	tail := verifrt.Bound("tail", 0, 11) // symbolic bytes after the header (a body message)

	via := verifrt.NondetChoice("via", 3)
	r := &verifC30Reader{splits: verifrt.Bound("hhsplits", 0, 0)}
	lens := []int{1, 8, 9, 8, KH}
	if tail > 0 {
		lens = append(lens, tail)
	}
	part := 0
	cuts := true
	var hc verifC30HintCase
	lengthField := func(name string, v int) []byte {
		lf := make([]byte, 8)
		if v >= 0 {
			lf[7] = byte(v)
			return lf
		}
		lf = verifrt.NondetBytes(name+".huge", 8)
		verifrt.Assume(verifC30BE(lf) > 2147483647)
		return lf
	}
	// wherever the body message may start in the tail: not a second head (same code as the first)
	notSecondHead := func(b []byte) {
		for i := 0; i <= KA-KH && i < len(b); i++ {
			verifrt.Assume(b[i] != ResponseHeaderDataType[0])
		}
	}
	r.grow = func() {
		l := lens[part]
		last := part == len(lens)-1
		// where the stream ends: keep = l and !r.ended: this part is complete and more follows
		keep := l
		switch {
		case !cuts:
			r.ended = last
		case last:
			keep = 1 + verifrt.NondetChoice("cut", l)
			r.ended = true
		default:
			opts := l + 1
			if part == 0 {
				opts++
			}
			k := verifrt.NondetChoice("cut", opts) // 0: complete, more follows; k: ends after k bytes; l+1 (first part only): empty stream
			if k > l {
				keep = 0
			} else if k > 0 {
				keep = k
			}
			r.ended = k != 0
		}
		if keep < l {
			// a part of the head that is cut short is never interpreted; a tail that is cut short is
			fill := verifrt.NondetBytes("cut.bytes", keep)
			if part == 5 {
				notSecondHead(fill)
			}
			r.data = append(r.data, fill...)
			return
		}
		var b []byte
		switch part {
		case 0:
			b = verifrt.NondetBytes("datatype", 1)
			if via == 2 {
				verifrt.Assume(b[0] == ResponseHeaderDataType[0]) // other data types: VerifC30HostileBody
			}
		case 1:
			hc = verifC30HintCases[verifrt.NondetChoice("hint", len(verifC30HintCases))]
			b = lengthField("hintlen", hc.announce)
			if !hc.cuts {
				cuts = false // from here on only the full stream
			}
		case 2:
			b = []byte(hc.region)
		case 3:
			c := verifrt.NondetChoice("headerlen", KA+2)
			if c > KA {
				c = -1
			}
			b = lengthField("headerlen", c)
		case 4:
			tag := verifrt.NondetChoice("decoder-answer", 6) // 5 = response with ok
			first := byte(tag)
			if tag == 5 {
				first = verifC30TagResponse | 8
			}
			b = append([]byte{first}, verifrt.NondetBytes("header", KH-1)...)
		default:
			b = verifrt.NondetBytes("tail", l)
			notSecondHead(b)
		}
		r.data = append(r.data, b...)
		part++
	}
	var broker *baseBroker
	var head Header
	var err error
	switch via {
	case 0:
		b := NewHandlerBroker(env.encs, nil, r, &verifC30Writer{})
		broker = b.baseBroker
		var h RequestHeader
		if h, err = b.ReadRequestHead(ctx); h != nil {
			head = h
		}
	case 1:
		b := NewClientBroker(env.encs, env.enc, r, &verifC30Writer{})
		broker = b.baseBroker
		var h ResponseHeader
		if _, h, err = b.ReadResponseHead(ctx); h != nil {
			head = h
		}
	default:
		b := NewClientBroker(env.encs, env.enc, r, &verifC30Writer{})
		broker = b.baseBroker
		var h ResponseHeader
		var body io.Reader
		_, _, body, _, h, err = b.ReadBody(ctx)
		if h != nil {
			head = h
		}
		if err == nil {
			verifrt.Assert(h != nil && body == nil, "C30.hostilehead.response-head-data-type-yields-a-response-head")
		}
	}
	verifrt.Reach("C30.hostilehead.returned")
	stream := r.data // what the peer sent as far as anybody looked at it
	n := len(stream)
	if err != nil {
		verifrt.Reach("C30.hostilehead.error")
		return
	}
	verifrt.Reach("C30.hostilehead.success")

	// success: the stream spells a head of the expected kind
	verifrt.Assert(head != nil, "C30.hostilehead.success-hands-out-a-header")
	if head == nil {
		return
	}
	verifrt.Assert(n >= 17, "C30.hostilehead.success-needs-data-type-and-two-length-fields")
	if n < 17 {
		return
	}
	wantType := RequestHeaderDataType
	if via != 0 {
		wantType = ResponseHeaderDataType
	}
	verifrt.Assert(stream[0] == wantType[0], "C30.hostilehead.success-only-for-the-expected-data-type")
	a := verifC30BE(stream[1:])
	verifrt.Assert(a <= uint64(n-17), "C30.hostilehead.hint-region-inside-the-stream")
	if a > uint64(n-17) {
		return
	}
	c := verifC30BE(stream[9+int(a):])
	off := 17 + int(a)
	verifrt.Assert(c <= uint64(n-off), "C30.hostilehead.header-region-inside-the-stream")
	if c > uint64(n-off) {
		return
	}
	region := stream[off : off+int(c)]
	var raw []byte
	switch h := head.(type) {
	case verifC30Request:
		verifrt.Reach("C30.hostilehead.request-head")
		verifrt.Assert(via == 0, "C30.hostilehead.request-header-only-from-ReadRequestHead")
		raw = h.raw
	case verifC30Response:
		verifrt.Reach("C30.hostilehead.response-head")
		verifrt.Assert(via != 0, "C30.hostilehead.response-header-only-from-response-reads")
		raw = h.raw
	default:
		verifrt.Assert(false, "C30.hostilehead.header-is-what-the-encoder-decoded")
	}
	verifrt.Assert(bytes.Equal(raw, region), "C30.hostilehead.header-decoded-from-exactly-the-announced-bytes")
	off += int(c)
	verifrt.Assert(r.pos == off, "C30.hostilehead.head-consumes-exactly-its-bytes")
	if tail == 0 {
		return
	}

	// what is left is read as a body message (a second head: same code as the first)
	if off < len(r.data) {
		verifrt.Assume(r.data[off] != ResponseHeaderDataType[0])
	}
	bt, bl, body, _, res, err := broker.ReadBody(ctx)
	if err != nil {
		verifrt.Reach("C30.hostilehead.body-error")
		return
	}
	verifrt.Reach("C30.hostilehead.body-success")
	verifrt.Assert(res == nil, "C30.hostilehead.body.no-response-head-without-response-head-data-type")
	verifC30CheckBody(r, off, bt, bl, body, "C30.hostilehead.body")
}
