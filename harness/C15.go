package isaacblock

import (
	"context"
	"io"

	"github.com/pkg/errors"
	"github.com/spikeekips/mitum/base"
	"github.com/spikeekips/mitum/isaac"
	"github.com/spikeekips/mitum/util/verifrt"
)

// C15 Importing a block range stores every block.
//
// ImportBlocks(from, to, batchlimit) is driven with harness block maps (no items, so the item
// readers are never touched) and harness importers that record Save / the deferred merge of
// Save / CancelImport per height. The range start, the number of blocks and the batch limit are
// enumerated.

type verifC15Rec struct {
	from      base.Height
	count     int
	saved     []int // Save calls per block index
	merged    []int // calls of the function returned by Save, per block index
	mapped    []int // blockMapf calls per block index
	nsaved    int
	mergeAll  int // calls of mergeBlockWriterDatabasesf
	savedAtMA int // number of saved blocks when mergeBlockWriterDatabasesf ran last
	failkind  int // 0 none, 1 block map not found, 2 Save fails, 3 deferred merge fails, 4 newBlockImporter fails
	failidx   int
}

var errVerifC15 = errors.Errorf("injected failure")

// verifC15Map is a block map without items; only its identity (the block index) matters.
type verifC15Map struct {
	base.BlockMap
	idx int
}

func (verifC15Map) Items(func(base.BlockMapItem) bool) {}

func (verifC15Map) Item(base.BlockItemType) (base.BlockMapItem, bool) { return nil, false }

type verifC15Importer struct {
	rec *verifC15Rec
	idx int
}

func (*verifC15Importer) WriteMap(base.BlockMap) error { return nil }

func (*verifC15Importer) WriteItem(base.BlockItemType, isaac.BlockItemReader) error { return nil }

func (im *verifC15Importer) Save(context.Context) (func(context.Context) error, error) {
	r := im.rec
	if r.failkind == 2 && r.failidx == im.idx {
		return nil, errVerifC15
	}
	r.saved[im.idx]++
	r.nsaved++
	return func(context.Context) error {
		if r.failkind == 3 && r.failidx == im.idx {
			return errVerifC15
		}
		r.merged[im.idx]++
		return nil
	}, nil
}

func (*verifC15Importer) CancelImport(context.Context) error { return nil }

func verifC15Run(count, limit int, rec *verifC15Rec) error {
	// the range start is printed by ImportBlocks (error prefix "import blocks; %d - %d"), so it is
	// enumerated over representative concrete heights instead of being a symbolic 64-bit value
	froms := []int64{33, 0, 1, 1<<40 + 7}
	return verifC15RunFrom(base.Height(froms[verifrt.NondetChoice("from", verifrt.Bound("froms", 3, 4))]), count, limit, rec)
}

func verifC15RunFrom(from base.Height, count, limit int, rec *verifC15Rec) error {
	to := from + base.Height(int64(count-1))
	rec.from, rec.count = from, count
	rec.saved = make([]int, count)
	rec.merged = make([]int, count)
	rec.mapped = make([]int, count)

	return ImportBlocks(
		context.Background(),
		from, to,
		int64(limit),
		nil, // readers: untouched, the maps have no items and no last-voteproofs callback is given
		func(_ context.Context, height base.Height) (base.BlockMap, bool, error) {
			verifrt.Assert(height >= from && height <= to, "C15.only-heights-of-the-range-are-requested")
			if height < from || height > to {
				return nil, false, errVerifC15
			}
			idx := int((height - from).Int64())
			rec.mapped[idx]++
			if rec.failkind == 1 && rec.failidx == idx {
				return nil, false, nil
			}
			return verifC15Map{idx: idx}, true, nil
		},
		func(context.Context, base.Height, base.BlockItemType, func(io.Reader, bool, string) error) error {
			return nil
		},
		func(m base.BlockMap) (isaac.BlockImporter, error) {
			idx := m.(verifC15Map).idx //nolint:forcetypeassert //...
			if rec.failkind == 4 && rec.failidx == idx {
				return nil, errVerifC15
			}
			return &verifC15Importer{rec: rec, idx: idx}, nil
		},
		nil,
		func(context.Context) error {
			rec.mergeAll++
			rec.savedAtMA = rec.nsaved
			return nil
		},
	)
}

func verifC15Check(err error, rec *verifC15Rec) {
	if err != nil {
		verifrt.Reach("C15.error-reported")
		return
	}
	verifrt.Reach("C15.success-reported")
	last := -1
	for i := 0; i < rec.count; i++ {
		verifrt.Assert(rec.saved[i] >= 1, "C15.success-only-if-every-block-from-A-to-B-has-been-stored")
		verifrt.Assert(rec.merged[i] >= 1, "C15.success-only-if-every-block-from-A-to-B-has-been-merged")
		if rec.saved[i] > 0 {
			last = i
		}
	}
	verifrt.Assert(last == rec.count-1, "C15.last-stored-height-is-B")
	verifrt.Assert(rec.mergeAll >= 1 && rec.savedAtMA == rec.count, "C15.merge-callback-ran-after-the-last-block-was-stored")
}

// VerifC15Import: every (count, batch limit) pair within the bound, no injected failure:
// the import must not report success unless every block was stored and merged.
func VerifC15Import() {
	n := verifrt.Bound("blocks", 6, 40)
	count := 1 + verifrt.NondetChoice("count", n)
	limit := 1 + verifrt.NondetChoice("limit", n)
	rec := &verifC15Rec{}
	err := verifC15Run(count, limit, rec)
	verifrt.Reach("C15.import.returned")
	if count%limit == 0 {
		verifrt.Reach("C15.import.count-is-multiple-of-batch-limit")
	}
	if count > limit && count%limit != 0 {
		verifrt.Reach("C15.import.several-batches-with-remainder")
	}
	verifC15Check(err, rec)
}

// VerifC15ImportSchedules: the same for small ranges under every order in which the jobs of a
// batch (fetch+import, then Save) can run.
func VerifC15ImportSchedules() {
	n := verifrt.Bound("sblocks", 3, 4)
	count := 1 + verifrt.NondetChoice("count", n)
	limit := 1 + verifrt.NondetChoice("limit", n)
	rec := &verifC15Rec{}
	err := verifC15RunFrom(base.Height(33), count, limit, rec)
	verifrt.Reach("C15.schedules.returned")
	verifC15Check(err, rec)
}

// VerifC15ImportFailing: one injected failure (block map not found, importer construction,
// Save, or the deferred merge of one block): success must not be reported.
func VerifC15ImportFailing() {
	n := verifrt.Bound("fblocks", 4, 6)
	count := 1 + verifrt.NondetChoice("count", n)
	limit := 1 + verifrt.NondetChoice("limit", n)
	rec := &verifC15Rec{}
	rec.failkind = 1 + verifrt.NondetChoice("failkind", 4)
	rec.failidx = verifrt.NondetChoice("failidx", count)
	err := verifC15Run(count, limit, rec)
	verifrt.Reach("C15.failing.returned")
	verifrt.Assert(err != nil, "C15.success-only-if-every-block-stored-and-merged(a-block-failed)")
	verifC15Check(err, rec)
}
