package isaacoperation

import (
	"context"
	"sort"
	"time"

	"github.com/pkg/errors"
	"github.com/spikeekips/mitum/base"
	"github.com/spikeekips/mitum/isaac"
	"github.com/spikeekips/mitum/util/verifrt"
)

// C17 Suffrage changes preserve suffrage well-formedness.
//
// Code under test (all real): the operation types with their IsValid (SuffrageJoin,
// SuffrageDisjoin, isaac.SuffrageExpelOperation: sign verification, duplicate node signs,
// "signed by candidate/node"), the three processors' PreProcess/Process driven exactly as
// DefaultProposalProcessor drives them (one processor per operation hint, PreProcess in
// block order with the context chained, then Process), base.CheckFactSignsBySuffrage, and
// SuffrageJoinStateValueMerger / SuffrageCandidatesStateValueMerger Merge + CloseValue as
// DefaultStatesMerger drives them (one merger per state key, created from the first value).
//
// Modelled: keys and signatures (verifC17Key: a signature is (key id, valid flag) and
// verifies exactly under the key with that id - an unforgeable signature scheme);
// SHA3 digests of symbolic data are a collision free function (engine stub).
//
// Operations that the operation's own IsValid refuses never reach a processor in the real
// node (operations are validated when they are received / fetched); the harness drops them
// the same way. In particular duplicate node signs are refused there (and by SetNodeSigns).

var verifC17NetworkID = base.NetworkID("verif-c17")

func verifC17SignedAt() time.Time { return time.Unix(1700000000, 0).UTC() }

// ---- keys ------------------------------------------------------------------

type verifC17Key struct{ id uint8 }

func (verifC17Key) String() string         { return "verifkey" }
func (k verifC17Key) Bytes() []byte        { return []byte{'k', k.id} }
func (verifC17Key) IsValid([]byte) error   { return nil }
func (k verifC17Key) Equal(o base.PKKey) bool {
	ok, is := o.(verifC17Key)
	return is && ok.id == k.id
}

func (k verifC17Key) Verify(_ []byte, sig base.Signature) error {
	if len(sig) == 2 && sig[0] == k.id && sig[1] == 1 {
		return nil
	}
	return base.ErrSignatureVerification.Errorf("verifkey")
}

func (k verifC17Key) sig() base.Signature { return base.Signature{k.id, 1} }

// ---- world -----------------------------------------------------------------

type verifC17World struct {
	h         base.Height // height of the block being made
	sufHeight base.Height
	t10       int64 // threshold * 10
	threshold base.Threshold
	members   []base.SuffrageNodeStateValue
	mkeys     []verifC17Key
	mstarts   []base.Height
	cands     []base.SuffrageCandidateStateValue
	ckeys     []verifC17Key
	sufState  base.State
	candState base.State
}

var verifC17Thresholds = []struct {
	f   float64
	t10 int64
}{{67, 670}, {51, 510}, {100, 1000}, {60, 600}, {66.7, 667}, {75, 750}, {57.5, 575}}

func verifC17MemberAddr(i int) base.Address {
	return base.NewStringAddress([]string{"m0a", "m1a", "m2a", "m3a", "m4a", "m5a"}[i])
}

func verifC17CandAddr(i int) base.Address {
	return base.NewStringAddress([]string{"c0a", "c1a"}[i])
}

func verifC17Outsider() base.Address { return base.NewStringAddress("x0a") }

// verifC17NewWorld: n members, nc candidates (candidate deadlines symbolic), threshold
// number ti of the menu. Heights are symbolic; candidate deadlines are symbolic or far away.
func verifC17NewWorld(n, nc, ti int, symDeadline bool) *verifC17World {
	w := &verifC17World{}
	w.h = base.Height(verifrt.NondetInt("height"))
	verifrt.Assume(w.h >= 1)
	verifrt.Assume(w.h < 1<<60)
	w.sufHeight = base.Height(verifrt.NondetInt("suffrageheight"))
	verifrt.Assume(w.sufHeight >= 0)
	verifrt.Assume(w.sufHeight < 1<<60)
	w.t10 = verifC17Thresholds[ti].t10
	w.threshold = base.Threshold(verifC17Thresholds[ti].f)
	for i := 0; i < n; i++ {
		k := verifC17Key{id: uint8(10 + i)}
		start := base.Height(3 + i)
		w.mkeys = append(w.mkeys, k)
		w.mstarts = append(w.mstarts, start)
		w.members = append(w.members, isaac.NewSuffrageNodeStateValue(isaac.NewNode(k, verifC17MemberAddr(i)), start))
	}
	for i := 0; i < nc; i++ {
		k := verifC17Key{id: uint8(40 + i)}
		deadline := base.Height(1 << 61)
		if symDeadline {
			deadline = base.Height(verifrt.NondetInt("deadline"))
			verifrt.Assume(deadline > base.Height(7+i)) // a stored candidate has start < deadline
		}
		w.ckeys = append(w.ckeys, k)
		w.cands = append(w.cands, isaac.NewSuffrageCandidateStateValue(isaac.NewNode(k, verifC17CandAddr(i)), base.Height(7+i), deadline))
	}
	w.sufState = base.NewBaseState(w.h-1, isaac.SuffrageStateKey, isaac.NewSuffrageNodesStateValue(w.sufHeight, w.members), nil, nil)
	if nc > 0 {
		w.candState = base.NewBaseState(w.h-1, isaac.SuffrageCandidateStateKey, isaac.NewSuffrageCandidatesStateValue(w.cands), nil, nil)
	}
	return w
}

func (w *verifC17World) getState(key string) (base.State, bool, error) {
	switch {
	case key == isaac.SuffrageStateKey:
		return w.sufState, true, nil
	case key == isaac.SuffrageCandidateStateKey && w.candState != nil:
		return w.candState, true, nil
	}
	return nil, false, nil
}

func (w *verifC17World) memberIndex(a base.Address) int {
	for i := range w.members {
		if w.members[i].Address().Equal(a) {
			return i
		}
	}
	return -1
}

func (w *verifC17World) candIndex(a base.Address) int {
	for i := range w.cands {
		if w.cands[i].Address().Equal(a) {
			return i
		}
	}
	return -1
}

// ---- operations ------------------------------------------------------------

const (
	verifC17Join = iota
	verifC17Disjoin
	verifC17Expel
)

type verifC17Sign struct {
	node base.Address
	key  verifC17Key
}

// verifC17Desc is what the harness knows about an operation it built (the oracle reads
// this, never the code under test).
type verifC17Desc struct {
	kind   int
	target base.Address
	start  base.Height
	end    base.Height
	signs  []verifC17Sign
	op     base.Operation
}

func verifC17NodeSigns(signs []verifC17Sign) []base.NodeSign {
	ns := make([]base.NodeSign, len(signs))
	for i := range signs {
		ns[i] = base.NewBaseNodeSign(signs[i].node, signs[i].key, signs[i].key.sig(), verifC17SignedAt())
	}
	return ns
}

// verifC17Build makes the real operation; nil if the public constructors refuse it or the
// operation's IsValid refuses it (such an operation never reaches a processor).
func verifC17Build(d *verifC17Desc, token string) bool {
	ns := verifC17NodeSigns(d.signs)
	var err error
	switch d.kind {
	case verifC17Join:
		op := NewSuffrageJoin(NewSuffrageJoinFact(base.Token(token), d.target, d.start))
		if err = op.SetNodeSigns(ns); err == nil {
			err = op.IsValid(verifC17NetworkID)
		} else {
			verifrt.Reach("C17.duplicate-node-signs-refused-by-SetNodeSigns")
		}
		d.op = op
	case verifC17Disjoin:
		op := NewSuffrageDisjoin(NewSuffrageDisjoinFact(base.Token(token), d.target, d.start))
		if err = op.SetNodeSigns(ns); err == nil {
			err = op.IsValid(verifC17NetworkID)
		} else {
			verifrt.Reach("C17.duplicate-node-signs-refused-by-SetNodeSigns")
		}
		d.op = op
	default:
		op := isaac.NewSuffrageExpelOperation(isaac.NewSuffrageExpelFact(d.target, d.start, d.end, "verif"))
		if err = op.SetNodeSigns(ns); err == nil {
			err = op.IsValid(verifC17NetworkID)
		} else {
			verifrt.Reach("C17.duplicate-node-signs-refused-by-SetNodeSigns")
		}
		d.op = op
	}
	if err != nil {
		verifrt.Reach("C17.operation-refused-by-its-own-IsValid")
		d.op = nil
		return false
	}
	return true
}

// ---- the block: processors and mergers as the proposal processor drives them ----

type verifC17Result struct {
	failed   bool   // processing the block returned an error (no block is made)
	accepted []bool // per operation: PreProcess gave no reason and Process gave state values
	newSuf   base.SuffrageNodesStateValue
	newCand  base.SuffrageCandidatesStateValue
}

func verifC17Apply(w *verifC17World, ds []*verifC17Desc) verifC17Result {
	res := verifC17Result{accepted: make([]bool, len(ds))}
	oprs := map[string]base.OperationProcessor{}
	processor := func(op base.Operation) (base.OperationProcessor, error) {
		k := op.Hint().String()
		if p, found := oprs[k]; found {
			return p, nil
		}
		var p base.OperationProcessor
		var err error
		switch op.(type) {
		case SuffrageJoin:
			p, err = NewSuffrageJoinProcessor(w.h, w.threshold, w.getState, nil, nil)
		case SuffrageDisjoin:
			p, err = NewSuffrageDisjoinProcessor(w.h, w.getState, nil, nil)
		default:
			p, err = NewSuffrageExpelProcessor(w.h, w.getState, nil, nil)
		}
		if err == nil {
			oprs[k] = p
		}
		return p, err
	}
	mergers := map[string]base.StateValueMerger{}
	pctx := context.Background()
	for i := range ds {
		op := ds[i].op
		p, err := processor(op)
		if err != nil {
			res.failed = true
			return res
		}
		nctx, reason, err := p.PreProcess(pctx, op, w.getState)
		pctx = nctx
		if err != nil {
			res.failed = true
			return res
		}
		if reason != nil {
			continue
		}
		stvs, reason, err := p.Process(pctx, op, w.getState)
		if err != nil {
			res.failed = true
			return res
		}
		if reason != nil || len(stvs) < 1 {
			continue
		}
		res.accepted[i] = true
		for j := range stvs {
			stv := stvs[j]
			m, found := mergers[stv.Key()]
			if !found {
				st, _, _ := w.getState(stv.Key())
				m = stv.Merger(w.h, st)
				mergers[stv.Key()] = m
			}
			if err := m.Merge(stv.Value(), op.Fact().Hash()); err != nil {
				res.failed = true
				return res
			}
		}
	}
	keys := make([]string, 0, len(mergers))
	for k := range mergers {
		keys = append(keys, k)
	}
	sort.Strings(keys)
	for _, k := range keys {
		st, err := mergers[k].CloseValue()
		switch {
		case err != nil && errors.Is(err, base.ErrIgnoreStateValue), err == nil && st == nil:
			continue
		case err != nil:
			res.failed = true
			return res
		}
		switch v := st.Value().(type) {
		case base.SuffrageNodesStateValue:
			res.newSuf = v
		case base.SuffrageCandidatesStateValue:
			res.newCand = v
		}
	}
	return res
}

// ---- the oracle ------------------------------------------------------------

// distinct current members (address and key as stored) among the signs; node signs are
// distinct by node because the operation passed IsValid
func verifC17MemberSigns(w *verifC17World, d *verifC17Desc) int64 {
	var c int64
	for i := range d.signs {
		if mi := w.memberIndex(d.signs[i].node); mi >= 0 && d.signs[i].key.id == w.mkeys[mi].id {
			c++
		}
	}
	return c
}

func verifC17SignedBy(d *verifC17Desc, node base.Address, key verifC17Key) bool {
	for i := range d.signs {
		if d.signs[i].node.Equal(node) && d.signs[i].key.id == key.id {
			return true
		}
	}
	return false
}

func verifC17Check(w *verifC17World, ds []*verifC17Desc, res verifC17Result, pfx string) {
	verifrt.Assert(!res.failed, pfx+".a-block-of-suffrage-operations-is-processed-without-error")
	if res.failed {
		return
	}
	// operations the processors took as leaving / expelling must name a current member
	anySuf := false
	for i := range ds {
		if !res.accepted[i] {
			continue
		}
		anySuf = true
		if ds[i].kind != verifC17Join {
			verifrt.Assert(w.memberIndex(ds[i].target) >= 0, pfx+".only-current-members-can-leave-or-be-expelled")
		}
	}
	if res.newSuf == nil {
		verifrt.Assert(!anySuf, pfx+".accepted-suffrage-operation-produces-a-new-suffrage")
		return
	}
	verifrt.Reach(pfx + ".new-suffrage")
	nodes := res.newSuf.Nodes()
	verifrt.Assert(res.newSuf.Height() == w.sufHeight+1, pfx+".suffrage-height-increased-by-one")
	for i := range nodes {
		for j := 0; j < i; j++ {
			verifrt.Assert(!nodes[i].Address().Equal(nodes[j].Address()), pfx+".suffrage-has-unique-members")
		}
	}
	// who joined
	for i := range nodes {
		a := nodes[i].Address()
		if w.memberIndex(a) >= 0 {
			continue
		}
		verifrt.Reach(pfx + ".joined")
		ci := w.candIndex(a)
		verifrt.Assert(ci >= 0, pfx+".only-candidates-can-join")
		if ci < 0 {
			continue
		}
		verifrt.Assert(w.cands[ci].Deadline() >= w.h, pfx+".only-unexpired-candidates-can-join")
		verifrt.Assert(nodes[i].Publickey().Equal(w.ckeys[ci]), pfx+".joined-node-has-the-candidate-key")
		justified := false
		for k := range ds {
			d := ds[k]
			if d.kind != verifC17Join || !d.target.Equal(a) {
				continue
			}
			if verifC17SignedBy(d, a, w.ckeys[ci]) && verifC17MemberSigns(w, d)*1000 >= w.t10*int64(len(w.members)) {
				justified = true
			}
		}
		verifrt.Assert(justified, pfx+".join-signed-by-the-candidate-itself-and-by-at-least-the-threshold-of-distinct-current-members")
	}
	// who left
	for mi := range w.members {
		a := w.members[mi].Address()
		still := false
		for i := range nodes {
			if nodes[i].Address().Equal(a) {
				still = true
			}
		}
		if still {
			continue
		}
		verifrt.Reach(pfx + ".left")
		justified := false
		for k := range ds {
			d := ds[k]
			switch {
			case !d.target.Equal(a):
			case d.kind == verifC17Expel:
				justified = true
			case d.kind == verifC17Disjoin && verifC17SignedBy(d, a, w.mkeys[mi]):
				// reading of "only current members can leave": the member itself asks to leave
				justified = true
			}
		}
		verifrt.Assert(justified, pfx+".a-member-is-removed-only-by-its-own-disjoin-or-by-an-expel")
	}
}

func verifC17SameSuffrage(a, b verifC17Result) bool {
	switch {
	case a.failed != b.failed:
		return false
	case a.failed:
		return true
	case (a.newSuf == nil) != (b.newSuf == nil):
		return false
	case a.newSuf == nil:
		return true
	case a.newSuf.Height() != b.newSuf.Height():
		return false
	}
	an, bn := a.newSuf.Nodes(), b.newSuf.Nodes()
	if len(an) != len(bn) {
		return false
	}
	// same members with the same keys and start heights (as a set)
	for i := range an {
		found := false
		for j := range bn {
			if an[i].Address().Equal(bn[j].Address()) && an[i].Publickey().Equal(bn[j].Publickey()) && an[i].Start() == bn[j].Start() {
				found = true
			}
		}
		if !found {
			return false
		}
	}
	return true
}

// ---- entries ---------------------------------------------------------------

func verifC17AllMemberSigns(w *verifC17World, k int) []verifC17Sign {
	var s []verifC17Sign
	for i := 0; i < k; i++ {
		s = append(s, verifC17Sign{node: verifC17MemberAddr(i), key: w.mkeys[i]})
	}
	return s
}

// VerifC17JoinEligibility: one join operation; who is named and who signs for the
// candidate vary, every current member signs (so the threshold is met).
func VerifC17JoinEligibility() {
	n := verifrt.Bound("emembers", 2, 3)
	if verifrt.Bound("emembers.vary", 0, 1) == 1 {
		n = 1 + verifrt.NondetChoice("members", n)
	}
	nc := verifrt.Bound("ecands", 1, 2)
	w := verifC17NewWorld(n, nc, 0, true)
	d := &verifC17Desc{kind: verifC17Join}
	switch verifrt.NondetChoice("target", 2+nc) {
	case 0:
		d.target = verifC17CandAddr(0)
	case 1:
		d.target = verifC17MemberAddr(0) // a current member named as candidate
	case 2:
		d.target = verifC17Outsider()
	default:
		d.target = verifC17CandAddr(1)
	}
	d.start = base.Height(verifrt.NondetInt("fact.start"))
	verifrt.Assume(d.start >= 0) // a negative height is refused by IsValid (and printed)
	d.signs = verifC17AllMemberSigns(w, n)
	if d.target.Equal(verifC17MemberAddr(0)) {
		d.signs = d.signs[1:]
	}
	switch verifrt.NondetChoice("selfsign", 4) {
	case 3: // two signs under the candidate's name
		d.signs = append(d.signs, verifC17Sign{node: d.target, key: w.ckeys[0]}, verifC17Sign{node: d.target, key: verifC17Key{id: 98}})
	case 1: // signed under the candidate's name with some key (the registered one or another)
		d.signs = append(d.signs, verifC17Sign{node: d.target, key: verifC17Key{id: verifrt.NondetU8("selfkey")}})
	case 2: // the candidate's key signs, but under another node's name
		d.signs = append(d.signs, verifC17Sign{node: verifC17Outsider(), key: w.ckeys[0]})
	}
	if !verifC17Build(d, "t0") {
		return
	}
	res := verifC17Apply(w, []*verifC17Desc{d})
	verifrt.Reach("C17.eligibility.applied")
	verifC17Check(w, []*verifC17Desc{d}, res, "C17.eligibility")
	if res.accepted[0] {
		verifrt.Reach("C17.eligibility.join-accepted")
	}
}

// VerifC17JoinThreshold: a join of a proper, unexpired candidate signed by itself and by
// the first k members, each with a symbolic key (the stored one or any other); suffrage
// size and threshold vary.
func VerifC17JoinThreshold() {
	n := 1 + verifrt.NondetChoice("members", verifrt.Bound("tmembers", 3, 5))
	ti := verifrt.NondetChoice("threshold", verifrt.Bound("thresholds", 3, len(verifC17Thresholds)))
	w := verifC17NewWorld(n, 1, ti, false)
	k := verifrt.NondetChoice("signers", n+1)
	d := &verifC17Desc{kind: verifC17Join, target: verifC17CandAddr(0), start: w.cands[0].Start()}
	for i := 0; i < k; i++ {
		d.signs = append(d.signs, verifC17Sign{node: verifC17MemberAddr(i), key: verifC17Key{id: verifrt.NondetU8("memberkey")}})
	}
	// a sign of a node that is not in the suffrage
	d.signs = append(d.signs, verifC17Sign{node: verifC17Outsider(), key: verifC17Key{id: 99}})
	d.signs = append(d.signs, verifC17Sign{node: d.target, key: w.ckeys[0]})
	if !verifC17Build(d, "t0") {
		return
	}
	res := verifC17Apply(w, []*verifC17Desc{d})
	verifrt.Reach("C17.threshold.applied")
	verifC17Check(w, []*verifC17Desc{d}, res, "C17.threshold")
	if res.accepted[0] {
		verifrt.Reach("C17.threshold.join-accepted")
	} else if !res.failed {
		verifrt.Reach("C17.threshold.join-rejected")
	}
}

// VerifC17Leave: one disjoin or expel operation.
func VerifC17Leave() {
	n := verifrt.Bound("lmembers", 2, 4)
	if verifrt.Bound("lmembers.vary", 0, 1) == 1 {
		n = 1 + verifrt.NondetChoice("members", n)
	}
	w := verifC17NewWorld(n, 1, 0, false)
	d := &verifC17Desc{}
	switch verifrt.NondetChoice("target", 4) {
	case 0:
		d.target = verifC17MemberAddr(0)
	case 1:
		d.target = verifC17MemberAddr(n - 1)
	case 2:
		d.target = verifC17CandAddr(0)
	default:
		d.target = verifC17Outsider()
	}
	if verifrt.NondetChoice("kind", 2) == 0 {
		d.kind = verifC17Disjoin
		d.start = base.Height(verifrt.NondetInt("fact.start"))
		verifrt.Assume(d.start >= 0)
		who := d.target
		if verifrt.NondetChoice("signer", 2) == 1 && n > 1 {
			who = verifC17MemberAddr(n - 1) // another member signs for the leaving one
		}
		d.signs = []verifC17Sign{{node: who, key: verifC17Key{id: verifrt.NondetU8("signerkey")}}}
	} else {
		d.kind = verifC17Expel
		d.start = base.Height(verifrt.NondetInt("expel.start"))
		d.end = base.Height(verifrt.NondetInt("expel.end"))
		verifrt.Assume(d.start >= 0)
		verifrt.Assume(d.end >= 0)
		for i := 0; i < n; i++ {
			if !verifC17MemberAddr(i).Equal(d.target) {
				d.signs = append(d.signs, verifC17Sign{node: verifC17MemberAddr(i), key: w.mkeys[i]})
			}
		}
	}
	if !verifC17Build(d, "t0") {
		return
	}
	res := verifC17Apply(w, []*verifC17Desc{d})
	verifrt.Reach("C17.leave.applied")
	verifC17Check(w, []*verifC17Desc{d}, res, "C17.leave")
	if res.accepted[0] {
		if d.kind == verifC17Disjoin {
			verifrt.Reach("C17.leave.disjoin-accepted")
		} else {
			verifrt.Reach("C17.leave.expel-accepted")
		}
	}
}

// verifC17Menu: operation archetypes for blocks of several operations (3 members, 2
// candidates, threshold 60: two of three members are enough).
func verifC17Menu(w *verifC17World, which int) *verifC17Desc {
	m := func(i int) verifC17Sign { return verifC17Sign{node: verifC17MemberAddr(i), key: w.mkeys[i]} }
	c := func(i int) verifC17Sign { return verifC17Sign{node: verifC17CandAddr(i), key: w.ckeys[i]} }
	switch which {
	case 0: // proper join of candidate 0
		return &verifC17Desc{kind: verifC17Join, target: verifC17CandAddr(0), start: w.cands[0].Start(), signs: []verifC17Sign{m(0), m(1), m(2), c(0)}}
	case 1: // join of candidate 0 with too few member signs
		return &verifC17Desc{kind: verifC17Join, target: verifC17CandAddr(0), start: w.cands[0].Start(), signs: []verifC17Sign{m(0), c(0)}}
	case 2: // a second proper join of candidate 0 (other signers)
		return &verifC17Desc{kind: verifC17Join, target: verifC17CandAddr(0), start: w.cands[0].Start(), signs: []verifC17Sign{c(0), m(2), m(1)}}
	case 3: // proper join of candidate 1
		return &verifC17Desc{kind: verifC17Join, target: verifC17CandAddr(1), start: w.cands[1].Start(), signs: []verifC17Sign{m(1), m(2), c(1)}}
	case 4: // member 0 leaves
		return &verifC17Desc{kind: verifC17Disjoin, target: verifC17MemberAddr(0), start: w.mstarts[0], signs: []verifC17Sign{m(0)}}
	case 5: // somebody else's key asks member 0 to leave
		return &verifC17Desc{kind: verifC17Disjoin, target: verifC17MemberAddr(0), start: w.mstarts[0], signs: []verifC17Sign{{node: verifC17MemberAddr(0), key: w.mkeys[1]}}}
	case 6: // member 0 expelled
		return &verifC17Desc{kind: verifC17Expel, target: verifC17MemberAddr(0), start: 1, end: 1 << 61, signs: []verifC17Sign{m(1), m(2)}}
	case 7: // member 1 expelled
		return &verifC17Desc{kind: verifC17Expel, target: verifC17MemberAddr(1), start: 1, end: 1 << 61, signs: []verifC17Sign{m(0), m(2)}}
	case 8: // a candidate "expelled"
		return &verifC17Desc{kind: verifC17Expel, target: verifC17CandAddr(0), start: 1, end: 1 << 61, signs: []verifC17Sign{m(0), m(1), m(2)}}
	case 9: // member 1 leaves
		return &verifC17Desc{kind: verifC17Disjoin, target: verifC17MemberAddr(1), start: w.mstarts[1], signs: []verifC17Sign{m(1)}}
	case 10: // a current member named in a join
		return &verifC17Desc{kind: verifC17Join, target: verifC17MemberAddr(0), start: w.mstarts[0], signs: []verifC17Sign{m(1), m(2), m(0)}}
	default: // expel of member 0 with a window that may have ended
		end := base.Height(verifrt.NondetInt("expel.end"))
		verifrt.Assume(end >= 1)
		return &verifC17Desc{kind: verifC17Expel, target: verifC17MemberAddr(0), start: 1, end: end, signs: []verifC17Sign{m(1), m(2)}}
	}
}

const verifC17MenuSize = 12

// VerifC17Block: a block of several operations (increasing menu numbers, so every
// multiset once), applied in the given order and in a permuted order.
func VerifC17Block() {
	nops := verifrt.Bound("ops", 2, 3)
	w := verifC17NewWorld(3, 2, 3, verifrt.Bound("block.deadlines", 0, 1) == 1)
	menu := verifrt.Bound("menu", 8, verifC17MenuSize)
	var ds []*verifC17Desc
	last := -1
	for i := 0; i < nops; i++ {
		which := last + 1 + verifrt.NondetChoice("op", menu-last-1)
		last = which
		d := verifC17Menu(w, which)
		if !verifC17Build(d, []string{"t0", "t1", "t2"}[i]) {
			verifrt.Assert(false, "C17.harness.menu-operations-are-valid")
			return
		}
		ds = append(ds, d)
		if last == menu-1 {
			break
		}
	}
	if len(ds) < 2 {
		return
	}
	res := verifC17Apply(w, ds)
	verifrt.Reach("C17.block.applied")
	verifC17Check(w, ds, res, "C17.block")
	// another order of the same operations
	var perm []*verifC17Desc
	rest := append([]*verifC17Desc(nil), ds...)
	for len(rest) > 0 {
		k := 0
		if len(rest) > 1 {
			k = verifrt.NondetChoice("perm", len(rest))
		}
		perm = append(perm, rest[k])
		rest = append(rest[:k:k], rest[k+1:]...)
	}
	same := true
	for i := range ds {
		if perm[i] != ds[i] {
			same = false
		}
	}
	if same {
		return
	}
	res2 := verifC17Apply(w, perm)
	verifrt.Reach("C17.block.applied-in-another-order")
	verifC17Check(w, perm, res2, "C17.block.reordered")
	verifrt.Assert(verifC17SameSuffrage(res, res2), "C17.resulting-suffrage-does-not-depend-on-operation-order")
	if res.newSuf != nil {
		verifrt.Reach("C17.block.new-suffrage-compared")
	}
}

// VerifC17ThresholdGrid: the sign counting of base.CheckFactSignsBySuffrage (used for joins and
// network policy changes) against exact arithmetic, for every one-decimal threshold 51.0 ..
// 100.0 and every number s of member signs of suffrages of 1..N nodes (all concrete: the float
// expression is evaluated, not solved). Only the accepting direction is a claim of C17.
func VerifC17ThresholdGrid() {
	n := 1 + verifrt.NondetChoice("members", verifrt.Bound("grid.members", 8, 20))
	probe := false
	if n == 1 { // plus the pair of the design document's reading: 23 of 40 at 57.5
		probe = verifrt.NondetChoice("probe", 2) == 1
		if probe {
			n = 40
		}
	}
	nodes := make([]base.Node, n)
	signs := make([]base.NodeSign, n)
	for i := range nodes {
		a := base.NewStringAddress(string([]byte{'g', byte('a' + i/26), byte('a' + i%26), 'a'}))
		k := verifC17Key{id: uint8(100 + i)}
		nodes[i] = isaac.NewNode(k, a)
		signs[i] = base.NewBaseNodeSign(a, k, k.sig(), verifC17SignedAt())
	}
	suf, err := isaac.NewSuffrage(nodes)
	verifrt.Assert(err == nil, "C17.harness.grid-suffrage")
	from, to := int64(510), int64(1000)
	if blocks := verifrt.Bound("grid.blocks", 1, 10); blocks > 1 && !probe { // split the threshold range over paths
		k := int64(verifrt.NondetChoice("thresholdblock", blocks))
		w := (to - from + int64(blocks)) / int64(blocks)
		from = from + k*w
		if from+w-1 < to {
			to = from + w - 1
		}
	}
	if probe {
		from, to = 575, 575
	}
	for t10 := from; t10 <= to; t10++ {
		th := base.Threshold(float64(t10) / 10)
		for s := 0; s <= n; s++ {
			enough := int64(s)*1000 >= t10*int64(n)
			if base.CheckFactSignsBySuffrage(suf, th, signs[:s]) == nil {
				verifrt.Assert(enough, "C17.grid.sign-sets-below-the-threshold-are-never-accepted")
			} else if enough {
				// the safe direction (design reading): an exact-threshold set refused by float rounding
				verifrt.Reach("C17.grid.exact-threshold-set-refused-by-float-rounding")
			}
		}
	}
	verifrt.Reach("C17.grid.done")
}
