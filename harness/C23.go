package isaacdatabase

import (
	"bytes"
	"context"
	"io"

	"github.com/pkg/errors"
	"github.com/spikeekips/mitum/base"
	leveldbstorage "github.com/spikeekips/mitum/storage/leveldb"
	"github.com/spikeekips/mitum/util"
	"github.com/spikeekips/mitum/util/encoder"
	"github.com/spikeekips/mitum/util/hint"
	"github.com/spikeekips/mitum/util/valuehash"
	"github.com/spikeekips/mitum/util/verifrt"
	leveldbStorage "github.com/syndtr/goleveldb/leveldb/storage"
)

// C23 Expel-operation pool lookups match the stored ranges.
//
// World: a TempPool over an empty storage; k expel operations are stored through the real
// SetSuffrageExpelOperation. Every operation has a symbolic validity range
// 0 < start <= end (64-bit), a node address of one symbolic byte and a fact hash of one
// symbolic byte (pairwise distinct, so that no record overwrites another one; the hash byte
// decides the key order between records with the same end). The real frame header and the
// real big-endian key bytes are used; only the body encoder is a harness type (it numbers
// the marshalled objects and hands them back on decode).

// ---- harness encoder (identity round trip) ----

type verifC23Enc struct {
	ht   hint.Hint
	objs []interface{}
}

func (e *verifC23Enc) Hint() hint.Hint                { return e.ht }
func (e *verifC23Enc) Add(encoder.DecodeDetail) error { return nil }
func (e *verifC23Enc) AddHinter(hint.Hinter) error    { return nil }
func (e *verifC23Enc) Unmarshal([]byte, interface{}) error {
	return errors.Errorf("not supported")
}
func (e *verifC23Enc) StreamEncoder(io.Writer) util.StreamEncoder { return nil }
func (e *verifC23Enc) StreamDecoder(io.Reader) util.StreamDecoder { return nil }
func (e *verifC23Enc) Marshal(v interface{}) ([]byte, error) {
	e.objs = append(e.objs, v)
	return []byte{byte(len(e.objs) - 1)}, nil
}

func (e *verifC23Enc) Decode(b []byte) (interface{}, error) {
	if len(b) != 1 || int(b[0]) >= len(e.objs) {
		return nil, errors.Errorf("unknown object")
	}
	return e.objs[b[0]], nil
}

func (e *verifC23Enc) DecodeWithHint(b []byte, _ hint.Hint) (interface{}, error) { return e.Decode(b) }
func (e *verifC23Enc) DecodeWithHintType(b []byte, _ hint.Type) (interface{}, error) {
	return e.Decode(b)
}
func (e *verifC23Enc) DecodeWithFixedHintType(string, int) (interface{}, error) {
	return nil, errors.Errorf("not supported")
}
func (e *verifC23Enc) DecodeSlice([]byte) ([]interface{}, error) {
	return nil, errors.Errorf("not supported")
}

// ---- harness address / fact / operation ----

type verifC23Addr []byte

func (a verifC23Addr) String() string       { return "verif-address" }
func (a verifC23Addr) Bytes() []byte        { return []byte(a) }
func (a verifC23Addr) IsValid([]byte) error { return nil }
func (a verifC23Addr) Equal(b base.Address) bool {
	return b != nil && bytes.Equal(a, b.Bytes())
}

type verifC23Fact struct {
	base.SuffrageExpelFact // not used: the pool only reads the methods below
	h                      util.Hash
	node                   verifC23Addr
	start, end             base.Height
}

func (f verifC23Fact) Hash() util.Hash         { return f.h }
func (f verifC23Fact) Node() base.Address      { return f.node }
func (f verifC23Fact) ExpelStart() base.Height { return f.start }
func (f verifC23Fact) ExpelEnd() base.Height   { return f.end }
func (f verifC23Fact) IsValid([]byte) error    { return nil }

type verifC23Op struct {
	base.SuffrageExpelOperation // not used: the pool only reads the methods below
	idx                         int
	fact                        verifC23Fact
}

func (o *verifC23Op) ExpelFact() base.SuffrageExpelFact { return o.fact }
func (o *verifC23Op) Fact() base.Fact                   { return o.fact }
func (o *verifC23Op) IsValid([]byte) error              { return nil }

// covers is 1 when the operation's range covers h and 0 otherwise. It is computed without
// branches (all heights are positive, so the differences do not overflow and their sign bit
// tells the order): the oracle then adds no paths to those of the code under test.
func (o *verifC23Op) covers(h base.Height) uint64 {
	return 1 ^ ((uint64(h-o.fact.start) | uint64(o.fact.end-h)) >> 63)
}

// ofNode is 1 when the operation's node is the given one-byte node, else 0 (branch-free).
func (o *verifC23Op) ofNode(node verifC23Addr) uint64 {
	x := uint64(o.fact.node[0] ^ node[0])
	return (x - 1) >> 63
}

// verifC23World stores k operations (k chosen in 1..max) and returns the pool and the operations.
func verifC23World() (*TempPool, []*verifC23Op) {
	st, err := leveldbstorage.NewStorage(leveldbStorage.NewMemStorage(), nil)
	verifrt.Assert(err == nil, "C23.harness.storage-opens")
	enc := &verifC23Enc{ht: hint.MustNewHint("verif-enc-v0.0.1")}
	encs := encoder.NewEncoders(enc, enc)
	db, err := newTempPool(st, encs, enc, 0)
	verifrt.Assert(err == nil, "C23.harness.pool-opens")

	k := 1 + verifrt.NondetChoice("ops", verifrt.Bound("ops", 3, 4))
	ops := make([]*verifC23Op, k)
	for i := range ops {
		start := base.Height(int64(verifrt.NondetU64("start")))
		end := base.Height(int64(verifrt.NondetU64("end")))
		verifrt.Assume(start > 0)
		verifrt.Assume(start <= end)
		hb := verifrt.NondetBytes("facthash", 1)
		if i > 0 {
			// symmetry reduction: the storage is a set of records ordered by key, the order of
			// insertion is irrelevant; insert in strictly descending key order (end, then fact
			// hash). This also makes the keys pairwise distinct (no record overwrites another).
			p := ops[i-1].fact
			gt := uint64(p.end-end-1) >> 63                         // 0 when p.end > end
			eq := (uint64(p.end-end) | uint64(end-p.end)) >> 63     // 0 when equal
			hgt := uint64(int64(hb[0])-int64(p.h.Bytes()[0])) >> 63 // 1 when previous hash byte is larger
			verifrt.Assume(gt == 0 || (eq == 0 && hgt == 1))
		}
		node := verifC23Addr(verifrt.NondetBytes("node", 1))
		ops[i] = &verifC23Op{idx: i, fact: verifC23Fact{
			h: valuehash.NewBytes(hb), node: node, start: start, end: end,
		}}
		verifrt.Assert(db.SetSuffrageExpelOperation(ops[i]) == nil, "C23.harness.set-no-error")
	}
	return db, ops
}

func verifC23Height() base.Height {
	h := base.Height(int64(verifrt.NondetU64("height")))
	verifrt.Assume(h > 0)
	return h
}

// VerifC23Traverse: traversing at a height visits exactly the operations whose range covers it.
func VerifC23Traverse() {
	db, ops := verifC23World()
	h := verifC23Height()
	visited := make([]uint64, len(ops))
	err := db.TraverseSuffrageExpelOperations(context.Background(), h, func(op base.SuffrageExpelOperation) (bool, error) {
		o, ok := op.(*verifC23Op)
		verifrt.Assert(ok, "C23.traverse.hands-out-a-stored-operation")
		if ok {
			visited[o.idx]++
		}
		return true, nil
	})
	verifrt.Reach("C23.traverse.returned")
	verifrt.Assert(err == nil, "C23.traverse.no-error")
	var ncover uint64
	for i := range ops {
		c := ops[i].covers(h)
		ncover += c
		if visited[i] == 0 {
			verifrt.Assert(c == 0, "C23.traverse.visits-every-operation-whose-range-covers-the-height")
		} else {
			verifrt.Assert(visited[i] == 1 && c == 1, "C23.traverse.visits-only-operations-whose-range-covers-the-height")
		}
	}
	if len(ops) > 1 {
		switch {
		case ncover == 0:
			verifrt.Reach("C23.traverse.none-covers")
		case ncover == uint64(len(ops)):
			verifrt.Reach("C23.traverse.all-cover")
		default:
			verifrt.Reach("C23.traverse.some-cover")
		}
	}
}

// VerifC23Lookup: looking up a node at a height finds its operation exactly when one exists.
func VerifC23Lookup() {
	db, ops := verifC23World()
	h := verifC23Height()
	node := verifC23Addr(verifrt.NondetBytes("querynode", 1))
	var exists uint64
	for i := range ops {
		exists |= ops[i].covers(h) & ops[i].ofNode(node)
	}
	op, found, err := db.SuffrageExpelOperation(h, node)
	verifrt.Reach("C23.lookup.returned")
	verifrt.Assert(err == nil, "C23.lookup.no-error")
	if found {
		verifrt.Reach("C23.lookup.found")
		verifrt.Assert(exists == 1, "C23.lookup.finds-nothing-when-no-operation-of-the-node-covers-the-height")
		o, ok := op.(*verifC23Op)
		verifrt.Assert(ok, "C23.lookup.hands-out-a-stored-operation")
		if ok {
			verifrt.Assert(o.covers(h)&o.ofNode(node) == 1,
				"C23.lookup.found-operation-is-of-the-node-and-covers-the-height")
		}
	} else {
		verifrt.Reach("C23.lookup.not-found")
		verifrt.Assert(exists == 0, "C23.lookup.finds-the-node's-operation-when-one-covers-the-height")
	}
}

// VerifC23Remove: removing by height removes exactly the operations that ended at or before it.
func VerifC23Remove() {
	db, ops := verifC23World()
	h := verifC23Height()
	verifrt.Assert(db.RemoveSuffrageExpelOperationsByHeight(h) == nil, "C23.remove.no-error")
	verifrt.Reach("C23.remove.returned")
	pst, err := db.st()
	verifrt.Assert(err == nil, "C23.harness.storage-open")
	left := 0
	for i := range ops {
		found, err := pst.Exists(newSuffrageExpelOperationKey(ops[i].fact))
		verifrt.Assert(err == nil, "C23.harness.exists-no-error")
		ended := 1 ^ (uint64(h-ops[i].fact.end) >> 63) // 1 when end <= h
		if found {
			left++
			verifrt.Reach("C23.remove.some-kept")
			verifrt.Assert(ended == 0, "C23.remove.removes-every-operation-that-ended-at-or-before-the-height")
		} else {
			verifrt.Reach("C23.remove.some-removed")
			verifrt.Assert(ended == 1, "C23.remove.keeps-operations-that-end-after-the-height")
		}
	}
	// nothing else is stored under the pool
	n := 0
	_ = pst.Iter(nil, func(_, _ []byte) (bool, error) { n++; return true, nil }, true)
	verifrt.Assert(n == left, "C23.remove.nothing-else-changed")
}

// VerifC23RemoveHistory: removal, then a late operation is stored, then removal again (at any
// height, also a lower one): after every removal exactly the operations that ended at or before
// ITS height are gone and every other stored operation is still there.
func VerifC23RemoveHistory() {
	db, ops := verifC23World()
	pst, err := db.st()
	verifrt.Assert(err == nil, "C23.harness.storage-open")
	removed := make([]bool, len(ops)+1)
	check := func(h base.Height, all []*verifC23Op) {
		for i := range all {
			found, err := pst.Exists(newSuffrageExpelOperationKey(all[i].fact))
			verifrt.Assert(err == nil, "C23.harness.exists-no-error")
			ended := 1 ^ (uint64(h-all[i].fact.end) >> 63) // 1 when end <= h
			if ended == 1 {
				removed[i] = true
			}
			if removed[i] {
				verifrt.Assert(!found, "C23.remove.removes-every-operation-that-ended-at-or-before-the-height(history)")
			} else {
				verifrt.Assert(found, "C23.remove.keeps-operations-that-end-after-the-height(history)")
			}
		}
	}
	h1 := verifC23Height()
	verifrt.Assert(db.RemoveSuffrageExpelOperationsByHeight(h1) == nil, "C23.remove.no-error")
	check(h1, ops)
	// a late arriving operation (any range; a key no stored record has: distinct fact hash byte)
	start := base.Height(int64(verifrt.NondetU64("late.start")))
	end := base.Height(int64(verifrt.NondetU64("late.end")))
	verifrt.Assume(start > 0)
	verifrt.Assume(start <= end)
	hb := verifrt.NondetBytes("late.facthash", 1)
	for i := range ops {
		verifrt.Assume(hb[0] != ops[i].fact.h.Bytes()[0])
	}
	late := &verifC23Op{idx: len(ops), fact: verifC23Fact{h: valuehash.NewBytes(hb), node: verifC23Addr(verifrt.NondetBytes("late.node", 1)), start: start, end: end}}
	verifrt.Assert(db.SetSuffrageExpelOperation(late) == nil, "C23.harness.set-no-error")
	all := append(append([]*verifC23Op{}, ops...), late)
	h2 := verifC23Height()
	verifrt.Assert(db.RemoveSuffrageExpelOperationsByHeight(h2) == nil, "C23.remove.no-error")
	verifrt.Reach("C23.removehistory.second-removal")
	check(h2, all)
}

var _ = bytes.Equal
