package launch

import (
	"io"
	"sync"

	"github.com/pkg/errors"
	"github.com/spikeekips/mitum/base"
	"github.com/spikeekips/mitum/util"
	"github.com/spikeekips/mitum/util/encoder"
	"github.com/spikeekips/mitum/util/hint"
	"github.com/spikeekips/mitum/util/verifrt"
)

// C35 while the table is reloaded: YAMLACL.Import of a changed ACL file in one goroutine, ACL.Allow
// in another. Whatever the interleaving, the decision is the one of the old table or the one of the
// new table: a user prohibited for the scope in both is denied ("an explicit prohibit always
// denies"), a user listed in neither is decided by the default user's permission of one of them.
//
// The YAML text is the two-level subset of harness/C35_util.go (the engine reads it with that
// parser, the native run with gopkg.in/yaml.v3); user names are decoded as public keys through a
// harness encoder that accepts every name.

type verifC35Key struct {
	base.Publickey // not used
	s              string
}

func (k verifC35Key) String() string { return k.s }

type verifC35Enc struct{}

func (verifC35Enc) Hint() hint.Hint                            { return hint.MustNewHint("verif-enc-v0.0.1") }
func (verifC35Enc) Add(encoder.DecodeDetail) error             { return nil }
func (verifC35Enc) AddHinter(hint.Hinter) error                { return nil }
func (verifC35Enc) Unmarshal([]byte, interface{}) error        { return errors.Errorf("not supported") }
func (verifC35Enc) StreamEncoder(io.Writer) util.StreamEncoder { return nil }
func (verifC35Enc) StreamDecoder(io.Reader) util.StreamDecoder { return nil }
func (verifC35Enc) Marshal(interface{}) ([]byte, error)        { return nil, errors.Errorf("not supported") }
func (verifC35Enc) Decode([]byte) (interface{}, error)         { return nil, errors.Errorf("not supported") }
func (verifC35Enc) DecodeWithHint([]byte, hint.Hint) (interface{}, error) {
	return nil, errors.Errorf("not supported")
}
func (verifC35Enc) DecodeWithHintType([]byte, hint.Type) (interface{}, error) {
	return nil, errors.Errorf("not supported")
}
func (verifC35Enc) DecodeWithFixedHintType(s string, _ int) (interface{}, error) {
	return verifC35Key{s: s}, nil
}
func (verifC35Enc) DecodeSlice([]byte) ([]interface{}, error) {
	return nil, errors.Errorf("not supported")
}

func VerifC35ReloadConcurrent() {
	acl, err := NewACL(33, verifC35Super)
	verifrt.Assert(err == nil, "C35.setup.NewACL")
	y := NewYAMLACL(acl)
	enc := verifC35Enc{}
	const prohibited, other, unlisted = "user-1mpu", "user-2mpu", "user-3mpu"
	t1 := "_default:\n  scope-a: oo\n" + prohibited + ":\n  scope-a: x\n"
	// the new file: the default user's permission changes, another user appears; the prohibited
	// user stays prohibited
	t2 := "_default:\n  scope-a: ooo\n" + prohibited + ":\n  scope-a: x\n" + other + ":\n  scope-b: o\n"
	if verifrt.NondetChoice("second-file", 2) == 1 {
		// or: the prohibit moves to the user's default
		t2 = "_default:\n  scope-a: ooo\n" + prohibited + ":\n  _default: x\n"
	}
	updated, err := y.Import([]byte(t1), enc)
	verifrt.Assert(err == nil && updated, "C35.harness.first-file-loads")

	var required ACLPerm
	verifrt.Assert(required.UnmarshalText([]byte("o")) == nil, "C35.harness.perm")
	who := []string{prohibited, unlisted}[verifrt.NondetChoice("who", 2)]

	var wg sync.WaitGroup
	var assigned ACLPerm
	var allowed bool
	var ierr error
	wg.Add(2)
	go func() {
		defer wg.Done()
		_, ierr = y.Import([]byte(t2), enc)
	}()
	go func() {
		defer wg.Done()
		assigned, allowed = y.Allow(who, ACLScope("scope-a"), required)
	}()
	wg.Wait()
	verifrt.Assert(ierr == nil, "C35.harness.second-file-loads")
	verifrt.Reach("C35.reload.both-returned")
	if who == prohibited {
		verifrt.Assert(!allowed, "C35.an-explicit-prohibit-always-denies(while-the-table-is-reloaded)")
		return
	}
	var oo, ooo ACLPerm
	_ = oo.UnmarshalText([]byte("oo"))
	_ = ooo.UnmarshalText([]byte("ooo"))
	verifrt.Assert(allowed && (assigned == oo || assigned == ooo),
		"C35.decided-by-the-default-user's-permission-for-the-scope(of-the-old-or-the-new-table-while-reloaded)")
	// afterwards the new table decides
	assigned, allowed = y.Allow(who, ACLScope("scope-a"), required)
	verifrt.Assert(allowed && assigned == ooo, "C35.decided-by-the-default-user's-permission-for-the-scope(after-the-reload)")
}
