package util

import (
	"strings"

	"github.com/pkg/errors"
)

// VerifYAMLOrderedMapFromText stands in (in the symbolic engine only) for
// UnmarshalWithYAMLOrderedMap on the YAML subset the C35 harness writes: a mapping of keys to
// mappings of keys to plain scalars, two spaces of indentation, no quoting, no comments:
//
//	user:
//	  scope: perm
//
// Natively the real decoder (gopkg.in/yaml.v3) reads the same text.
func VerifYAMLOrderedMapFromText(b []byte) (interface{}, error) {
	top := NewYAMLOrderedMap()
	var cur *YAMLOrderedMap
	for _, line := range strings.Split(string(b), "\n") {
		if len(strings.TrimSpace(line)) < 1 {
			continue
		}
		i := strings.Index(line, ":")
		if i < 0 {
			return nil, errors.Errorf("verif yaml subset: no colon in %q", line)
		}
		k, v := strings.TrimSpace(line[:i]), strings.TrimSpace(line[i+1:])
		switch {
		case !strings.HasPrefix(line, " "):
			if len(v) > 0 {
				return nil, errors.Errorf("verif yaml subset: scalar at top level")
			}
			cur = NewYAMLOrderedMap()
			top.Set(k, cur)
		case cur == nil:
			return nil, errors.Errorf("verif yaml subset: indented line before a key")
		default:
			cur.Set(k, v)
		}
	}
	return top, nil
}
