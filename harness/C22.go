package isaacdatabase

import (
	"context"
	"io"

	"github.com/pkg/errors"
	"github.com/spikeekips/mitum/base"
	"github.com/spikeekips/mitum/isaac"
	leveldbstorage "github.com/spikeekips/mitum/storage/leveldb"
	"github.com/spikeekips/mitum/util"
	"github.com/spikeekips/mitum/util/encoder"
	"github.com/spikeekips/mitum/util/hint"
	"github.com/spikeekips/mitum/util/valuehash"
	"github.com/spikeekips/mitum/util/verifrt"
	leveldbStorage "github.com/syndtr/goleveldb/leveldb/storage"
)

// C22 Operation pool hands out a valid, de-duplicated operation set.
//
// World: a TempPool over an empty storage (no operation cache); k operations are added with
// the real SetOperation, one after the other (the clock advances between them, so "most
// recently added" is the order of the calls). Operation i has the hash {i}; its fact is chosen
// among the facts used so far or a new one (restricted growth: fact numbering carries no
// information), i.e. every partition of the k operations into facts is explored - the same
// fact signed again gives a new operation hash with the same fact hash. The filter's verdict
// for an operation is chosen when the pool first asks for it. Record headers and keys are the
// real ones; only the body encoder is a harness type.
//
// Readings (the weaker one is encoded where the statement leaves room):
//  * "passes the filter": the filter was called for the returned operation and accepted it.
//  * "the most recently added operation is chosen": among the operations of the entry's fact
//    which the pool showed to the filter and which the filter accepted (operations behind the
//    point where the scan stopped because L entries were collected are not counted).
//  * limits: L >= 1 (the only caller, launch/p_proposal_maker.go, returns early for n < 1).

// ---- harness encoder (identity round trip) ----

type verifC22Enc struct {
	ht   hint.Hint
	objs []interface{}
}

func (e *verifC22Enc) Hint() hint.Hint                { return e.ht }
func (e *verifC22Enc) Add(encoder.DecodeDetail) error { return nil }
func (e *verifC22Enc) AddHinter(hint.Hinter) error    { return nil }
func (e *verifC22Enc) Unmarshal([]byte, interface{}) error {
	return errors.Errorf("not supported")
}
func (e *verifC22Enc) StreamEncoder(io.Writer) util.StreamEncoder { return nil }
func (e *verifC22Enc) StreamDecoder(io.Reader) util.StreamDecoder { return nil }
func (e *verifC22Enc) Marshal(v interface{}) ([]byte, error) {
	e.objs = append(e.objs, v)
	return []byte{byte(len(e.objs) - 1)}, nil
}

func (e *verifC22Enc) Decode(b []byte) (interface{}, error) {
	if len(b) != 1 || int(b[0]) >= len(e.objs) {
		return nil, errors.Errorf("unknown object")
	}
	return e.objs[b[0]], nil
}

func (e *verifC22Enc) DecodeWithHint(b []byte, _ hint.Hint) (interface{}, error) { return e.Decode(b) }
func (e *verifC22Enc) DecodeWithHintType(b []byte, _ hint.Type) (interface{}, error) {
	return e.Decode(b)
}
func (e *verifC22Enc) DecodeWithFixedHintType(string, int) (interface{}, error) {
	return nil, errors.Errorf("not supported")
}
func (e *verifC22Enc) DecodeSlice([]byte) ([]interface{}, error) {
	return nil, errors.Errorf("not supported")
}

// ---- harness fact / operation ----

type verifC22Fact struct {
	base.Fact // not used: the pool only reads the methods below
	h         util.Hash
	ht        hint.Hint
}

func (f verifC22Fact) Hash() util.Hash      { return f.h }
func (f verifC22Fact) Hint() hint.Hint      { return f.ht }
func (f verifC22Fact) IsValid([]byte) error { return nil }

type verifC22Op struct {
	base.Operation // not used: the pool only reads the methods below
	idx            int
	factid         int
	h              util.Hash
	fact           verifC22Fact
}

func (o *verifC22Op) Hash() util.Hash      { return o.h }
func (o *verifC22Op) Fact() base.Fact      { return o.fact }
func (o *verifC22Op) IsValid([]byte) error { return nil }

func verifC22Pool() *TempPool {
	st, err := leveldbstorage.NewStorage(leveldbStorage.NewMemStorage(), nil)
	verifrt.Assert(err == nil, "C22.harness.storage-opens")
	enc := &verifC22Enc{ht: hint.MustNewHint("verif-enc-v0.0.1")}
	encs := encoder.NewEncoders(enc, enc)
	db, err := newTempPool(st, encs, enc, 0)
	verifrt.Assert(err == nil, "C22.harness.pool-opens")
	return db
}

func verifC22NewOp(idx, factid int) *verifC22Op {
	return &verifC22Op{
		idx: idx, factid: factid,
		h: valuehash.NewBytes([]byte{byte(idx)}),
		fact: verifC22Fact{
			h:  valuehash.NewBytes([]byte{0xf0, byte(factid)}),
			ht: hint.MustNewHint("verif-fact-v0.0.1"),
		},
	}
}

// verifC22Add adds k operations over a chosen partition into facts.
func verifC22Add(db *TempPool, k int) []*verifC22Op {
	ops := make([]*verifC22Op, k)
	nfacts := 0
	for i := range ops {
		f := verifrt.NondetChoice("fact", nfacts+1)
		if f == nfacts {
			nfacts++
		}
		ops[i] = verifC22NewOp(i, f)
		added, err := db.SetOperation(context.Background(), ops[i])
		verifrt.Assert(err == nil && added, "C22.harness.new-operation-is-added")
	}
	return ops
}

func verifC22OpOf(ops []*verifC22Op, h util.Hash) int {
	if h == nil {
		return -1
	}
	b := h.Bytes()
	if len(b) != 1 || int(b[0]) >= len(ops) {
		return -1
	}
	return int(b[0])
}

// verifC22CheckResult checks the clauses that hold for every hand-out: size, distinctness, stored.
func verifC22CheckResult(db *TempPool, ops []*verifC22Op, rs [][2]util.Hash, limit int) []int {
	verifrt.Assert(len(rs) <= limit, "C22.returns-at-most-L-entries")
	ids := make([]int, len(rs))
	for i := range rs {
		id := verifC22OpOf(ops, rs[i][0])
		verifrt.Assert(id >= 0, "C22.every-entry-is-stored-in-the-pool")
		if id < 0 {
			return nil
		}
		ids[i] = id
		verifrt.Assert(rs[i][1] != nil && rs[i][1].Equal(ops[id].fact.h), "C22.harness.entry-fact-is-the-fact-of-its-operation")
		op, found, err := db.Operation(context.Background(), rs[i][0])
		verifrt.Assert(err == nil && found, "C22.every-entry-is-stored-in-the-pool")
		if found && err == nil {
			o, ok := op.(*verifC22Op)
			verifrt.Assert(ok && o == ops[id], "C22.every-entry-is-stored-in-the-pool")
		}
		for j := 0; j < i; j++ {
			verifrt.Assert(ids[j] != id, "C22.entries-have-pairwise-distinct-operations")
			verifrt.Assert(ops[ids[j]].factid != ops[id].factid, "C22.entries-have-pairwise-distinct-facts")
		}
	}
	return ids
}

// VerifC22HandOut: one OperationHashes(limit, filter) over an arbitrary pool, then a second
// call with an accept-all filter.
func VerifC22HandOut() {
	db := verifC22Pool()
	k := 1 + verifrt.NondetChoice("ops", verifrt.Bound("ops", 4, 5))
	ops := verifC22Add(db, k)
	maxlimit := verifrt.Bound("limit", 4, 6)
	if maxlimit > k+1 {
		maxlimit = k + 1 // larger limits behave like k+1: the limit is never reached
	}
	limit := 1 + verifrt.NondetChoice("limit", maxlimit)

	verdict := make([]int, k) // -1: not asked, 0: rejected, 1: accepted
	for i := range verdict {
		verdict[i] = -1
	}
	filter := func(meta isaac.PoolOperationRecordMeta) (bool, error) {
		id := verifC22OpOf(ops, meta.Operation())
		verifrt.Assert(id >= 0, "C22.harness.filter-sees-stored-operations")
		if id < 0 {
			return false, nil
		}
		if verdict[id] < 0 {
			verdict[id] = verifrt.NondetChoice("filter", 2)
		}
		return verdict[id] == 1, nil
	}

	rs, err := db.OperationHashes(context.Background(), base.Height(33), uint64(limit), filter)
	verifrt.Reach("C22.handout.returned")
	verifrt.Assert(err == nil, "C22.handout.no-error")
	ids := verifC22CheckResult(db, ops, rs, limit)
	for _, id := range ids {
		verifrt.Assert(verdict[id] == 1, "C22.every-entry-passes-the-filter")
		for j := id + 1; j < k; j++ {
			verifrt.Assert(!(ops[j].factid == ops[id].factid && verdict[j] == 1),
				"C22.for-a-fact-submitted-several-times-the-most-recently-added-operation-is-chosen")
		}
		for j := 0; j < id; j++ {
			if ops[j].factid == ops[id].factid && verdict[j] == 1 {
				verifrt.Reach("C22.handout.latest-of-a-repeated-fact-chosen")
			}
		}
	}
	if len(rs) == limit {
		verifrt.Reach("C22.handout.limit-reached")
	}

	// second call: what the first filter rejected is not handed out again
	rs2, err := db.OperationHashes(context.Background(), base.Height(34), uint64(k+1), nil)
	verifrt.Reach("C22.second.returned")
	verifrt.Assert(err == nil, "C22.second.no-error")
	ids2 := verifC22CheckResult(db, ops, rs2, k+1)
	for _, id := range ids2 {
		verifrt.Assert(verdict[id] != 0, "C22.filtered-out-operations-are-not-returned-again")
	}
	for i := range verdict {
		if verdict[i] == 0 {
			verifrt.Reach("C22.second.after-some-rejection")
		}
	}
}

// VerifC22Idempotent: adding an operation that is already in the pool changes nothing.
func VerifC22Idempotent() {
	db := verifC22Pool()
	k := 1 + verifrt.NondetChoice("ops", verifrt.Bound("idem_ops", 3, 4))
	ops := verifC22Add(db, k)
	again := verifrt.NondetChoice("again", k)
	// the same operation, submitted as a fresh object
	added, err := db.SetOperation(context.Background(), verifC22NewOp(again, ops[again].factid))
	verifrt.Reach("C22.idempotent.added-again")
	verifrt.Assert(err == nil, "C22.idempotent.no-error")
	verifrt.Assert(!added, "C22.adding-an-operation-is-idempotent")
	rs, err := db.OperationHashes(context.Background(), base.Height(33), uint64(k+1), nil)
	verifrt.Assert(err == nil, "C22.idempotent.handout-no-error")
	ids := verifC22CheckResult(db, ops, rs, k+1)
	n := 0
	for _, id := range ids {
		if id == again {
			n++
		}
	}
	verifrt.Assert(n <= 1, "C22.adding-an-operation-is-idempotent")
}

// VerifC22ResubmitFilteredOut: an operation that a hand-out filtered out (the filter rejected it)
// is submitted again before the pool's periodic cleanup: adding it is still idempotent (it is still
// stored), and it is not returned again.
func VerifC22ResubmitFilteredOut() {
	db := verifC22Pool()
	k := 1 + verifrt.NondetChoice("ops", verifrt.Bound("resubmit_ops", 2, 3))
	ops := verifC22Add(db, k)
	rejected := verifrt.NondetChoice("rejected", k)
	rs, err := db.OperationHashes(context.Background(), base.Height(33), uint64(k+1),
		func(meta isaac.PoolOperationRecordMeta) (bool, error) {
			return !meta.Operation().Equal(ops[rejected].h), nil
		})
	verifrt.Assert(err == nil, "C22.resubmit.no-error")
	for _, r := range rs {
		verifrt.Assert(!r[0].Equal(ops[rejected].h), "C22.every-entry-passes-the-filter")
	}
	added, err := db.SetOperation(context.Background(), verifC22NewOp(rejected, ops[rejected].factid))
	verifrt.Reach("C22.resubmit.added-again")
	verifrt.Assert(err == nil, "C22.resubmit.no-error")
	verifrt.Assert(!added, "C22.adding-an-operation-is-idempotent(filtered-out-operation-submitted-again)")
	rs, err = db.OperationHashes(context.Background(), base.Height(34), uint64(k+1), nil)
	verifrt.Assert(err == nil, "C22.resubmit.no-error")
	for _, r := range rs {
		verifrt.Assert(!r[0].Equal(ops[rejected].h), "C22.filtered-out-operations-are-not-returned-again(after-being-submitted-again)")
	}
}

// VerifC22Repeat: two successive hand-outs with an accept-all filter and a limit that is never
// reached. This entry encodes the STRONGER reading of "for a fact submitted several times the
// most recently added operation is chosen", namely on every call: no operation was rejected by
// a filter, every operation is still stored in the pool, so the entry of a fact has to be its
// most recently added operation in the second call as in the first one. (VerifC22HandOut
// encodes the weaker reading; a failure here alone is reading-dependent.)
func VerifC22Repeat() {
	db := verifC22Pool()
	k := 1 + verifrt.NondetChoice("ops", verifrt.Bound("repeat_ops", 3, 4))
	ops := verifC22Add(db, k)
	for call := 0; call < 2; call++ {
		rs, err := db.OperationHashes(context.Background(), base.Height(33+call), uint64(k+1), nil)
		verifrt.Assert(err == nil, "C22.repeat.no-error")
		ids := verifC22CheckResult(db, ops, rs, k+1)
		for _, id := range ids {
			for j := id + 1; j < k; j++ {
				if ops[j].factid != ops[id].factid {
					continue
				}
				_, found, err := db.Operation(context.Background(), ops[j].h)
				verifrt.Assert(err == nil && found, "C22.harness.repeat.later-operation-still-stored")
				if call == 0 {
					verifrt.Assert(false, "C22.for-a-fact-submitted-several-times-the-most-recently-added-operation-is-chosen")
				} else {
					verifrt.Assert(false, "C22.second-call.for-a-fact-submitted-several-times-the-most-recently-added-operation-is-chosen")
				}
			}
			for j := 0; j < id; j++ {
				if ops[j].factid == ops[id].factid {
					verifrt.Reach("C22.repeat.latest-of-a-repeated-fact-chosen")
				}
			}
		}
	}
	verifrt.Reach("C22.repeat.returned")
}
