package isaacdatabase

import (
	"bytes"
	"context"

	"github.com/spikeekips/mitum/base"
	"github.com/spikeekips/mitum/util/verifrt"
)

// C20 over the whole stack (Center + temp databases + permanent database, see DB_common.go): at the
// end of a history of block commits, merge steps into the permanent database, RemoveBlocks and reads,
// every read is taken, the permanent database and the Center are constructed anew over the storage
// (close and reopen), and every read is taken again: same objects (the harness codec decodes a body
// to the very object that was encoded) and the same raw bytes.

type verifC20Read struct {
	name    string
	obj     interface{}
	found   bool
	failed  bool
	enchint string
	meta    []byte
	body    []byte
}

func verifC20Snapshot(w *verifDBWorld, all []*verifDBBlock) []verifC20Read {
	db := w.center
	var rs []verifC20Read
	obj := func(name string, o interface{}, found bool, err error) {
		rs = append(rs, verifC20Read{name: name, obj: o, found: found, failed: err != nil})
	}
	raw := func(name string, enchint string, meta, body []byte, found bool, err error) {
		rs = append(rs, verifC20Read{name: name, enchint: enchint, meta: meta, body: body, found: found, failed: err != nil})
	}
	maxh, maxsh := base.Height(-1), base.Height(-1)
	for _, b := range all {
		if b.height > maxh {
			maxh = b.height
		}
		if b.proof != nil && b.proof.SuffrageHeight() > maxsh {
			maxsh = b.proof.SuffrageHeight()
		}
	}
	{
		m, found, err := db.LastBlockMap()
		obj("last-block-map", m, found, err)
		enchint, meta, body, found, err := db.LastBlockMapBytes()
		raw("last-block-map-bytes", enchint, meta, body, found, err)
	}
	for h := base.Height(0); h <= maxh+1; h++ {
		m, found, err := db.BlockMap(h)
		obj("block-map", m, found, err)
		enchint, meta, body, found, err := db.BlockMapBytes(h)
		raw("block-map-bytes", enchint, meta, body, found, err)
		p, found, err := db.SuffrageProofByBlockHeight(h)
		obj("suffrage-proof-by-block-height", p, found, err)
	}
	{
		p, found, err := db.LastSuffrageProof()
		obj("last-suffrage-proof", p, found, err)
		enchint, meta, body, found, _, err := db.LastSuffrageProofBytes()
		raw("last-suffrage-proof-bytes", enchint, meta, body, found, err)
	}
	for sh := base.Height(0); sh <= maxsh+1; sh++ {
		p, found, err := db.SuffrageProof(sh)
		obj("suffrage-proof", p, found, err)
		enchint, meta, body, found, err := db.SuffrageProofBytes(sh)
		raw("suffrage-proof-bytes", enchint, meta, body, found, err)
	}
	obj("last-network-policy", db.LastNetworkPolicy(), true, nil)
	seen := map[string]bool{}
	for _, b := range all {
		for i, st := range b.states {
			if !seen[st.key] {
				seen[st.key] = true
				got, found, err := db.State(st.key)
				obj("state", got, found, err)
				enchint, meta, body, found, err := db.StateBytes(st.key)
				raw("state-bytes", enchint, meta, body, found, err)
			}
			found, err := db.ExistsInStateOperation(st.ops[0])
			obj("in-state-operation", nil, found, err)
			found, err = db.ExistsKnownOperation(b.ops[i])
			obj("known-operation", nil, found, err)
		}
	}
	return rs
}

func verifC20SameReads(before, after []verifC20Read) {
	verifrt.Assert(len(before) == len(after), "C20.harness.same-reads-taken")
	for i := range before {
		a, b := before[i], after[i]
		verifrt.Assert(!a.failed && !b.failed, "C20.center."+a.name+".no-error")
		verifrt.Assert(a.found == b.found && a.obj == b.obj,
			"C20.center.after-close-and-reopen-"+a.name+"-returns-the-same-object-as-before-closing")
		verifrt.Assert(a.enchint == b.enchint && bytes.Equal(a.meta, b.meta) && bytes.Equal(a.body, b.body),
			"C20.center.after-close-and-reopen-"+a.name+"-returns-the-same-raw-bytes-as-before-closing")
	}
}

// VerifC20CenterReopen: genesis, then every history of `steps` steps out of: commit the next block
// (3 shapes), one merge step into the permanent database, RemoveBlocks(last), read everything; state
// caches off, of one entry (so that entries are evicted) or of four. Then: reads, reopen, reads.
func VerifC20CenterReopen() {
	cache := []int{0, 1, 4}[verifrt.NondetChoice("statecache", 3)]
	w := verifDBNewWorld(cache)
	h := &verifC20Hist{w: w}
	h.write(0)
	steps := verifrt.Bound("center.steps", 3, 4)
	for i := 0; i < steps; i++ {
		switch op := verifrt.NondetChoice("step", 6); op {
		case 0, 1, 2:
			h.write(op)
		case 3:
			h.merge()
		case 4:
			removed, err := w.center.RemoveBlocks(base.Height(len(h.chain) - 1))
			verifrt.Assert(err == nil, "C20.harness.remove-blocks-succeeds")
			if removed {
				h.chain = h.chain[:len(h.chain)-1]
				verifrt.Reach("C20.center.step.blocks-removed")
			}
		default:
			_ = verifC20Snapshot(w, h.all)
		}
	}
	h.reopenAndCompare()
}

// VerifC20CachedStates: the state caches against merges. Permanent state cache of 4 entries, block
// write state cache of 1 entry (evictions) or 4. Genesis and block 1, genesis merged into the
// permanent database, ONE state read (which the permanent database may cache), blocks 2 and 3 of any
// shapes (they may set the key that was read), 0..2 merge steps; then reads, reopen, reads.
func VerifC20CachedStates() {
	w := verifDBNewWorld(4)
	w.wcache = []int{1, 4}[verifrt.NondetChoice("write-statecache", 2)]
	h := &verifC20Hist{w: w}
	h.write(0)
	h.write(verifrt.NondetChoice("shape1", 3))
	h.merge()
	key := []string{"sa", "sb"}[verifrt.NondetChoice("read-key", 2)]
	_, _, err := w.center.State(key)
	verifrt.Assert(err == nil, "C20.harness.state-read")
	h.write(verifrt.NondetChoice("shape2", 3))
	h.write(verifrt.NondetChoice("shape3", 3))
	for m := verifrt.NondetChoice("merges", 3); m > 0; m-- {
		h.merge()
	}
	h.reopenAndCompare()
}

type verifC20Hist struct {
	w          *verifDBWorld
	chain, all []*verifDBBlock
	gen        int
}

func (h *verifC20Hist) merge() {
	merged, err := h.w.center.mergePermanent(context.Background())
	verifrt.Assert(err == nil, "C20.harness.merge-into-permanent-succeeds")
	if merged {
		verifrt.Reach("C20.center.step.merged-into-permanent")
	}
}

func (h *verifC20Hist) reopenAndCompare() {
	before := verifC20Snapshot(h.w, h.all)
	h.w.open()
	after := verifC20Snapshot(h.w, h.all)
	verifrt.Reach("C20.center.reopened")
	verifC20SameReads(before, after)
}

func (h *verifC20Hist) write(shape int) {
	{
		w, chain, all, gen := h.w, h.chain, h.all, h.gen
		height := base.Height(len(chain))
		var blk *verifDBBlock
		switch {
		case height == 0:
			blk = verifDBNewBlock(height, gen, 0, true, []byte{'a'})
		case shape == 0:
			blk = verifDBNewBlock(height, gen, -1, false, []byte{'a'})
		case shape == 1:
			sh := 0
			for _, c := range chain {
				if c.proof != nil {
					sh = int(c.proof.SuffrageHeight()) + 1
				}
			}
			blk = verifDBNewBlock(height, gen, sh, false, []byte{'b'})
		default:
			blk = verifDBNewBlock(height, gen, -1, true, []byte{'a', 'b'})
		}
		gen++
		verifrt.Assert(w.writeBlock(blk, false) == nil, "C20.harness.block-write-and-merge-succeed")
		chain = append(chain, blk)
		all = append(all, blk)
		h.chain, h.all, h.gen = chain, all, gen
	}
}
