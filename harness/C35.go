package launch

import (
	"github.com/spikeekips/mitum/util/verifrt"
)

// ---------------------------------------------------------------------------
// C35 Access control decisions follow the documented precedence.
//
// Preconditions taken from the real entry points:
//   * tables are installed through (*ACL).setUser, the only writer used by
//     loadACLFromYAML; every stored perm passed ACLPerm.IsValid there (1..79).
//   * `required` is a non-empty perm (1..255). ACLPerm(0) is the "<empty perm>"
//     that IsValid rejects; no caller passes it (callers pass Read/WriteAllowACLPerm).
//   * "the superuser is always allowed" is read for requests that ask for an allow
//     level (required != prohibit): Allow() answers a request *for* the prohibit
//     level with "denied" for everybody, which is the clause "an explicit prohibit
//     always denies" applied to the request itself. (weaker reading of the two)

const (
	verifC35Super = "su"
	verifC35Scope = ACLScope("scope-a")
	verifC35Other = ACLScope("scope-b")
)

// verifC35Entry returns (present, perm): presence is a concrete choice, the perm is a
// symbolic valid perm.
func verifC35Entry(name string) (bool, ACLPerm) {
	if verifrt.NondetChoice(name+".present", 2) == 0 {
		return false, 0
	}
	return true, verifC35Perm(name)
}

// verifC35Perm: a symbolic valid perm.
func verifC35Perm(name string) ACLPerm {
	p := ACLPerm(verifrt.NondetU8(name + ".perm"))
	verifrt.Assume(p-1 <= aclPermSuper-1) // 1 <= p <= 79, i.e. p.IsValid(nil) == nil (one term, no fork)
	return p
}

// VerifC35Allow: ACL.Allow over every presence pattern of the four relevant table
// entries (plus an unrelated entry that keeps a user's map non-empty), every valid
// stored perm, every non-empty required perm.
func VerifC35Allow() {
	mapsize := uint64(33) // the production value (launch/p_acl.go): a sharded map
	if verifrt.Bound("mapkinds", 1, 2) == 2 && verifrt.NondetChoice("single-map", 2) == 1 {
		mapsize = 1 // util.SingleLockedMap
	}
	acl, err := NewACL(mapsize, verifC35Super)
	verifrt.Assert(err == nil, "C35.setup.NewACL")
	if err != nil {
		return
	}

	// who asks: 0 ordinary user, 1 the superuser, 2 an unknown user (no table at all), 3 the default user itself
	who := verifrt.NondetChoice("who", verifrt.Bound("who-kinds", 3, 4))
	user := "user-1"
	switch who {
	case 1:
		user = verifC35Super
	case 2:
		user = "user-2"
	case 3:
		user = defaultACLUser
	}

	var usPresent, udPresent, dsPresent, ddPresent bool
	var usPerm, udPerm, dsPerm, ddPerm ACLPerm
	if who == 1 && verifrt.Bound("superuser-all-tables", 0, 1) == 0 {
		// quick: for the superuser only the empty and the full table (the perms stay symbolic)
		if verifrt.NondetChoice("superuser.full-table", 2) == 1 {
			usPresent, udPresent, dsPresent, ddPresent = true, true, true, true
			usPerm, udPerm = verifC35Perm("user/scope"), verifC35Perm("user/default")
			dsPerm, ddPerm = verifC35Perm("default/scope"), verifC35Perm("default/default")
		}
	} else {
		usPresent, usPerm = verifC35Entry("user/scope")
		udPresent, udPerm = verifC35Entry("user/default")
		dsPresent, dsPerm = verifC35Entry("default/scope")
		ddPresent, ddPerm = verifC35Entry("default/default")
	}
	// an unrelated entry keeps a map non-empty (a stored user without scope and without
	// default); it only matters when both relevant entries are absent
	var uoPresent, doPresent bool
	var uoPerm, doPerm ACLPerm
	if !usPresent && !udPresent {
		uoPresent, uoPerm = verifC35Entry("user/other")
	}
	if !dsPresent && !ddPresent {
		doPresent, doPerm = verifC35Entry("default/other")
	}

	um := map[ACLScope]ACLPerm{}
	if usPresent {
		um[verifC35Scope] = usPerm
	}
	if udPresent {
		um[defaultACLScope] = udPerm
	}
	if uoPresent {
		um[verifC35Other] = uoPerm
	}
	dm := map[ACLScope]ACLPerm{}
	if dsPresent {
		dm[verifC35Scope] = dsPerm
	}
	if ddPresent {
		dm[defaultACLScope] = ddPerm
	}
	if doPresent {
		dm[verifC35Other] = doPerm
	}
	// as loadACLFromYAML does: users with an empty perm map are not stored
	if len(um) > 0 {
		_, _, err := acl.setUser("user-1", um)
		verifrt.Assert(err == nil, "C35.setup.setUser")
	}
	if len(dm) > 0 {
		_, _, err := acl.setUser(defaultACLUser, dm)
		verifrt.Assert(err == nil, "C35.setup.setUser-default")
	}
	// the superuser can not be given a table
	{
		_, _, err := acl.setUser(verifC35Super, map[ACLScope]ACLPerm{verifC35Scope: aclPermProhibit})
		verifrt.Assert(err != nil, "C35.setup.superuser-table-rejected")
	}

	required := ACLPerm(verifrt.NondetU8("required"))
	verifrt.Assume(required != 0)

	assigned, allow := acl.Allow(user, verifC35Scope, required)
	verifrt.Reach("C35.allow.returned")

	// ---- oracle: the documented precedence
	var decided bool
	var perm ACLPerm
	if who == 0 {
		switch {
		case usPresent:
			decided, perm = true, usPerm
			verifrt.Reach("C35.allow.decided-by-user-scope")
		case udPresent:
			decided, perm = true, udPerm
			verifrt.Reach("C35.allow.decided-by-user-default")
		}
	}
	if !decided {
		switch {
		case dsPresent:
			decided, perm = true, dsPerm
			verifrt.Reach("C35.allow.decided-by-default-user-scope")
		case ddPresent:
			decided, perm = true, ddPerm
			verifrt.Reach("C35.allow.decided-by-default-user-default")
		}
	}

	if who == 1 {
		if required != aclPermProhibit {
			verifrt.Reach("C35.allow.superuser")
			verifrt.Assert(allow, "C35.the-superuser-is-always-allowed")
		}
		return
	}

	if !decided {
		verifrt.Reach("C35.allow.no-entry")
		verifrt.Assert(!allow, "C35.no-permission-anywhere-denies")
		return
	}

	if perm == aclPermProhibit {
		verifrt.Reach("C35.allow.prohibit")
		verifrt.Assert(!allow, "C35.an-explicit-prohibit-always-denies")
	}
	if required == aclPermProhibit {
		// a request for the prohibit level: denied (see header); nothing else is claimed
		verifrt.Assert(!allow, "C35.prohibit-required-denies")
		return
	}
	verifrt.Assert(assigned == perm, "C35.decided-by-user-scope-else-user-default-else-default-user-scope-else-default-user-default(assigned-perm)")
	// (a deciding prohibit is 1 < required here, so ">= required" already denies it; asserted above too)
	verifrt.Assert(allow == (perm >= required),
		"C35.decided-by-user-scope-else-user-default-else-default-user-scope-else-default-user-default(decision)")
	if allow {
		verifrt.Reach("C35.allow.allowed")
	} else {
		verifrt.Reach("C35.allow.denied")
	}
}

// VerifC35TextRoundTrip: every valid perm prints to a text that parses back to the
// same perm (MarshalText/String then UnmarshalText). All 256 uint8 values are
// enumerated; the claim is made for the valid ones (IsValid == nil).
// Reading: "a permission prints to and parses from text unchanged" = perm -> text -> perm.
func VerifC35TextRoundTrip() {
	for i := 0; i < 256; i++ {
		verifC35RoundTrip(ACLPerm(i))
	}
}

func verifC35RoundTrip(p ACLPerm) {
	valid := p.IsValid(nil) == nil
	verifrt.Assert(valid == (p >= 1 && p <= 79), "C35.text.valid-perms-are-1..79")
	if !valid {
		verifrt.Reach("C35.text.invalid-perm")
		return
	}
	b, err := p.MarshalText()
	verifrt.Assert(err == nil, "C35.text.prints")
	verifrt.Assert(string(b) == p.String(), "C35.text.MarshalText-is-String")
	var q ACLPerm
	err = q.UnmarshalText(b)
	verifrt.Reach("C35.text.parsed")
	verifrt.Assert(err == nil, "C35.text.printed-perm-parses")
	verifrt.Assert(q == p, "C35.text.prints-and-parses-unchanged")
	// and through the YAML value conversion used when tables are loaded
	c, err := convertACLPerm(string(b))
	verifrt.Assert(err == nil && c == p, "C35.text.prints-and-parses-unchanged(convertACLPerm)")
	switch p {
	case aclPermProhibit:
		verifrt.Reach("C35.text.prohibit")
	case aclPermSuper:
		verifrt.Reach("C35.text.super")
	}
}

// VerifC35TextParse: a symbolic text of up to T bytes: UnmarshalText accepts exactly
// "x", "s" and "o"+, and what it accepts prints back to the same text (text -> perm -> text;
// within the bound the parsed perm never reaches the super value by counting).
func VerifC35TextParse() {
	T := verifrt.Bound("T", 3, 5)
	n := verifrt.NondetChoice("len", T+1)
	b := verifrt.NondetBytes("text", n)
	var q ACLPerm
	err := q.UnmarshalText(b)
	verifrt.Reach("C35.parse.returned")
	allO := n > 0
	for i := range b {
		if b[i] != 'o' {
			allO = false
		}
	}
	special := n == 1 && (b[0] == 'x' || b[0] == 's')
	verifrt.Assert((err == nil) == (allO || special), "C35.parse.accepts-exactly-x-s-and-o+")
	if err != nil {
		verifrt.Reach("C35.parse.rejected")
		return
	}
	verifrt.Reach("C35.parse.accepted")
	verifrt.Assert(q.IsValid(nil) == nil, "C35.parse.parsed-perm-is-valid")
	verifrt.Assert(q.String() == string(b), "C35.parse.parsed-perm-prints-the-same-text")
}
