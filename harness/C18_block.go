package isaacblock

import (
	"context"
	"time"

	"github.com/spikeekips/mitum/base"
	"github.com/spikeekips/mitum/isaac"
	"github.com/spikeekips/mitum/util"
	"github.com/spikeekips/mitum/util/fixedtree"
	"github.com/spikeekips/mitum/util/valuehash"
	"github.com/spikeekips/mitum/util/verifrt"
)

// C18, second part: the same Build with the REAL proof type (isaacblock.SuffrageProof) as the
// remote's answer, over harness block map / state values. Only the "never panics" clause is
// checked here (the merkle proof inside Prove needs real hashing and is not reached on the paths
// of interest: Prove fails or panics before it).

type verifC18bManifest struct {
	base.Manifest
	h base.Height
}

func (m verifC18bManifest) Height() base.Height { return m.h }
func (verifC18bManifest) ProposedAt() time.Time { return time.Time{} }

type verifC18bMap struct {
	base.BlockMap
	m verifC18bManifest
}

func (m verifC18bMap) Manifest() base.Manifest { return m.m }

type verifC18bValue struct {
	sh base.Height
}

func (verifC18bValue) HashBytes() []byte                    { return nil }
func (verifC18bValue) IsValid([]byte) error                 { return nil }
func (v verifC18bValue) Height() base.Height                { return v.sh }
func (verifC18bValue) Nodes() []base.SuffrageNodeStateValue { return nil }
func (verifC18bValue) Suffrage() (base.Suffrage, error)     { return nil, nil }

type verifC18bState struct {
	hash util.Hash
	prev util.Hash
	v    verifC18bValue
	h    base.Height
}

func (s *verifC18bState) Hash() util.Hash        { return s.hash }
func (*verifC18bState) IsValid([]byte) error     { return nil }
func (*verifC18bState) Key() string              { return isaac.SuffrageStateKey }
func (s *verifC18bState) Value() base.StateValue { return s.v }
func (s *verifC18bState) Height() base.Height    { return s.h }
func (s *verifC18bState) Previous() util.Hash    { return s.prev }
func (*verifC18bState) Operations() []util.Hash  { return nil }

// verifC18bLast is the remote's last proof (only its validity and heights are used by Build).
type verifC18bLast struct {
	st *verifC18bState
}

func (*verifC18bLast) IsValid([]byte) error             { return nil }
func (*verifC18bLast) Map() base.BlockMap               { return nil }
func (p *verifC18bLast) State() base.State              { return p.st }
func (*verifC18bLast) Proof() (t fixedtree.Proof)       { return t }
func (*verifC18bLast) Suffrage() (base.Suffrage, error) { return nil, nil }
func (p *verifC18bLast) SuffrageHeight() base.Height    { return p.st.v.sh }
func (*verifC18bLast) Prove(base.State) error           { return nil }

// VerifC18RealProofFirstAnswer: no local state, the remote's last proof is at suffrage height 0,
// and the answer to the single request (suffrage height 0) is a real SuffrageProof whose state
// has suffrage height 0 and whose block height is symbolic (a proof that is valid in itself:
// state height == manifest height). Build must return, not panic.
func VerifC18RealProofFirstAnswer() {
	bh := base.Height(int64(verifrt.NondetInt("answer.blockheight")))
	verifrt.Assume(bh >= base.GenesisHeight) // a valid manifest height
	st := &verifC18bState{
		hash: valuehash.NewBytes([]byte{7}),
		prev: valuehash.NewBytes([]byte{6}),
		v:    verifC18bValue{sh: base.GenesisHeight},
		h:    bh,
	}
	answer := NewSuffrageProof(verifC18bMap{m: verifC18bManifest{h: bh}}, st, fixedtree.Proof{})
	last := &verifC18bLast{st: &verifC18bState{hash: st.hash, prev: st.prev, v: verifC18bValue{sh: base.GenesisHeight}, h: bh}}

	s := isaac.NewSuffrageStateBuilder(
		nil,
		func(context.Context) (base.Height, base.SuffrageProof, bool, error) {
			return base.Height(777), last, true, nil
		},
		func(_ context.Context, h base.Height) (base.SuffrageProof, bool, error) {
			verifrt.Assert(h == base.GenesisHeight, "C18.only-heights-between-local-and-last-are-requested")
			return answer, true, nil
		},
		func(context.Context) (base.State, bool, error) { return nil, false, nil },
	)
	_, _, _, err := s.Build(context.Background(), nil)
	if !verifrt.Symbolic() {
		// native replay only: let a panicking worker goroutine crash the process (see C18.go)
		time.Sleep(300 * time.Millisecond)
	}
	verifrt.Reach("C18.realproof.returned")
	if err != nil {
		verifrt.Reach("C18.realproof.error")
	}
}
