package isaac

import (
	"context"
	"sync"
	"time"

	"github.com/pkg/errors"
	"github.com/spikeekips/mitum/base"
	"github.com/spikeekips/mitum/util"
	"github.com/spikeekips/mitum/util/valuehash"
	"github.com/spikeekips/mitum/util/verifrt"
)

// C11 A block is saved only for the agreed manifest, once per height.
//
// Code under test (all real): ProposalProcessors.Process / Save / Cancel and the
// DefaultProposalProcessor they create (Process, Save, Cancel, the manifest comparison in save),
// driven as isaac/states/voteproof_handler.go drives them:
//   Process(ctx, ivp.Point, ivp.majority.Proposal, previous manifest, ivp)
//   Save(context.Background(), avp.majority.Proposal, avp)      (avp with a majority)
//   Cancel()
// Environment owned by the harness: the BlockWriter (logs what is saved), getproposal (hands out
// the proposal with the requested fact hash and point, or fails - what launch's getProposalFunc
// guarantees), proposals without operations (operation processing is C10's subject), voteproofs.
//
// The world: two proposals, P0 at (H, round 0) and P1 at (H, round 1) or (H+1, round 1), H
// symbolic; the processors start after any earlier history: nothing saved yet, or a block saved at
// any height S (really processed and saved through the same calls before the explored ones - the
// harness does not touch the processors' private fields); the manifest a
// processor computes for proposal i has the hash m_i (block production is deterministic). An
// ACCEPT voteproof names a proposal (its own point is the point of that proposal: ballots of
// other points are refused when they are received) and a new-block hash: m_i, or - the most
// confusable wrong one - the manifest hash of the other proposal.
//
// "Saved" = BlockWriter.Save is called. Checked for every Save the writer sees:
//   * the writer's manifest was computed, and its hash is the new-block hash of the ACCEPT
//     voteproof handed to that writer, and that voteproof's majority names the writer's proposal
//   * its height is above every height saved before (including the block of the earlier history)
//     (which gives: at most one block per height)

// ---- proposals ----

type verifC11ProposalFact struct {
	base.ProposalFact // not used: the processors read Hash(), Point(), Operations()
	idx               int
	h                 util.Hash
	point             base.Point
}

func (f *verifC11ProposalFact) Hash() util.Hash            { return f.h }
func (f *verifC11ProposalFact) Point() base.Point          { return f.point }
func (f *verifC11ProposalFact) Operations() [][2]util.Hash { return nil }
func (f *verifC11ProposalFact) IsValid([]byte) error       { return nil }
func (f *verifC11ProposalFact) ProposedAt() time.Time      { return time.Time{} }
func (f *verifC11ProposalFact) PreviousBlock() util.Hash   { return nil }
func (f *verifC11ProposalFact) Proposer() base.Address     { return nil }

type verifC11Proposal struct {
	base.ProposalSignFact // not used
	fact                  *verifC11ProposalFact
}

func (p *verifC11Proposal) Fact() base.Fact                 { return p.fact }
func (p *verifC11Proposal) ProposalFact() base.ProposalFact { return p.fact }
func (p *verifC11Proposal) Point() base.Point               { return p.fact.point }
func (p *verifC11Proposal) IsValid([]byte) error            { return nil }

// ---- voteproofs ----

type verifC11IVP struct {
	base.INITVoteproof // not used: handed through to the writer
}

type verifC11ACCEPTFact struct {
	base.ACCEPTBallotFact // not used
	point                 base.StagePoint
	proposal              util.Hash
	newblock              util.Hash
}

func (f verifC11ACCEPTFact) Point() base.StagePoint { return f.point }
func (f verifC11ACCEPTFact) Proposal() util.Hash    { return f.proposal }
func (f verifC11ACCEPTFact) NewBlock() util.Hash    { return f.newblock }

type verifC11AVP struct {
	base.ACCEPTVoteproof // not used
	id                   int
	fact                 verifC11ACCEPTFact
}

func (v *verifC11AVP) Point() base.StagePoint                { return v.fact.point }
func (v *verifC11AVP) Result() base.VoteResult               { return base.VoteResultMajority }
func (v *verifC11AVP) BallotMajority() base.ACCEPTBallotFact { return v.fact }
func (v *verifC11AVP) Majority() base.BallotFact             { return v.fact }
func (v *verifC11AVP) ID() string                            { return "verif-avp" }

// ---- manifest, block map, writer ----

type verifC11Manifest struct {
	base.Manifest // not used: the processor reads Hash()
	h             util.Hash
	height        base.Height
}

func (m verifC11Manifest) Hash() util.Hash     { return m.h }
func (m verifC11Manifest) Height() base.Height { return m.height }

type verifC11BlockMap struct {
	base.BlockMap // not used
	m             verifC11Manifest
}

func (b verifC11BlockMap) Manifest() base.Manifest { return b.m }

type verifC11Saved struct {
	proposal *verifC11ProposalFact
	manifest base.Manifest        // what the writer computed (nil: never computed)
	avp      base.ACCEPTVoteproof // what the writer was given (nil: nothing)
}

type verifC11World struct {
	pps       *ProposalProcessors
	facts     []*verifC11ProposalFact
	mhash     []util.Hash // manifest hash of proposal i
	failfetch bool        // getproposal fails
	writers   int
	saved     []verifC11Saved
	start     base.Height // the height saved by the earlier history (NilHeight: none)
}

type verifC11Writer struct {
	w        *verifC11World
	proposal *verifC11ProposalFact
	manifest base.Manifest
	avp      base.ACCEPTVoteproof
}

func (*verifC11Writer) SetOperationsSize(uint64) {}
func (*verifC11Writer) SetProcessResult(context.Context, uint64, util.Hash, util.Hash, bool, base.OperationProcessReasonError) error {
	return nil
}
func (*verifC11Writer) SetStates(context.Context, uint64, []base.StateMergeValue, base.Operation) error {
	return nil
}
func (wr *verifC11Writer) Manifest(context.Context, base.Manifest) (base.Manifest, error) {
	wr.manifest = verifC11Manifest{h: wr.w.mhash[wr.proposal.idx], height: wr.proposal.point.Height()}
	return wr.manifest, nil
}
func (*verifC11Writer) SetINITVoteproof(context.Context, base.INITVoteproof) error { return nil }
func (wr *verifC11Writer) SetACCEPTVoteproof(_ context.Context, avp base.ACCEPTVoteproof) error {
	wr.avp = avp
	return nil
}
func (wr *verifC11Writer) Save(context.Context) (base.BlockMap, error) {
	wr.w.saved = append(wr.w.saved, verifC11Saved{proposal: wr.proposal, manifest: wr.manifest, avp: wr.avp})
	return verifC11BlockMap{m: verifC11Manifest{h: wr.w.mhash[wr.proposal.idx], height: wr.proposal.point.Height()}}, nil
}
func (*verifC11Writer) Cancel() error { return nil }

// verifC11NewWorld: nprops proposals: P0 at (H, 0); P1 either at the same height (H, 1) or at the
// next one (H+1, 1) - a symbolic choice, decided only where the code compares heights; P2 at (H+1, 0).
func verifC11NewWorld(nprops int) *verifC11World {
	w := &verifC11World{}
	h := int64(verifrt.NondetInt("height"))
	verifrt.Assume(h >= 0 && h < 1<<62)
	d := int64(verifrt.NondetInt("p1.heightdelta"))
	verifrt.Assume(d == 0 || d == 1)
	points := []base.Point{base.RawPoint(h, 0), base.RawPoint(h+d, 1), base.RawPoint(h+1, 0)}
	for i := 0; i < nprops; i++ {
		w.facts = append(w.facts, &verifC11ProposalFact{idx: i, h: valuehash.NewBytes([]byte{'p', byte(i)}), point: points[i]})
		w.mhash = append(w.mhash, valuehash.NewBytes([]byte{'m', byte(i)}))
	}
	// any earlier history: nothing saved yet, or some height saved last
	// (the case split on how S lies to H and H+1 is made here once, so that the comparisons in the
	// code under test do not fork; the five cases together are every S)
	w.start = base.NilHeight
	if region := verifrt.NondetChoice("earlier-history", 5); region > 0 {
		st := int64(verifrt.NondetInt("previoussaved"))
		verifrt.Assume(st >= 0)
		verifrt.Assume(st < 1<<62)
		switch region {
		case 1:
			verifrt.Assume(st < h)
		case 2:
			verifrt.Assume(st == h)
		case 3:
			verifrt.Assume(st == h+1)
		default:
			verifrt.Assume(st > h+1)
		}
		w.start = base.Height(st)
	}
	if w.start > base.NilHeight {
		w.facts = append(w.facts, &verifC11ProposalFact{idx: nprops, h: valuehash.NewBytes([]byte{'p', 's'}), point: base.NewPoint(w.start, 0)})
		w.mhash = append(w.mhash, valuehash.NewBytes([]byte{'m', 's'}))
	}
	args := NewDefaultProposalProcessorArgs()
	args.NewWriterFunc = func(pr base.ProposalSignFact, _ base.GetStateFunc) (BlockWriter, error) {
		w.writers++
		return &verifC11Writer{w: w, proposal: pr.(*verifC11Proposal).fact}, nil
	}
	w.pps = NewProposalProcessors(
		func(pr base.ProposalSignFact, previous base.Manifest) (ProposalProcessor, error) {
			return NewDefaultProposalProcessor(pr, previous, args)
		},
		func(_ context.Context, point base.Point, facthash util.Hash) (base.ProposalSignFact, error) {
			if w.failfetch {
				return nil, errors.Errorf("proposal not found")
			}
			for i := range w.facts {
				if w.facts[i].h.Equal(facthash) && w.facts[i].point.Equal(point) {
					return &verifC11Proposal{fact: w.facts[i]}, nil
				}
			}
			return nil, errors.Errorf("proposal not found")
		},
	)
	w.pps.SetRetryLimit(1).SetRetryInterval(time.Millisecond)
	if w.start > base.NilHeight {
		d := &verifC11Driver{w: w, ctx: context.Background(), cancel: func() {}, wait: true}
		d.do(verifC11Call{kind: verifC11Process, prop: nprops})
		d.do(verifC11Call{kind: verifC11SaveMatch, prop: nprops})
		verifrt.Assert(len(w.saved) == 1, "C11.harness.earlier-history-saved-its-block")
	}
	return w
}

// ---- the calls, as the consensus states make them ----

const (
	verifC11Process = iota
	verifC11SaveMatch
	verifC11SaveOther
	verifC11Cancel
	verifC11CancelContext
)

type verifC11Call struct {
	kind int
	prop int
}

// verifC11Menu: the calls to choose from: Process(P_i), Save(avp naming P_i with the new block
// m_i), Save(avp naming P_i with another new block) for the first `others` proposals, Cancel,
// and (optionally) cancelling the context of the consensus state.
func verifC11Menu(nprops, others int, cancelctx bool) []verifC11Call {
	var menu []verifC11Call
	for i := 0; i < nprops; i++ {
		menu = append(menu, verifC11Call{kind: verifC11Process, prop: i})
	}
	for i := 0; i < nprops; i++ {
		menu = append(menu, verifC11Call{kind: verifC11SaveMatch, prop: i})
	}
	for i := 0; i < others && i < nprops; i++ {
		menu = append(menu, verifC11Call{kind: verifC11SaveOther, prop: i})
	}
	menu = append(menu, verifC11Call{kind: verifC11Cancel})
	if cancelctx {
		menu = append(menu, verifC11Call{kind: verifC11CancelContext})
	}
	return menu
}

type verifC11Driver struct {
	w      *verifC11World
	ctx    context.Context
	cancel func()
	wait   bool // wait for the result of Process before the next call of this caller
}

func (d *verifC11Driver) do(c verifC11Call) {
	w := d.w
	switch c.kind {
	case verifC11Process:
		f := w.facts[c.prop]
		process, err := w.pps.Process(d.ctx, f.point, f.h, nil, verifC11IVP{})
		if err == nil && process != nil && d.wait {
			m, err := process(context.Background())
			if err == nil && m != nil {
				verifrt.Reach("C11.proposal-processed")
			}
		}
	case verifC11SaveMatch, verifC11SaveOther:
		f := w.facts[c.prop]
		nb := w.mhash[c.prop]
		if c.kind == verifC11SaveOther {
			// the most confusable other hash: the manifest hash of another proposal
			nb = w.mhash[(c.prop+1)%2]
		}
		avp := &verifC11AVP{fact: verifC11ACCEPTFact{
			point: base.NewStagePoint(f.point, base.StageACCEPT), proposal: f.h, newblock: nb,
		}}
		bm, err := w.pps.Save(context.Background(), avp.BallotMajority().Proposal(), avp)
		if err == nil {
			verifrt.Reach("C11.save-returned-a-block")
			verifrt.Assert(bm != nil, "C11.harness.save-without-error-returns-the-block-map")
		}
	case verifC11Cancel:
		_ = w.pps.Cancel()
	default:
		d.cancel()
	}
}

// verifC11CheckSaved: the clauses of C11 over everything the writers saved, in the order of saving.
func verifC11CheckSaved(w *verifC11World) {
	top := base.NilHeight
	for i := range w.saved {
		s := w.saved[i]
		verifrt.Reach("C11.block-saved")
		verifrt.Assert(s.manifest != nil && s.avp != nil, "C11.saves-a-processed-proposal-only-with-its-computed-manifest-and-the-accept-voteproof")
		if s.manifest == nil || s.avp == nil {
			return
		}
		verifrt.Assert(s.manifest.Hash().Equal(s.avp.BallotMajority().NewBlock()),
			"C11.saves-only-when-the-ACCEPT-majority's-new-block-hash-equals-the-manifest-it-computed")
		verifrt.Assert(s.avp.BallotMajority().Proposal().Equal(s.proposal.h),
			"C11.the-saved-manifest-is-the-one-computed-for-the-proposal-the-ACCEPT-majority-names")
		h := s.proposal.point.Height()
		if i > 0 {
			verifrt.Reach("C11.second-block-saved")
			verifrt.Assert(h != top, "C11.saves-at-most-one-block-per-height")
			verifrt.Assert(h > top, "C11.never-saves-a-height-at-or-below-one-already-saved")
		}
		top = h
	}
}

// VerifC11Sequence: a sequence of calls by one caller, from any previousSaved.
func VerifC11Sequence() {
	nprops := 2
	w := verifC11NewWorld(nprops)
	ctx, cancel := context.WithCancel(context.Background())
	defer cancel()
	d := &verifC11Driver{w: w, ctx: ctx, cancel: cancel, wait: true}
	ncalls := verifrt.Bound("calls", 3, 4)
	menu := verifC11Menu(nprops, 1, false)
	failfetch := false
	if verifrt.Bound("variants", 0, 1) == 1 && verifrt.NondetChoice("variant", 2) == 1 {
		// thorough, second half: one call less, but every Save variant, the cancelled context and
		// a failing proposal fetch
		ncalls--
		menu = verifC11Menu(nprops, nprops, true)
		failfetch = true
	}
	for i := 0; i < ncalls; i++ {
		c := menu[verifrt.NondetChoice("call", len(menu))]
		if c.kind == verifC11Process && failfetch {
			w.failfetch = verifrt.NondetChoice("failfetch", 2) == 1
		}
		d.do(c)
	}
	verifrt.Reach("C11.sequence.done")
	verifC11CheckSaved(w)
}

// VerifC11Concurrent: after an optional first call, two callers make one call each at the same
// time, then the matching ACCEPT voteproof for the proposal of the current processor arrives.
func VerifC11Concurrent() {
	nprops := 2
	w := verifC11NewWorld(nprops)
	ctx, cancel := context.WithCancel(context.Background())
	defer cancel()
	menu := verifC11Menu(nprops, verifrt.Bound("saveother", 1, 2), true)
	// the state before: nothing processed, or P0 processed, or P0 being processed
	d := &verifC11Driver{w: w, ctx: ctx, cancel: cancel}
	switch verifrt.NondetChoice("first", 3) {
	case 1:
		d.wait = true
		d.do(verifC11Call{kind: verifC11Process, prop: 0})
	case 2:
		d.do(verifC11Call{kind: verifC11Process, prop: 0})
	}
	d.wait = false
	a := verifrt.NondetChoice("call", len(menu))
	b := a + verifrt.NondetChoice("call", len(menu)-a) // symmetry: b >= a
	calls := []verifC11Call{menu[a], menu[b]}
	var wg sync.WaitGroup
	for g := range calls {
		g := g
		wg.Add(1)
		go func() {
			defer wg.Done()
			d.do(calls[g])
		}()
	}
	wg.Wait()
	verifrt.Reach("C11.concurrent.both-returned")
	d.wait = true
	// the ACCEPT voteproof for the proposal whose processor is there now (any other is refused
	// without looking at the processor)
	last := 0
	w.pps.l.Lock()
	if w.pps.p != nil {
		last = w.pps.p.Proposal().(*verifC11Proposal).fact.idx
	}
	w.pps.l.Unlock()
	d.do(verifC11Call{kind: verifC11SaveMatch, prop: last})
	// taking the lock: a processor still running has finished when we look
	w.pps.l.Lock()
	verifC11CheckSaved(w)
	w.pps.l.Unlock()
}
