package util

import (
	"context"
	"sync"
	"time"

	"github.com/spikeekips/mitum/util/verifrt"
)

// C34 Stopped timers stay stopped and do not affect their successors.
//
// The timer loop body (SimpleTimers.iterate) is driven directly; time is the engine's
// virtual clock (natively: real sleeps of the same, millisecond-scale, amounts).

const verifC34ms = int64(time.Millisecond)

func verifC34Quiesce() { time.Sleep(60 * time.Millisecond) } // everything else runs to completion first

// VerifC34Successor: a timer registered LATER under the same id survives the end of the
// old timer's job (callback returning keep=false or an error), whether the successor is
// registered from inside the old callback or concurrently from another goroutine.
func VerifC34Successor() {
	ts, err := NewSimpleTimers(1, time.Millisecond)
	verifrt.Assert(err == nil, "C34.harness.timers-construct")
	id := TimerID("x")
	succCalled := 0
	succ := NewSimpleTimer(id, func(uint64) time.Duration { return time.Hour },
		func(context.Context, uint64) (bool, error) { succCalled++; return true, nil }, nil)
	inside := verifrt.NondetChoice("successor-registered-inside-callback", 2) == 1
	endKind := verifrt.NondetChoice("old-timer-ends-by", 2) // 0: keep=false, 1: error
	oldStarted := 0
	var wg sync.WaitGroup
	old := NewSimpleTimer(id, func(uint64) time.Duration { return 10 * time.Millisecond },
		func(context.Context, uint64) (bool, error) {
			oldStarted++
			if inside {
				added, err := ts.NewTimer(succ)
				verifrt.Assert(added && err == nil, "C34.harness.successor-registered")
			}
			verifrt.Yield("old callback body")
			if endKind == 1 {
				return true, context.DeadlineExceeded
			}
			return false, nil
		}, nil)
	added, err := ts.NewTimer(old)
	verifrt.Assert(added && err == nil, "C34.harness.old-timer-registered")
	verifrt.AdvanceClock(11 * verifC34ms)
	if !inside {
		wg.Add(1)
		go func() {
			defer wg.Done()
			added, err := ts.NewTimer(succ)
			verifrt.Assert(added && err == nil, "C34.harness.successor-registered")
		}()
	}
	verifrt.Assert(ts.iterate(context.Background()) == nil, "C34.harness.iterate-runs")
	wg.Wait()
	verifC34Quiesce()
	verifrt.Reach("C34.successor.quiescent")
	cur, found := ts.timers.Value(id)
	verifrt.Assert(found && cur == succ, "C34.removing-a-timer-never-removes-a-different-timer-later-registered-under-the-same-id")
	verifrt.Assert(succ.getCtx().Err() == nil, "C34.successor-not-stopped-by-the-old-timer's-removal")
	verifrt.Assert(succCalled == 0, "C34.successor-callback-not-run-before-its-interval")
	verifrt.Assert(oldStarted <= 1, "C34.old-callback-started-at-most-once")
}

// VerifC34StopThenNoStart: after StopTimers(id) has returned, the callback of that timer is
// not STARTED again, under every interleaving of StopTimers with the timer loop body.
func VerifC34StopThenNoStart() {
	ts, err := NewSimpleTimers(1, time.Millisecond)
	verifrt.Assert(err == nil, "C34.harness.timers-construct")
	id := TimerID("x")
	var mu sync.Mutex
	stopReturned := false
	startedAfterStop := false
	started := 0
	added, err := ts.New(id, func(uint64) time.Duration { return 10 * time.Millisecond },
		func(context.Context, uint64) (bool, error) {
			mu.Lock()
			started++
			if stopReturned {
				startedAfterStop = true
			}
			mu.Unlock()
			return true, nil
		})
	verifrt.Assert(added && err == nil, "C34.harness.timer-registered")
	verifrt.AdvanceClock(11 * verifC34ms)
	var wg sync.WaitGroup
	wg.Add(1)
	go func() {
		defer wg.Done()
		_ = ts.StopTimers([]TimerID{id})
		mu.Lock()
		stopReturned = true
		mu.Unlock()
	}()
	rounds := verifrt.Bound("rounds", 2, 3)
	for i := 0; i < rounds; i++ {
		verifrt.Assert(ts.iterate(context.Background()) == nil, "C34.harness.iterate-runs")
		verifrt.AdvanceClock(11 * verifC34ms)
	}
	wg.Wait()
	verifC34Quiesce()
	// one more full round after the stop has certainly returned
	verifrt.Assert(ts.iterate(context.Background()) == nil, "C34.harness.iterate-runs")
	verifC34Quiesce()
	verifrt.Reach("C34.stop.quiescent")
	// under a race of StopTimers with a job of the loop that is already running
	verifrt.Assert(!startedAfterStop, "C34.once-a-timer-has-been-stopped-its-callback-is-not-started-again(stop-racing-a-running-job)")
	verifrt.Assert(!ts.timers.Exists(id), "C34.stopped-timer-is-not-registered-any-more")
}

// VerifC34RunAfterStop: sequential core of the same clause: the loop has collected an expired
// timer, StopTimers/StopOthers/StopAllTimers returns, THEN the timer's job runs: the callback
// must not start; nor in any later loop round.
func VerifC34RunAfterStop() {
	ts, err := NewSimpleTimers(1, time.Millisecond)
	verifrt.Assert(err == nil, "C34.harness.timers-construct")
	id := TimerID("x")
	started := 0
	tr := NewSimpleTimer(id, func(uint64) time.Duration { return 10 * time.Millisecond },
		func(context.Context, uint64) (bool, error) { started++; return true, nil }, nil)
	added, err := ts.NewTimer(tr)
	verifrt.Assert(added && err == nil, "C34.harness.timer-registered")
	other := TimerID("y")
	_, _ = ts.New(other, func(uint64) time.Duration { return time.Hour }, func(context.Context, uint64) (bool, error) { return true, nil })
	verifrt.AdvanceClock(11 * verifC34ms)
	verifrt.Assert(tr.isExpired() && tr.prepare(), "C34.harness.loop-collects-the-expired-timer")
	switch verifrt.NondetChoice("stopped-by", 3) {
	case 0:
		_ = ts.StopTimers([]TimerID{id})
	case 1:
		_ = ts.StopOthers([]TimerID{other})
	case 2:
		_ = ts.StopAllTimers()
	}
	keep, _ := tr.run()
	verifrt.Reach("C34.runafterstop.ran-job")
	verifrt.Assert(started == 0, "C34.once-a-timer-has-been-stopped-its-callback-is-not-started-again")
	verifrt.Assert(!keep, "C34.stopped-timer's-job-asks-for-removal")
	verifrt.Assert(!ts.timers.Exists(id), "C34.stopped-timer-is-not-registered-any-more")
	verifrt.AdvanceClock(100 * verifC34ms)
	verifrt.Assert(ts.iterate(context.Background()) == nil, "C34.harness.iterate-runs")
	verifC34Quiesce()
	verifrt.Assert(started == 0, "C34.once-a-timer-has-been-stopped-its-callback-is-not-started-by-a-later-loop-round")
}

// VerifC34Interval: a callback never runs before its interval has elapsed (first run and
// re-run), and does run once the interval is over; sequential, the clock is advanced by
// amounts below / above the interval.
func VerifC34Interval() {
	ts, err := NewSimpleTimers(1, time.Millisecond)
	verifrt.Assert(err == nil, "C34.harness.timers-construct")
	id := TimerID("x")
	ivs := []int64{135, 285} // chosen so that no sum of clock steps comes closer than 15 ms to an interval boundary (native replays use real sleeps)
	first := ivs[verifrt.NondetChoice("first-interval", 2)] * verifC34ms
	next := ivs[verifrt.NondetChoice("next-interval", 2)] * verifC34ms
	var runs []time.Time
	var mu sync.Mutex
	reg := time.Now()
	added, err := ts.New(id, func(n uint64) time.Duration {
		if n == 0 {
			return time.Duration(first)
		}
		return time.Duration(next)
	}, func(context.Context, uint64) (bool, error) {
		mu.Lock()
		runs = append(runs, time.Now())
		mu.Unlock()
		return true, nil
	})
	verifrt.Assert(added && err == nil, "C34.harness.timer-registered")
	total := int64(0)
	steps := verifrt.Bound("clocksteps", 4, 6)
	for i := 0; i < steps; i++ {
		adv := []int64{30, 150, 300}[verifrt.NondetChoice("advance", 3)] * verifC34ms
		verifrt.AdvanceClock(adv)
		total += adv
		verifrt.Assert(ts.iterate(context.Background()) == nil, "C34.harness.iterate-runs")
		verifC34Quiesce()
	}
	verifrt.Reach("C34.interval.done")
	mu.Lock()
	defer mu.Unlock()
	if len(runs) > 0 {
		verifrt.Reach("C34.interval.ran")
		verifrt.Assert(runs[0].Sub(reg) >= time.Duration(first), "C34.callback-never-runs-before-its-interval-has-elapsed")
	}
	for i := 1; i < len(runs); i++ {
		verifrt.Reach("C34.interval.reran")
		verifrt.Assert(runs[i].Sub(runs[i-1]) >= time.Duration(next), "C34.callback-never-reruns-before-its-next-interval-has-elapsed")
	}
	// the timer does fire: after more than the first interval plus one quiescence per step
	if total > first+int64(steps)*61*verifC34ms+verifC34ms {
		verifrt.Assert(len(runs) >= 1, "C34.callback-runs-once-the-interval-is-over")
	}
}
