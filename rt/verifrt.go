// Package verifrt is the harness vocabulary of the /verif machinery.
//
// Under the symbolic engine every function here is intercepted (Nondet* become
// solver variables, Assert becomes a query). Compiled natively it runs in
// REPLAY mode: Nondet* pop the concrete vector found by the solver, so that a
// counterexample is re-executed against the real build.
package verifrt

import (
	"encoding/json"
	"fmt"
	"os"
	"time"
)

func sleepNs(d int64) { time.Sleep(time.Duration(d)) }

type input struct {
	Name string  `json:"name"`
	Kind string  `json:"kind"`
	U    uint64  `json:"u"`
	F    float64 `json:"f"`
}

type replayFile struct {
	Tier   string         `json:"tier"`
	Bounds map[string]int `json:"bounds"`
	Inputs []input        `json:"inputs"`
}

var (
	rf  replayFile
	pos int
)

func init() {
	p := os.Getenv("VERIF_REPLAY")
	if p == "" {
		return
	}
	b, err := os.ReadFile(p)
	if err != nil {
		fmt.Println("VERIF-REPLAY-ERROR", err)
		os.Exit(5)
	}
	if err := json.Unmarshal(b, &rf); err != nil {
		fmt.Println("VERIF-REPLAY-ERROR", err)
		os.Exit(5)
	}
}

func next(kind, name string) input {
	if pos >= len(rf.Inputs) {
		fmt.Printf("VERIF-REPLAY-DIVERGED vector exhausted at %s %s\n", kind, name)
		os.Exit(5)
	}
	in := rf.Inputs[pos]
	pos++
	if in.Kind != kind {
		fmt.Printf("VERIF-REPLAY-DIVERGED want %s %s, vector has %s %s\n", kind, name, in.Kind, in.Name)
		os.Exit(5)
	}
	return in
}

func NondetU64(name string) uint64 { return next("u64", name).U }
func NondetInt(name string) int    { return int(int64(next("i64", name).U)) }
func NondetU8(name string) uint8   { return uint8(next("u8", name).U) }
func NondetU32(name string) uint32 { return uint32(next("u32", name).U) }
func NondetBool(name string) bool  { return next("bool", name).U != 0 }
func NondetF64(name string) float64 {
	return next("f64", name).F
}

func NondetBytes(name string, n int) []byte {
	b := make([]byte, n)
	for i := range b {
		b[i] = uint8(next("u8", name).U)
	}
	return b
}

func NondetString(name string, n int) string { return string(NondetBytes(name, n)) }

// NondetChoice returns a value in [0,n); the engine explores every value.
func NondetChoice(name string, n int) int { return int(next("choice", name).U) }

// Bound returns a harness bound depending on the tier.
func Bound(name string, quick, thorough int) int {
	if v, ok := rf.Bounds[name]; ok {
		return v
	}
	if rf.Tier == "thorough" {
		return thorough
	}
	return quick
}

func Assume(c bool) {
	if !c {
		fmt.Println("VERIF-ASSUME-FAIL")
		os.Exit(4)
	}
}

func Assert(c bool, label string) {
	if !c {
		fmt.Printf("VERIF-ASSERT-FAIL %s\n", label)
		os.Exit(3)
	}
}

func Reach(label string) { fmt.Printf("VERIF-REACH %s\n", label) }

func Observe(label string, vals ...interface{}) {
	fmt.Printf("VERIF-OBSERVE %s %v\n", label, vals)
}

// Yield marks a scheduling point (a no-op natively).
func Yield(site string) {}

// Symbolic reports whether the code runs under the symbolic engine.
func Symbolic() bool { return false }

// StorageCrashAfter: under the engine, every leveldb model opened afterwards drops its n-th
// (0-based) and all later mutating calls. Natively a no-op (crash points are not replayed natively).
func StorageCrashAfter(n int) {}

// StorageWrites returns the number of mutating storage calls made so far (engine only).
func StorageWrites() int { return 0 }

// AdvanceClock lets time pass: the engine advances its virtual clock by d nanoseconds,
// the native build sleeps.
func AdvanceClock(d int64) { sleepNs(d) }

// DelayBound (engine only): from now on, when the running goroutine blocks or exits the oldest
// enabled goroutine runs next, and at most n times per path another one is chosen (every such
// deviation is explored). n < 0 removes the bound.
func DelayBound(n int) {}
