#!/usr/bin/env python3
"""Regenerates MANIFEST.json from harness/index.d/*.json (claimed checks) and na.json (not-applicable reasons)."""
import json
import glob, os
idx = {os.path.basename(f)[:-5]: json.load(open(f)) for f in sorted(glob.glob('/verif/harness/index.d/*.json'))}
na = json.load(open('/verif/na.json'))
props = [json.loads(l) for l in open('/verif/properties.jsonl')]
checks = []
not_app = []
for p in props:
    pid = p['id']
    if pid in idx:
        c = idx[pid]
        checks.append({
            "property_id": pid,
            "quick_cmd": f"/verif/bin/vcheck -p {pid} -tier quick",
            "thorough_cmd": f"/verif/bin/vcheck -p {pid} -tier thorough",
            "evidence_file": f"/verif/evidence/{pid}.json",
            "replay_cmd_template": f"/verif/bin/vcheck -p {pid} -replay {{path}}",
            "engine": "symgo",
            "level_claimed": {
                "category": "model_checking",
                "text": c.get("level_text", "Bounded symbolic execution of the real functions (go/ssa of /repo's working tree) with an SMT solver deciding every assertion over all inputs inside the stated bounds; counterexamples are replayed natively before being reported."),
                "design_ref": "DESIGN.md §6 " + pid,
            },
            "level_note": "Bounds: " + c.get("bounds_text", "") + " Outside the claim: " + c.get("outside_claim", "") + " Trusted: go/ssa, the engine's instruction semantics (cross-checked by native replay of solver models), z3/cvc5, the environment stubs listed in the evidence file.",
            "technique": "symbolic execution of go/ssa + SMT (z3/cvc5), bounded",
        })
    else:
        not_app.append({"property_id": pid, "reason": na.get(pid, "no check built yet for this property in this round (see DESIGN.md)")})
m = {
    "version": 1,
    "setup_cmd": "cd /verif/engine && GOFLAGS=-mod=mod GOPROXY=off GOSUMDB=off GOTOOLCHAIN=local go build -o /verif/bin/vcheck ./cmd/vcheck",
    "hooks": {
        "guard": "verif",
        "enable": "harnesses and the verifrt package are injected with go/packages overlays and `go build -overlay -tags verif`; no hook source lives in /repo",
        "baseline_off_cmd": "cd /repo && go build ./... && go test -vet=off -count=1 ./util/...",
        "source_commits": [],
        "add_only": True,
    },
    "engines": [{"name": "symgo", "path": "/verif/engine", "serves_properties": sorted(idx.keys()),
                 "kind_free_text": "own symbolic interpreter for go/ssa (decision-prefix forking, cooperative goroutine scheduler) over SMT-LIB2 pipes to z3 4.8.12 / cvc5 1.0.3"}],
    "checks": checks,
    "not_applicable": not_app,
    "notes": "Every check loads /repo's current working tree with go/packages (overlay harness from /verif/harness), builds SSA, explores all paths of the harness entries symbolically and writes /verif/evidence/<id>.json. Known findings: /verif/known_findings.json.",
}
json.dump(m, open('/verif/MANIFEST.json', 'w'), indent=1)
print(len(checks), "checks,", len(not_app), "not applicable")
