#!/bin/bash
# seed_confirm.sh WT DIFF DEMO DEST -- <demo command, run in WT>
# Confirms a seeded change in its scratch worktree: demo passes without the change, fails with it,
# the tree still builds and the pinned suite still passes with it.
set -u
export GOFLAGS=-mod=mod GOPROXY=off GOSUMDB=off GOTOOLCHAIN=local
WT=$1; DIFF=$2; DEMO=$3; DEST=$4; shift 5
cd $WT || exit 2
git checkout -q -- . ; 
cp "$DEMO" "$WT/$DEST"
echo "== demo WITHOUT change"; ( "$@" ) > /tmp/seed_demo_without.log 2>&1; r0=$?; tail -3 /tmp/seed_demo_without.log; echo "exit=$r0"
git apply "$DIFF" || { echo "APPLY FAILED"; rm -f "$WT/$DEST"; exit 2; }
echo "== build WITH change"; go build ./... ; rb=$?; echo "build exit=$rb"
echo "== demo WITH change"; ( "$@" ) > /tmp/seed_demo_with.log 2>&1; r1=$?; tail -5 /tmp/seed_demo_with.log; echo "exit=$r1"
rm -f "$WT/$DEST"
echo "== pinned suite WITH change"; /verif/tools/baseline_dir.sh $WT; rs=$?
git checkout -q -- .
echo "SUMMARY without=$r0 build=$rb with=$r1 suite=$rs"
[ $r0 -eq 0 ] && [ $rb -eq 0 ] && [ $r1 -ne 0 ] && [ $rs -eq 0 ] && echo CONFIRMED
