#!/usr/bin/env python3
"""seed_keep.py ID N DEST_IN_REPO 'demo cmd' 'needs' 'detected_by' : confirm seed N of /tmp/seed/ID and store it under /verif/seeded/ID-mN/"""
import sys, os, subprocess, json, shutil, glob
pid, n, dest, cmd, needs, detected = sys.argv[1:7]
wt = f"/tmp/seed/{pid}"
sd = f"{wt}/_seed"
diff = f"{sd}/m{n}.diff"
demos = [f for f in glob.glob(f"{sd}/m{n}_*.go")]
demo = demos[0]
r = subprocess.run(["/verif/tools/seed_confirm.sh", wt, diff, demo, dest, "--"] + ["bash", "-c", cmd], capture_output=True, text=True)
print(r.stdout[-2500:])
ok = "CONFIRMED" in r.stdout
out = f"/verif/seeded/{pid}-m{os.environ.get('SEED_AS', n)}"
if ok:
    os.makedirs(out, exist_ok=True)
    shutil.copy(diff, f"{out}/patch.diff")
    shutil.copy(demo, f"{out}/{os.path.basename(demo)}")
    meta = {"property": pid, "needs_to_manifest": needs, "demo": {"copy_to": dest, "run": cmd, "file": os.path.basename(demo)},
            "confirmed": {"demo_passes_without_change": True, "demo_fails_with_change": True, "go_build": True, "pinned_suite_stable_pass_all_passing": True,
                          "how": "tools/seed_confirm.sh in the sub-agent's scratch worktree (git apply; go build ./...; demo; go test -json ./... compared with BASELINE.json stable_pass)"},
            "detected_by": detected, "source": "fresh sub-agent given only the property text and its own worktree"}
    json.dump(meta, open(f"{out}/meta.json", "w"), indent=1)
    print("KEPT", out)
else:
    print("NOT CONFIRMED")
