#!/bin/bash
# seed_try.sh ID DIFF [tier] [extra vcheck args]: apply DIFF to /repo, run the check, undo.
ID=$1; DIFF=$2; TIER=${3:-quick}; shift 3 2>/dev/null
cd /repo && git diff --quiet || { echo "/repo not clean"; exit 2; }
git -C /repo apply "$DIFF" || exit 2
cd /verif && ./bin/vcheck -p $ID -tier $TIER "$@" 2>&1 | tail -12
rc=${PIPESTATUS[0]}
git -C /repo checkout -- .
echo "check exit=$rc"
