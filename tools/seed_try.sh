#!/bin/bash
# seed_try.sh ID DIFF [tier] [extra vcheck args]: run the check of property ID against a scratch
# copy of /repo with DIFF applied (/repo itself and /verif/evidence are not touched).
ID=$1; DIFF=$2; TIER=${3:-quick}; shift 3 2>/dev/null
S=/tmp/seedtry.$$
mkdir -p $S/verif/evidence $S/verif/replays
cp -r /verif/harness /verif/rt /verif/known_findings.json /verif/na.json $S/verif/
git -C /repo worktree add --detach $S/repo HEAD -q || exit 2
git -C $S/repo apply "$DIFF" || { git -C /repo worktree remove --force $S/repo; rm -rf $S; exit 2; }
VERIF_DIR=$S/verif VERIF_REPO=$S/repo /verif/bin/vcheck -p $ID -tier $TIER "$@" 2>&1 | tail -12
rc=${PIPESTATUS[0]}
git -C /repo worktree remove --force $S/repo; rm -rf $S
echo "check exit=$rc"
