#!/bin/bash
# Runs the repository's pinned test suite (guard off) on a scratch worktree of /repo HEAD
# (or of the working tree with --worktree) and compares with BASELINE.json stable_pass.
set -u
export GOFLAGS=-mod=mod GOPROXY=off GOSUMDB=off GOTOOLCHAIN=local
D=$(mktemp -d /tmp/baseline.XXXX)
if [ "${1:-}" = "--worktree" ]; then
  rsync -a --exclude .git /repo/ $D/wt/
else
  git -C /repo worktree add --detach $D/wt HEAD >/dev/null 2>&1 || exit 2
fi
PKGS="${PKGS:-./...}"
(cd $D/wt && go build ./... && go test -json -vet=off -count=1 -timeout 25m $PKGS > $D/out.json 2>$D/err.txt)
python3 - "$D/out.json" <<'PY'
import json,sys
res={}
for l in open(sys.argv[1]):
    try: e=json.loads(l)
    except: continue
    if e.get('Action') in('pass','fail','skip') and e.get('Test'):
        res[e['Package']+'::'+e['Test']]=e['Action']
b=json.load(open('/root/.vp/BASELINE.json'))
sp=b['stable_pass']
bad=[t for t in sp if res.get(t)!='pass']
print("stable_pass:",len(sp),"now passing:",len(sp)-len(bad))
for t in bad[:40]: print("  NOT PASSING:",t,res.get(t))
sys.exit(1 if bad else 0)
PY
rc=$?
if [ "${1:-}" != "--worktree" ]; then git -C /repo worktree remove --force $D/wt; fi
rm -rf $D
exit $rc
