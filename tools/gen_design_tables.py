#!/usr/bin/env python3
"""Regenerates the generated sections of DESIGN.md (between <!-- GEN:x --> and <!-- /GEN:x -->) from
harness/index.d, known_findings.json, seeded/*/meta.json, na.json and the fix commits of /repo."""
import json, glob, os, re, subprocess
V = '/verif'
props = [json.loads(l) for l in open(f'{V}/properties.jsonl')]
idx = {os.path.basename(f)[:-5]: json.load(open(f)) for f in sorted(glob.glob(f'{V}/harness/index.d/*.json'))}
na = json.load(open(f'{V}/na.json'))
kf = json.load(open(f'{V}/known_findings.json'))
seeds = {}
for f in sorted(glob.glob(f'{V}/seeded/*/meta.json')):
    m = json.load(open(f)); seeds.setdefault(m['property'], []).append((os.path.basename(os.path.dirname(f)), m))

def esc(s): return s.replace('|', '\\|').replace('\n', ' ')

def checks():
    out = ['| id | title | package | entries | known findings | fixes in /repo | seeded changes caught |', '|---|---|---|---|---|---|---|']
    for p in props:
        pid = p['id']
        if pid in idx:
            c = idx[pid]
            ents = ', '.join(e['func'].replace('Verif' + pid, '') for e in c['entries'])
            known = sum(1 for k in kf if k['property'] == pid and k['status'] == 'known')
            fixed = sorted({k.get('commit', '') for k in kf if k['property'] == pid and k['status'] == 'fixed'})
            sd = ', '.join(n for n, _ in seeds.get(pid, []))
            out.append(f"| {pid} | {esc(p['title'])} | {c['pkg']} | {ents} | {known or ''} | {' '.join(fixed)} | {sd} |")
        else:
            out.append(f"| {pid} | {esc(p['title'])} | — | not applicable | | | |")
    return '\n'.join(out)

def perprop():
    out = []
    for p in props:
        pid = p['id']
        if pid not in idx:
            continue
        c = idx[pid]
        out.append(f"### {pid} {p['title']}\n")
        out.append(f"Package `{c['pkg']}`" + (''.join(f", `{m['pkg']}`" for m in c.get('more', []))) + f"; harness `{', '.join(c['files'])}`.\n")
        for e in c['entries']:
            opts = []
            if 'preemptions' in e: opts.append(f"preemptions {e['preemptions']}")
            if 'delay_bound' in e: opts.append(f"delay bound {e['delay_bound']}")
            if e.get('map_order_all'): opts.append('all map orders')
            out.append(f"* `{e['func']}`" + (f" ({', '.join(opts)})" if opts else '') + f": {e.get('claim','')}")
        out.append(f"\nBounds: {c.get('bounds_text','')}\n\nOutside the claim: {c.get('outside_claim','')}\n")
        if c.get('assumptions'):
            out.append('Assumptions: ' + '; '.join(c['assumptions']) + '\n')
    return '\n'.join(out)

def findings():
    out = ['**Known (recorded, not repaired)** — each prints a `KNOWN-FINDING:` line, the check exits 0:\n']
    for k in kf:
        if k['status'] == 'known':
            out.append(f"* {k['property']} `{k['label']}` — {k['what']}")
    out.append('\n**Fixed** (`fix:` commits in /repo; a fixed entry suppresses nothing):\n')
    for k in kf:
        if k['status'] == 'fixed':
            out.append(f"* {k['property']} `{k.get('commit','')}` — {k['what']} (label `{k['label']}`)")
    return '\n'.join(out)

def seeded():
    out = ['| seed | property | needs in order to manifest | detected by |', '|---|---|---|---|']
    for pid in sorted(seeds):
        for n, m in seeds[pid]:
            out.append(f"| {n} | {pid} | {esc(m['needs_to_manifest'])} | {esc(m['detected_by'])} |")
    return '\n'.join(out)

def nasec():
    return '\n'.join(f"* **{k}** — {v}" for k, v in na.items())

def fixes():
    log = subprocess.run(['git', '-C', '/repo', 'log', '--format=%h %s'], capture_output=True, text=True).stdout
    return '\n'.join('* `' + l.split()[0] + '` ' + ' '.join(l.split()[1:]) for l in log.splitlines() if ' fix:' in ' ' + l)

gen = {'checks': checks(), 'perprop': perprop(), 'findings': findings(), 'seeded': seeded(), 'na': nasec(), 'fixes': fixes()}
s = open(f'{V}/DESIGN.md').read()
for k, v in gen.items():
    s, n = re.subn(r'<!-- GEN:%s -->.*?<!-- /GEN:%s -->' % (k, k), lambda m: f'<!-- GEN:{k} -->\n{v}\n<!-- /GEN:{k} -->', s, flags=re.S)
    if n == 0:
        print('marker missing:', k)
open(f'{V}/DESIGN.md', 'w').write(s)
print('DESIGN.md tables regenerated')
