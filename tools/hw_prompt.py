#!/usr/bin/env python3
"""hw_prompt.py NAME C15 C18 ... : prompt for a sub-agent that writes harnesses for the given properties in a private copy of /verif."""
import json, sys, re
name = sys.argv[1]; pids = sys.argv[2:]
props = {json.loads(l)['id']: json.loads(l) for l in open('/verif/properties.jsonl')}
design = open('/verif/DESIGN.md').read()
def plan(pid):
    m = re.search(r'### %s .*?(?=\n### |\n-----)' % pid, design, re.S)
    return m.group(0) if m else ''
wd = f"/tmp/hw/{name}/verif"
out = [f"""You are extending a verification framework for the Go project spikeekips/mitum (source in /repo, READ-ONLY for you: never modify anything under /repo, and do not run `go` commands with cwd inside /repo except `go doc`/reading files; the framework loads it itself).

Your working directory is a private copy of the framework: {wd} (copy of /verif). Work only there. First read {wd}/HARNESS_GUIDE.md completely — it explains the symbolic engine, the harness vocabulary and the commands — and look at two existing harnesses as models: {wd}/harness/C29.go + index.d/C29.json (bytes, symbolic inputs), {wd}/harness/C33.go (goroutines), {wd}/harness/C25.go (storage model), {wd}/harness/C06.go (struct state, one inductive step).

Environment for every shell call:  export VERIF_DIR={wd} VERIF_WORKERS=6 GOFLAGS=-mod=mod GOPROXY=off GOSUMDB=off GOTOOLCHAIN=local
Run checks with {wd}/bin/vcheck (rebuild it into {wd}/bin/vcheck if you change the engine). No network.

Your task: for each property below write harness/<ID>.go and harness/index.d/<ID>.json in {wd}, and iterate with vcheck until the quick tier runs clean (all paths ok, no INCONCLUSIVE, Reach witnesses hit) or you have established that the remaining failure is a genuine defect of /repo's code. Then try the thorough tier (`-tier thorough`) and make sure its bounds finish within ~20 minutes (reduce thorough bounds otherwise).

The properties are FIXED text (do not reinterpret them to make checks pass, do not weaken the code's obligations). For each one a plan from the design document is given: it is a starting point, not binding; 'Reading' lines are hypotheses about defects that the check must confirm or refute.
"""]
for pid in pids:
    p = props[pid]
    out.append(f"""
================ {pid} — {p['title']}
Statement: {p['statement']}
Quantified over: {p['quantifier']['text']}
Why tests cannot settle it: {p['why_tests_cant']}
Anchors: {json.dumps(p['anchors'])}

Design-document plan:
{plan(pid)}
""")
out.append(f"""
Rules
* Assertion discipline as in the guide: assert only what the statement says; a counterexample must be reachable through the code's real entry points with arguments real callers can pass.
* If a check fails on the unchanged /repo and you are convinced (native replay fails too, and you have read the code) that it is a genuine defect: keep the assertion as it is, and describe the defect in your report with the concrete failing input and a suggested minimal source fix (a unified diff in the report; do not apply it to /repo). If you want to see the check pass with the fix, you may test with a scratch copy: `rsync -a --exclude .git /repo/ /tmp/hw/{name}/repo/` is NOT supported by vcheck (it always loads /repo), so instead just reason about it.
* Do not touch files of other properties. Do not commit. New engine stubs go into NEW files engine/symgo/ext_<id>.go (lower-case id); if you must change an existing engine file keep the change small and list it (file, what, why) in the report.
* Keep the quick tier of each property under ~2 minutes wall if possible (the machine is shared; use VERIF_WORKERS=6).
* Budget your effort: if a property cannot be brought to a clean, non-vacuous run after serious attempts, say precisely what blocks it (the unsupported feature, with the stack) and move on.

Deliverable: {wd}/REPORT_{name}.md with, per property: files written, entries and what each shows, bounds (quick/thorough), path counts and wall times of your final runs, stubs/assumptions introduced, suspected genuine defects (input, why, suggested fix), anything left out. Your final answer should be a short summary of that report.""")
print("\n".join(out))
