#!/bin/bash
# baseline_dir.sh DIR : run the pinned suite in DIR (a checkout of mitum) and compare with BASELINE.json stable_pass
set -u
export GOFLAGS=-mod=mod GOPROXY=off GOSUMDB=off GOTOOLCHAIN=local
DIR=$1
OUT=$(mktemp /tmp/blout.XXXX)
(cd $DIR && go build ./... && go test -json -vet=off -count=1 -timeout 25m ./... > $OUT 2>/dev/null)
python3 - "$OUT" <<'PY'
import json,sys
res={}
for l in open(sys.argv[1]):
    try: e=json.loads(l)
    except: continue
    if e.get('Action') in('pass','fail','skip') and e.get('Test'):
        res[e['Package']+'::'+e['Test']]=e['Action']
b=json.load(open('/root/.vp/BASELINE.json'))
sp=b['stable_pass']
bad=[t for t in sp if res.get(t)!='pass']
print("stable_pass:",len(sp),"now passing:",len(sp)-len(bad))
for t in bad[:40]: print("  NOT PASSING:",t,res.get(t))
sys.exit(1 if bad else 0)
PY
rc=$?
rm -f $OUT
exit $rc
