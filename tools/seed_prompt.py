#!/usr/bin/env python3
"""Prints the prompt given to a fresh sub-agent that seeds a property-breaking change (only the property text + its worktree)."""
import json, sys
pid = sys.argv[1]
wt = sys.argv[2] if len(sys.argv) > 2 else f"/tmp/seed/{pid}"
p = [json.loads(l) for l in open('/verif/properties.jsonl') if json.loads(l)['id'] == pid][0]
print(f"""You are helping to evaluate a verification tool. Your job: introduce realistic bugs into a Go code base.

Work ONLY inside the git worktree {wt} (a checkout of the Go project spikeekips/mitum, a blockchain node framework). Do not read or write anything under /verif or /repo. The sandbox has no network.

Every shell call needs: export GOFLAGS=-mod=mod GOPROXY=off GOSUMDB=off GOTOOLCHAIN=local
(go may rewrite go.mod's go/toolchain lines in the worktree: ignore that, and do not include go.mod/go.sum in your patches.)

The property the code is supposed to satisfy:

  {p['id']} - {p['title']}
  Statement: {p['statement']}
  Quantified over: {p['quantifier']['text']}
  Code it is anchored in: {', '.join(p['anchors']['files'])}

Task: produce TWO different, independent changes to the non-test source code (each one a small realistic bug, the kind a maintainer could plausibly introduce in a refactoring or "optimisation"), each of which
  (a) still compiles: `go build ./...` succeeds,
  (b) still passes the existing test suite: `go test -vet=off -count=1 ./...` (only packages under util/ have tests without build tags; five tests - TestBatchWork, TestContextDaemon, TestErrCallbackJobWorker, TestJobWorker, TestRetry in package util - ALWAYS fail at baseline with a goroutine-leak report and are to be ignored; everything else that passes on the unchanged worktree must still pass). Also the in-tree tagged tests of the packages you touch (`go test -tags test -vet=off -count=1 ./<pkg>/`) should, if they pass before your change, preferably still pass after it (say so if they do not),
  (c) breaks the property above, but ONLY when something specific happens: a particular unusual input value or boundary, a particular interleaving of goroutines, a crash/fault at a particular point, a multi-step sequence of operations, or two cooperating sites that each look fine alone. NOT a change that ordinary use would expose at once (do not break the common path).
For each change also write a demonstration: a Go test file (it may use `//go:build test` and the in-tree test helpers, run with `-tags test`) or a small program, which FAILS with the change applied and PASSES on the unchanged worktree. The demonstration must exercise the real code through its normal API.

Deliverables, written under {wt}/_seed/ (create it):
  m1.diff, m2.diff  - `git diff` of each change alone against HEAD (source only; each must apply to a clean HEAD with `git apply`)
  m1_demo_test.go (or similar) and m2_...  - the demonstrations, plus in NOTES.md: where to copy each file to, the exact command to run it, what it prints with/without the change
  NOTES.md - for each change: what it breaks, what specific condition it needs to manifest, and confirmation output of (a), (b) and of the demonstration with and without the change.
Leave the worktree's tracked files UNCHANGED at the end (git checkout -- . ; the _seed directory is untracked and stays). Report a short summary as your final answer.""")
